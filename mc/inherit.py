"""Inheritance family of C03: a measure that a subclass of Network INHERITS
(does not override) must report, on an instance of the subclass, what the
plain Network with the same adjacency, direction, node weights and link
attributes reports.  The definitions themselves are judged on Network by the
other families of C03; this family carries them over to Spatial-, Geo-,
Climate-, Recurrence-, Visibility-, Interacting-, Resistive- ... network
objects, where overridden helpers (`global_efficiency`, `sp_A`, `graph`,
`node_weights` ...) could silently change an inherited measure.

case = [driver name, model index, tier]
"""
import numpy as np

from . import drivers as D
from .core import V
from .compare import same_outcome, brief, outcome

SPECTRAL = ("eigenvector_centrality", "nsi_eigenvector_centrality",
            "msf_synchronizability", "pagerank")


def network_drivers():
    from pyunicorn.core import Network
    out = []
    for dname, drv in D.DRIVERS.items():
        try:
            cls = drv.cls()
        except Exception:   # noqa
            continue
        if isinstance(cls, type) and issubclass(cls, Network) and \
                cls is not Network:
            out.append(dname)
    return out


def cases(tier):
    out = []
    for dname in network_drivers():
        for mi in range(len(D.DRIVERS[dname].models(tier))):
            out.append([dname, mi, tier])
            out += [[dname, mi, tier, k]
                    for k in range(n_mutators(dname, mi, tier))]
    return out


def install(mod):
    fams = getattr(mod, "FAMILIES", None)
    if isinstance(fams, dict):
        fams.setdefault("inherit", fam_inherit)


def attach(ctx):
    if ctx.prop != "C03":
        return
    ctx.explore("inherit", cases(ctx.tier), chunk=1,
                desc="measures a Network subclass inherits, on subclass "
                "objects (fresh and after each public mutator) vs the plain "
                "Network with the same adjacency, weights, link attributes")
    ctx.rule += ("  inherit: every class driver of a Network subclass x "
                 "models x {fresh, after each mutator}: every non-overridden "
                 "Network query equals that of the plain Network.")


def _connected(A):
    n = len(A)
    if n == 0:
        return True
    U = ((A + A.T) > 0)
    seen, todo = {0}, [0]
    while todo:
        i = todo.pop()
        for j in np.nonzero(U[i])[0]:
            if int(j) not in seen:
                seen.add(int(j))
                todo.append(int(j))
    return len(seen) == n


def fam_inherit(case):
    """case = [driver, model index, tier] (fresh object) or
    [driver, model index, tier, k] (after the k-th public mutator of the
    driver: the object must still be a consistent Network - adjacency,
    direction flag, embedded graph, weights)."""
    dname, mi, tier = case[:3]
    drv = D.DRIVERS[dname]
    model = drv.models(tier)[mi]
    obj = drv.construct(model)
    tag = ""
    if len(case) > 3:
        muts = drv.mutators(model)
        if case[3] >= len(muts):
            return {"viol": [], "evals": 0, "trivial": True}
        label, spec = muts[case[3]]
        try:
            if drv.apply(obj, model, spec) is None:
                return {"viol": [], "evals": 0, "trivial": True}
        except Exception:   # noqa  (mutators that raise are C01's business)
            return {"viol": [], "evals": 0, "trivial": True}
        tag = ":after:" + spec[0]
    return _compare_with_plain(drv, obj, dname, mi, tag)


def n_mutators(dname, mi, tier):
    drv = D.DRIVERS[dname]
    try:
        return len(drv.mutators(drv.models(tier)[mi]))
    except Exception:   # noqa
        return 0


def _intermediate_bases(drv, obj, A, tag, viol, excl):
    """The same idea one level up: what an object inherits from
    SpatialNetwork / GeoNetwork / InteractingNetworks must be what a plain
    object of THAT class with the same grid, adjacency and weights reports
    (queries that the plain Network already answers are not repeated)."""
    from pyunicorn.core import (Network, SpatialNetwork, GeoNetwork,
                                InteractingNetworks)
    cls = drv.cls()
    ev = 0
    builders = []
    if issubclass(cls, GeoNetwork) and cls is not GeoNetwork:
        def mk_geo():
            g = GeoNetwork(grid=obj.grid, adjacency=A.copy(),
                           directed=bool(obj.directed),
                           node_weight_type=None, silence_level=3)
            g.node_weights = np.asarray(obj.node_weights, float).copy()
            return g
        builders.append((GeoNetwork, "GeoNetwork", mk_geo))
    elif issubclass(cls, SpatialNetwork) and cls is not SpatialNetwork:
        def mk_sp():
            g = SpatialNetwork(grid=obj.grid, adjacency=A.copy(),
                               directed=bool(obj.directed), silence_level=3)
            g.node_weights = np.asarray(obj.node_weights, float).copy()
            return g
        builders.append((SpatialNetwork, "SpatialNetwork", mk_sp))
    if issubclass(cls, InteractingNetworks) and \
            cls is not InteractingNetworks:
        builders.append((InteractingNetworks, "InteractingNetworks",
                         lambda: InteractingNetworks(
                             adjacency=A.copy(), directed=bool(obj.directed),
                             node_weights=np.asarray(obj.node_weights,
                                                     float).copy(),
                             silence_level=3)))
    for base, bname, mk in builders:
        bd = D.DRIVERS.get(bname)
        try:
            plain = mk()
        except Exception:   # noqa
            excl["no plain %s from this object" % bname] = 1
            continue
        if obj.n_links:
            for nm in obj.graph.es.attributes():
                try:
                    plain.set_link_attribute(nm, np.asarray(
                        obj.link_attribute(nm)))
                except Exception:   # noqa
                    pass
        known = set(D.qlabel(q) for q in D.discover(Network))
        for q in D.discover(base, deny=getattr(bd, "deny", ())):
            meth = q[0]
            if D.qlabel(q) in known:
                continue
            if getattr(cls, meth, None) is not getattr(base, meth, None):
                continue
            g = outcome(drv.call, obj, q)
            e = outcome(drv.call, plain, q)
            ev += 1
            if same_outcome(g, e, **drv.tol):
                continue
            kind = "raises" if (g[0] == "exc" and e[0] != "exc") else "value"
            viol.append(V(
                "%s.%s:inherited!=%s:%s%s" % (drv.name, D.qpattern(q), bname,
                                              kind, tag),
                "%s on a %s object differs from the plain %s with the same "
                "grid, adjacency and weights" % (D.qlabel(q), drv.name,
                                                 bname),
                brief(g), brief(e)))
    return ev


def _compare_with_plain(drv, obj, dname, mi, tag):
    from pyunicorn.core import Network
    cls = drv.cls()
    A = np.asarray(obj.adjacency)
    try:
        plain = Network(adjacency=A.copy(), directed=bool(obj.directed),
                        node_weights=np.asarray(obj.node_weights,
                                                dtype=float).copy(),
                        silence_level=3)
    except Exception as ex:   # noqa
        # the object's own adjacency / direction flag / node weights do not
        # describe a network (e.g. N weights for another N)
        return {"viol": [V(
            "%s:inconsistent-network-state%s" % (drv.name, tag),
            "no plain Network can be built from the object's adjacency "
            "%s, directed=%s and %d node weights" % (
                A.shape, obj.directed, len(np.atleast_1d(obj.node_weights))),
            repr(ex), "a Network")], "evals": 1, "trivial": False,
            "sig": (dname, mi, "inconsistent", tag)}
    if obj.n_links:
        for nm in obj.graph.es.attributes():
            try:
                plain.set_link_attribute(nm, np.asarray(
                    obj.link_attribute(nm)))
            except Exception:   # noqa
                pass
    # spectral measures use a symmetric solver with a random start vector:
    # unique only on connected, genuinely undirected networks
    conn = _connected(A.astype(int)) and not bool(obj.directed) and \
        bool((A == A.T).all())
    nd = D.DRIVERS["Network"]
    viol, excl = [], {}
    ev = 0
    for q in D.discover(Network, deny=nd.deny):
        meth = q[0]
        if getattr(cls, meth, None) is not getattr(Network, meth, None):
            excl["overridden by the subclass: not inherited"] = \
                excl.get("overridden by the subclass: not inherited", 0) + 1
            continue
        if meth in SPECTRAL and not conn:
            r = "spectral measure on a disconnected / directed network"
            excl[r] = excl.get(r, 0) + 1
            continue
        g = outcome(drv.call, obj, q)
        e = outcome(drv.call, plain, q)
        ev += 1
        if same_outcome(g, e, **drv.tol):
            continue
        kind = "raises" if (g[0] == "exc" and e[0] != "exc") else "value"
        viol.append(V(
            "%s.%s:inherited!=Network:%s%s" % (drv.name, D.qpattern(q), kind,
                                               tag),
            "%s on a %s object differs from the plain Network with the same "
            "adjacency, weights and link attributes" % (D.qlabel(q),
                                                       drv.name),
            brief(g), brief(e)))
    ev += _intermediate_bases(drv, obj, A, tag, viol, excl)
    return {"viol": viol, "evals": ev, "excluded": excl,
            "sig": (dname, mi, ev, tag), "trivial": False}
