"""Inheritance family of C03: a measure that a subclass of Network INHERITS
(does not override) must report, on an instance of the subclass, what the
plain Network with the same adjacency, direction, node weights and link
attributes reports.  The definitions themselves are judged on Network by the
other families of C03; this family carries them over to Spatial-, Geo-,
Climate-, Recurrence-, Visibility-, Interacting-, Resistive- ... network
objects, where overridden helpers (`global_efficiency`, `sp_A`, `graph`,
`node_weights` ...) could silently change an inherited measure.

case = [driver name, model index, tier]
"""
import numpy as np

from . import drivers as D
from .core import V
from .compare import same_outcome, brief, outcome

SPECTRAL = ("eigenvector_centrality", "nsi_eigenvector_centrality",
            "msf_synchronizability", "pagerank")


def network_drivers():
    from pyunicorn.core import Network
    out = []
    for dname, drv in D.DRIVERS.items():
        try:
            cls = drv.cls()
        except Exception:   # noqa
            continue
        if isinstance(cls, type) and issubclass(cls, Network) and \
                cls is not Network:
            out.append(dname)
    return out


def cases(tier):
    return [[dname, mi, tier] for dname in network_drivers()
            for mi in range(len(D.DRIVERS[dname].models(tier)))]


def _connected(A):
    n = len(A)
    if n == 0:
        return True
    U = ((A + A.T) > 0)
    seen, todo = {0}, [0]
    while todo:
        i = todo.pop()
        for j in np.nonzero(U[i])[0]:
            if int(j) not in seen:
                seen.add(int(j))
                todo.append(int(j))
    return len(seen) == n


def fam_inherit(case):
    from pyunicorn.core import Network
    dname, mi, tier = case
    drv = D.DRIVERS[dname]
    model = drv.models(tier)[mi]
    cls = drv.cls()
    obj = drv.construct(model)
    A = np.asarray(obj.adjacency)
    plain = Network(adjacency=A.copy(), directed=bool(obj.directed),
                    node_weights=np.asarray(obj.node_weights,
                                            dtype=float).copy(),
                    silence_level=3)
    if obj.n_links:
        for nm in obj.graph.es.attributes():
            try:
                plain.set_link_attribute(nm, np.asarray(
                    obj.link_attribute(nm)))
            except Exception:   # noqa
                pass
    # spectral measures use a symmetric solver with a random start vector:
    # unique only on connected, genuinely undirected networks
    conn = _connected(A.astype(int)) and not bool(obj.directed) and \
        bool((A == A.T).all())
    nd = D.DRIVERS["Network"]
    viol, excl = [], {}
    ev = 0
    for q in D.discover(Network, deny=nd.deny):
        meth = q[0]
        if getattr(cls, meth, None) is not getattr(Network, meth, None):
            excl["overridden by the subclass: not inherited"] = \
                excl.get("overridden by the subclass: not inherited", 0) + 1
            continue
        if meth in SPECTRAL and not conn:
            r = "spectral measure on a disconnected / directed network"
            excl[r] = excl.get(r, 0) + 1
            continue
        g = outcome(drv.call, obj, q)
        e = outcome(drv.call, plain, q)
        ev += 1
        if same_outcome(g, e, **drv.tol):
            continue
        kind = "raises" if (g[0] == "exc" and e[0] != "exc") else "value"
        viol.append(V(
            "%s.%s:inherited!=Network:%s" % (drv.name, D.qpattern(q), kind),
            "%s on a %s object differs from the plain Network with the same "
            "adjacency, weights and link attributes" % (D.qlabel(q),
                                                       drv.name),
            brief(g), brief(e)))
    return {"viol": viol, "evals": ev, "excluded": excl,
            "sig": (dname, mi, ev), "trivial": False}
