"""Rebuild pyunicorn from /repo's *current working tree* into a scratch mirror.

Nothing inside /repo is written.  The mirror is keyed by a hash of every source
file, the compiled extensions by a hash of the files that influence them, so a
pure-Python edit costs an rsync (0.1 s) and a .pyx/.c edit one build_ext
(about 20-40 s).  See DESIGN.md section 5.
"""
import fcntl
import hashlib
import os
import shutil
import subprocess
import sys
import time

REPO = os.environ.get("VERIF_REPO", "/repo")
ROOT = os.environ.get("VERIF_BUILD_ROOT", "/var/tmp/pyunicorn-verif")
PY = "/venv/bin/python"
PKGS = ["climate", "core", "funcnet", "timeseries"]
TOP = ["setup.py", "setup.cfg", "pyproject.toml", "MANIFEST.in", "README.rst"]
ASAN_CFLAGS = ("-O1 -g -fno-omit-frame-pointer -fsanitize=address,undefined "
               "-fno-sanitize-recover=undefined")


def _src_files():
    out = []
    base = os.path.join(REPO, "src")
    for d, dirs, files in os.walk(base):
        dirs[:] = sorted(x for x in dirs if x != "__pycache__")
        for f in sorted(files):
            if f.endswith((".py", ".pyx", ".pxd", ".pxi", ".h")) or \
                    f == "src_numerics.c":
                out.append(os.path.join(d, f))
    for f in TOP:
        p = os.path.join(REPO, f)
        if os.path.exists(p):
            out.append(p)
    return out


def _is_ext_input(path):
    return ("/_ext/" in path and not path.endswith("__init__.py")) or \
        path.endswith(("setup.py", "setup.cfg", "pyproject.toml"))


def hashes():
    ht, he = hashlib.sha256(), hashlib.sha256()
    for p in _src_files():
        with open(p, "rb") as fh:
            data = fh.read()
        rec = os.path.relpath(p, REPO).encode() + b"\0" + data + b"\0"
        ht.update(rec)
        if _is_ext_input(p):
            he.update(rec)
    return ht.hexdigest()[:16], he.hexdigest()[:16]


def _so_name(pkg):
    return os.path.join("src", "pyunicorn", pkg, "_ext",
                        "numerics.cpython-312-x86_64-linux-gnu.so")


def _prune(d, keep):
    if not os.path.isdir(d):
        return
    ents = sorted((os.path.getmtime(os.path.join(d, e)), e)
                  for e in os.listdir(d))
    now = time.time()
    for mt, e in ents[:-keep] if len(ents) > keep else []:
        if now - mt > 3 * 3600:     # never remove a tree that may be in use
            shutil.rmtree(os.path.join(d, e), ignore_errors=True)


def ensure(asan=False, verbose=True):
    """Return the path of a `src` directory mirroring /repo's working tree
    with freshly built extensions."""
    th, eh = hashes()
    tag = "-asan" if asan else ""
    tree = os.path.join(ROOT, "trees", th + tag)
    ready = os.path.join(tree, "READY")
    if os.path.exists(ready):
        os.utime(tree)
        return os.path.join(tree, "src")
    os.makedirs(os.path.join(ROOT, "trees"), exist_ok=True)
    os.makedirs(os.path.join(ROOT, "so"), exist_ok=True)
    with open(os.path.join(ROOT, "lock"), "w") as lock:
        fcntl.flock(lock, fcntl.LOCK_EX)
        if os.path.exists(ready):
            return os.path.join(tree, "src")
        t0 = time.time()
        tmp = tree + ".tmp%d" % os.getpid()
        shutil.rmtree(tmp, ignore_errors=True)
        os.makedirs(tmp)
        srcs = [os.path.join(REPO, "src")] + [
            os.path.join(REPO, f) for f in TOP
            if os.path.exists(os.path.join(REPO, f))]
        subprocess.run(
            ["rsync", "-a", "--exclude=*.so", "--exclude=__pycache__",
             "--exclude=/src/pyunicorn/*/_ext/numerics.c",
             "--exclude=*.egg-info"] + srcs + [tmp + "/"], check=True)
        socache = os.path.join(ROOT, "so", eh + tag)
        if all(os.path.exists(os.path.join(socache, p + ".so"))
               for p in PKGS):
            for p in PKGS:
                shutil.copy2(os.path.join(socache, p + ".so"),
                             os.path.join(tmp, _so_name(p)))
            os.utime(socache)
            how = "extensions from cache"
        else:
            env = dict(os.environ)
            env.pop("LD_PRELOAD", None)
            if asan:
                env["CFLAGS"] = ASAN_CFLAGS
                env["LDFLAGS"] = "-fsanitize=address,undefined"
            r = subprocess.run(
                [PY, "setup.py", "build_ext", "--inplace", "-j4"], cwd=tmp,
                env=env, stdout=subprocess.PIPE, stderr=subprocess.STDOUT,
                text=True)
            if r.returncode != 0:
                sys.stderr.write(r.stdout[-6000:])
                shutil.rmtree(tmp, ignore_errors=True)
                sys.stderr.write("BUILD FAILED (check is broken, not a "
                                 "verdict): build_ext exit %d\n"
                                 % r.returncode)
                raise SystemExit(2)
            os.makedirs(socache, exist_ok=True)
            for p in PKGS:
                shutil.copy2(os.path.join(tmp, _so_name(p)),
                             os.path.join(socache, p + ".so"))
            shutil.rmtree(os.path.join(tmp, "build"), ignore_errors=True)
            how = "extensions rebuilt"
        shutil.rmtree(tree, ignore_errors=True)
        os.rename(tmp, tree)
        open(ready, "w").write("%s %s\n" % (th, eh))
        _prune(os.path.join(ROOT, "trees"), 3)
        _prune(os.path.join(ROOT, "so"), 4)
        if verbose:
            sys.stderr.write("[build] tree %s%s ready (%s, %.1fs)\n"
                             % (th, tag, how, time.time() - t0))
    return os.path.join(tree, "src")


def asan_env():
    """Environment additions needed to load an instrumented extension into the
    non-instrumented interpreter."""
    def lib(n):
        return subprocess.run(["gcc", "-print-file-name=" + n],
                              stdout=subprocess.PIPE, text=True,
                              check=True).stdout.strip()
    return {
        "LD_PRELOAD": lib("libasan.so") + " " + lib("libubsan.so") + " "
        + lib("libstdc++.so.6"),
        "ASAN_OPTIONS": "detect_leaks=0:halt_on_error=1:exitcode=77:"
                        "abort_on_error=0:allocator_may_return_null=1",
        "UBSAN_OPTIONS": "halt_on_error=1:exitcode=77:print_stacktrace=1",
    }


if __name__ == "__main__":
    print(ensure(asan="--asan" in sys.argv))
