"""In-process MPI world for C19: the unmodified `pyunicorn/utils/mpi.py` is
executed once per rank against a fake `mpi4py` whose COMM_WORLD is an endpoint
of an in-memory network with FIFO channels per (source, dest) pair.  Payloads
are pickled.  Master and slaves run in real threads under a cooperative
scheduler: every send/recv is a scheduling point and the scheduler's decision
is a choice point of mc.choice (option 0 = keep running the current thread if
it is enabled, else the enabled thread with the lowest rank).

Semantics modelled: buffered (eager) sends, blocking receives, per-pair FIFO.
`recv(source=ANY_SOURCE)` is supported (the scheduler chooses the message).
"""
import importlib.util
import os
import pickle
import sys
import threading
import types

ANY_SOURCE = -1


class Deadlock(Exception):
    pass


class World:
    def __init__(self, size, cr):
        self.size = size
        self.cr = cr                      # mc.choice.ChoiceRun
        self.chan = {(s, d): [] for s in range(size) for d in range(size)}
        self.baton = [threading.Semaphore(0) for _ in range(size)]
        self.ctl = threading.Semaphore(0)
        self.state = ["new"] * size       # new|ready|recv|done|error
        self.want = [None] * size         # pending recv source
        self.exc = [None] * size
        self.current = None
        self.steps = 0
        self.log = []
        self.aborted = False

    # -- called from rank threads ----------------------------------------
    def _yield(self, rank):
        """Hand control to the scheduler and wait to be resumed."""
        self.ctl.release()
        self.baton[rank].acquire()
        if self.aborted:
            raise SystemExit

    def send(self, rank, obj, dest):
        data = pickle.dumps(obj, protocol=pickle.HIGHEST_PROTOCOL)
        self.state[rank] = "ready"
        self._yield(rank)                 # scheduling point before the send
        self.chan[(rank, dest)].append(data)
        self.log.append(("send", rank, dest))

    def recv(self, rank, source):
        self.state[rank] = "recv"
        self.want[rank] = source
        self._yield(rank)                 # resumed only when a message exists
        if source == ANY_SOURCE:
            src = self._pick_source(rank)
        else:
            src = source
        data = self.chan[(src, rank)].pop(0)
        self.state[rank] = "ready"
        self.log.append(("recv", rank, src))
        return pickle.loads(data)

    def _pick_source(self, rank):
        srcs = [s for s in range(self.size) if self.chan[(s, rank)]]
        c = self.cr.choose(len(srcs), "any_source")
        return srcs[c]

    # -- scheduler ---------------------------------------------------------
    def enabled(self, r):
        st = self.state[r]
        if st == "ready":
            return True
        if st == "recv":
            src = self.want[r]
            if src == ANY_SOURCE:
                return any(self.chan[(s, r)] for s in range(self.size))
            return bool(self.chan[(src, r)])
        return False

    def run(self, bodies):
        """bodies[r] is a callable run in the thread of rank r; the world is
        finished when rank 0's body returns.  Returns rank 0's result."""
        result = [None]

        def wrap(r):
            def f():
                self.baton[r].acquire()
                if self.aborted:
                    return
                try:
                    out = bodies[r]()
                    if r == 0:
                        result[0] = out
                    self.state[r] = "done"
                except SystemExit:
                    self.state[r] = "done"
                except BaseException as e:   # noqa
                    self.exc[r] = e
                    self.state[r] = "error"
                self.ctl.release()
            return f
        threads = [threading.Thread(target=wrap(r), daemon=True)
                   for r in range(self.size)]
        for r in range(self.size):
            self.state[r] = "ready"
        for t in threads:
            t.start()
        self.current = 0
        try:
            while self.state[0] not in ("done", "error"):
                if any(st == "error" for st in self.state):
                    break
                en = [r for r in range(self.size) if self.enabled(r)]
                if not en:
                    raise Deadlock("no enabled rank; states=%s want=%s" % (
                        self.state, self.want))
                # canonical order: the running thread first, then by rank
                order = ([self.current] if self.current in en else []) + \
                    [r for r in en if r != self.current]
                c = self.cr.choose(len(order), "sched")
                nxt = order[c]
                self.current = nxt
                self.steps += 1
                self.baton[nxt].release()
                self.ctl.acquire()
        finally:
            # let every thread run to its end
            self.aborted = True
            for r in range(self.size):
                self.baton[r].release()
            for t in threads:
                t.join(timeout=5)
        for r in range(self.size):
            if self.exc[r] is not None:
                raise self.exc[r]
        return result[0]


class Endpoint:
    """What `MPI.COMM_WORLD` looks like from one rank."""

    def __init__(self, world_ref, rank, size):
        self._w = world_ref     # list holding the current World
        self.rank = rank
        self.size = size

    def send(self, obj, dest):
        self._w[0].send(self.rank, obj, dest)

    def recv(self, source=ANY_SOURCE):
        return self._w[0].recv(self.rank, source)

    def Abort(self):
        raise SystemExit("MPI abort on rank %d" % self.rank)

    def Get_rank(self):
        return self.rank

    def Get_size(self):
        return self.size


def load_rank_modules(size, world_ref):
    """Execute the library's utils/mpi.py once per rank."""
    import pyunicorn.utils.mpi as real
    path = real.__file__
    mods = []
    saved = sys.modules.get("mpi4py")
    try:
        for r in range(size):
            fake = types.ModuleType("mpi4py")
            fake.MPI = types.SimpleNamespace(
                COMM_WORLD=Endpoint(world_ref, r, size),
                ANY_SOURCE=ANY_SOURCE)
            sys.modules["mpi4py"] = fake
            sys.modules["mpi4py.MPI"] = fake.MPI
            spec = importlib.util.spec_from_file_location(
                "pyunicorn_utils_mpi_rank%d" % r, path)
            m = importlib.util.module_from_spec(spec)
            spec.loader.exec_module(m)
            mods.append(m)
    finally:
        sys.modules.pop("mpi4py.MPI", None)
        if saved is None:
            sys.modules.pop("mpi4py", None)
        else:
            sys.modules["mpi4py"] = saved
    return mods


def run_distributed(size, cr, master_fn):
    """Run master_fn() (which calls a Network method) as rank 0 with size-1
    serving slaves, under choice run `cr`.  Returns master_fn's result."""
    import pyunicorn.core.network as netmod
    world_ref = [None]
    mods = load_rank_modules(size, world_ref)
    world = World(size, cr)
    world_ref[0] = world
    assert mods[0].available and mods[0].am_master
    orig = netmod.mpi
    netmod.mpi = mods[0]
    try:
        bodies = [master_fn] + [mods[r].serve for r in range(1, size)]
        out = world.run(bodies)
    finally:
        netmod.mpi = orig
    return out, world
