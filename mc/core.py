"""Explorer core: deterministic parallel enumeration of case families on the
real implementation, violation bookkeeping, known findings, replay files and
evidence.  See DESIGN.md sections 2, 4 and 6.

A *family* is a module-level function ``fam(case) -> dict`` of a check module,
registered in its ``FAMILIES`` dict.  ``case`` is JSON-serialisable and fully
determines the execution (that is what makes a replay file possible).  The
returned dict may contain

  viol      list of {key, msg, observed, expected}  (property violated)
  sig       hashable signature of the observed behaviour (distinct outcomes)
  trivial   True if the case is trivial by the family's stated rule
  evals     number of elementary evaluations (default 1)
  excluded  {reason: count}  parts of the case outside the property's domain
  stats     {name: number}   summed into the evidence
  states / transitions       for history/schedule families
"""
import hashlib
import json
import multiprocessing as mp
import os
import subprocess
import sys
import time
import traceback

VERIF = os.path.dirname(os.path.dirname(os.path.abspath(__file__)))
KNOWN_FILE = os.path.join(VERIF, "known_findings.txt")


def jobs():
    return int(os.environ.get("VERIF_JOBS", "0")) or min(16, os.cpu_count())


# ---------------------------------------------------------------------------
# worker side

_MOD = None


def _init_worker(modname, quiet):
    global _MOD
    import importlib
    _MOD = importlib.import_module(modname)
    from . import forms, inherit
    forms.install(_MOD)
    inherit.install(_MOD)
    if quiet:
        devnull = os.open(os.devnull, os.O_WRONLY)
        os.dup2(devnull, 1)
    init = getattr(_MOD, "worker_init", None)
    if init:
        init()


def _run_chunk(arg):
    fam, idx_cases = arg
    f = _MOD.FAMILIES[fam]
    out = []
    for idx, case in idx_cases:
        try:
            r = f(case) or {}
            if not isinstance(r, dict):
                raise TypeError("family %s returned %r" % (fam, type(r)))
        except BaseException:   # harness error, never a verdict
            r = {"error": traceback.format_exc()}
        out.append((idx, r))
    return out


def jsonable(x):
    import numpy as np
    if isinstance(x, dict):
        return {str(k): jsonable(v) for k, v in x.items()}
    if isinstance(x, (list, tuple, set, frozenset)):
        return [jsonable(v) for v in x]
    if isinstance(x, np.ndarray):
        return jsonable(x.tolist())
    if isinstance(x, (np.integer,)):
        return int(x)
    if isinstance(x, (np.floating,)):
        x = float(x)
    if isinstance(x, (np.bool_,)):
        return bool(x)
    if isinstance(x, float):
        if x != x:
            return "nan"
        if x in (float("inf"), float("-inf")):
            return "inf" if x > 0 else "-inf"
        return x
    if isinstance(x, complex):
        return [x.real, x.imag]
    if isinstance(x, (str, int, bool)) or x is None:
        return x
    return repr(x)[:300]


def short(x, n=400):
    s = json.dumps(jsonable(x)) if not isinstance(x, str) else x
    return s if len(s) <= n else s[:n] + "...(%d chars)" % len(s)


# ---------------------------------------------------------------------------
# known findings


class Known:
    def __init__(self, path=KNOWN_FILE):
        self.known = {}   # (prop, key) -> description
        self.fixed = []
        if not os.path.exists(path):
            return
        for line in open(path):
            line = line.strip()
            if not line or line.startswith("#"):
                continue
            if line.startswith("known:"):
                head, _, desc = line[6:].partition("::")
                f = dict(t.split("=", 1) for t in head.split() if "=" in t)
                self.known[(f["property"], f["key"])] = desc.strip()
            elif line.startswith("fixed:"):
                self.fixed.append(line)

    def lookup(self, prop, key):
        return self.known.get((prop, key))


# ---------------------------------------------------------------------------


class Ctx:
    def __init__(self, prop, level, modname, tier, seed):
        self.prop, self.level, self.modname = prop, level, modname
        self.tier, self.seed = tier, seed
        self.t0 = time.time()
        self.evals = 0
        self.sigs = set()
        self.nontrivial_cases = 0
        self.samples = []
        self.fam = {}
        self.excluded = {}
        self.stats = {}
        self.viol = {}       # key -> record
        self.viol_count = {}
        self.errors = []
        self.states = 0
        self.transitions = 0
        self.traces = 0
        self.notes = {}
        self.exhaustive = True
        self.rule = ""
        self.assumptions = []
        self._pool = None

    # -- exploration ------------------------------------------------------
    def pool(self):
        if self._pool is None:
            quiet = os.environ.get("VERIF_VERBOSE", "") == ""
            self._pool = mp.get_context("fork").Pool(
                jobs(), _init_worker, (self.modname, quiet))
        return self._pool

    def selftest_same(self, same, what):
        """Determinism self-test of a check: the same case evaluated twice in
        this process must give the same observation.  A difference is not a
        harness error - the library itself may have become non-deterministic
        (e.g. a memo keyed by a re-used object address); the exploration goes
        on, every violation it reports is still confirmed in fresh processes,
        and the difference is recorded in the evidence."""
        if not same:
            self.notes.setdefault("selftest_not_reproducible", []).append(
                str(what)[:200])
            sys.stderr.write("note: %s gave two different observations in "
                             "one process\n" % (str(what)[:200],))

    def explore(self, fam, cases, chunk=None, nsamples=2, desc=None):
        """Run family `fam` on every case (a list); deterministic order of
        aggregation regardless of scheduling."""
        cases = list(cases)
        n = len(cases)
        if n == 0:
            return []
        t0 = time.time()
        if chunk is None:
            chunk = max(1, min(64, n // (jobs() * 8) or 1))
        chunks = [(fam, [(i, cases[i]) for i in range(a, min(n, a + chunk))])
                  for a in range(0, n, chunk)]
        results = [None] * n
        if jobs() == 1 or n == 1:
            global _MOD
            if _MOD is None:
                _init_worker(self.modname, False)
            it = map(_run_chunk, chunks)
        else:
            it = self._watched(self.pool().imap_unordered(_run_chunk,
                                                          chunks), fam)
        for part in it:
            for idx, r in part:
                results[idx] = r
        st = self.fam.setdefault(fam, {"cases": 0, "evals": 0, "viol": 0,
                                       "wall_s": 0.0, "desc": desc or ""})
        taken = 0
        for idx, r in enumerate(results):
            case = cases[idx]
            if "error" in r:
                self.errors.append({"family": fam, "case": jsonable(case),
                                    "trace": r["error"]})
                continue
            ev = int(r.get("evals", 1))
            self.evals += ev
            st["cases"] += 1
            st["evals"] += ev
            if not r.get("trivial", False):
                self.nontrivial_cases += 1
                sig = r.get("sig")
                if sig is None:
                    sig = short(case, 10**6)
                self.sigs.add(hashlib.sha1(
                    (fam + "|" + str(sig)).encode()).digest()[:10])
            for k, v in (r.get("excluded") or {}).items():
                self.excluded[k] = self.excluded.get(k, 0) + v
            for k, v in (r.get("stats") or {}).items():
                self.stats[k] = self.stats.get(k, 0) + v
            self.states += int(r.get("states", 0))
            self.transitions += int(r.get("transitions", 0))
            self.traces += int(r.get("traces", 0))
            for v in r.get("viol") or []:
                key = v["key"]
                st["viol"] += 1
                self.viol_count[key] = self.viol_count.get(key, 0) + 1
                if key not in self.viol:
                    self.viol[key] = {
                        "property": self.prop, "key": key, "family": fam,
                        "case": jsonable(case), "msg": v.get("msg", ""),
                        "observed": jsonable(v.get("observed")),
                        "expected": jsonable(v.get("expected"))}
            if taken < nsamples and not r.get("trivial", False):
                taken += 1
                self.samples.append({"family": fam, "case": jsonable(case),
                                     "observed": short(r.get("sig", ""), 200)})
        st["wall_s"] = round(st["wall_s"] + time.time() - t0, 2)
        sys.stderr.write("[%s] %-28s %7d cases %6.1fs viol=%d\n" % (
            self.prop, fam, n, time.time() - t0, st["viol"]))
        return results

    def _watched(self, it, fam):
        """multiprocessing.Pool silently drops the chunk of a worker that
        dies (segmentation fault, abort after heap corruption) and then waits
        for it for ever; a dead-locked worker does the same.  Neither is an
        observation this harness can attribute to a case, so both end the
        check as a harness failure (exit 2) instead of hanging."""
        stall = float(os.environ.get("VERIF_STALL_S", "3600"))
        pids = sorted(p.pid for p in self._pool._pool)
        last = time.time()
        while True:
            try:
                part = it.next(timeout=20)
            except StopIteration:
                return
            except mp.TimeoutError:
                now = sorted(p.pid for p in self._pool._pool)
                why = None
                if now != pids:
                    why = ("a worker process died (the library crashed the "
                           "interpreter)")
                elif time.time() - last > stall:
                    why = "no worker finished a chunk for %d s" % stall
                if why:
                    self._pool.terminate()
                    self._pool = None
                    raise RuntimeError("%s while exploring family %s" %
                                       (why, fam))
                continue
            last = time.time()
            yield part

    def close(self):
        if self._pool is not None:
            self._pool.close()
            self._pool.join()
            self._pool = None

    # -- reporting --------------------------------------------------------
    def finish(self):
        self.close()
        known = Known()
        new, old = [], []
        for key in self.viol:
            (old if known.lookup(self.prop, key) is not None else new
             ).append(key)
        rc = 0
        if self.errors:
            rc = 2
            for e in self.errors[:3]:
                sys.stderr.write("HARNESS ERROR family=%s case=%s\n%s\n" % (
                    e["family"], short(e["case"]), e["trace"]))
            sys.stderr.write("%d harness errors: this check is broken for "
                             "those cases (no verdict)\n" % len(self.errors))
        for key in old:
            if os.environ.get("VERIF_WRITE_FINDINGS"):
                os.makedirs(os.path.join(VERIF, "findings"), exist_ok=True)
                h = hashlib.sha1(key.encode()).hexdigest()[:10]
                with open(os.path.join(VERIF, "findings", "%s-%s.json" % (
                        self.prop, h)), "w") as fh:
                    json.dump(self.viol[key], fh, indent=1)
            print("KNOWN-FINDING: property=%s %s (%d cases) :: %s" % (
                self.prop, key, self.viol_count[key],
                known.lookup(self.prop, key)))
        observed = set(old)
        for (p, key), desc in known.known.items():
            if p == self.prop and key not in observed:
                sys.stderr.write("note: known finding not observed in this "
                                 "run (%s tier): %s\n" % (self.tier, key))
        confirmed = 0
        os.makedirs(os.path.join(VERIF, "replays"), exist_ok=True)
        for i, key in enumerate(new):
            rec = self.viol[key]
            h = hashlib.sha1(key.encode()).hexdigest()[:10]
            path = os.path.join(VERIF, "replays", "%s-%s.json" % (self.prop, h))
            with open(path, "w") as fh:
                json.dump(rec, fh, indent=1)
            ok = None
            if i < 6 and os.environ.get("VERIF_NO_CONFIRM", "") == "":
                ok = confirm(self.prop, path)
            if ok is False:
                print("UNCONFIRMED property=%s key=%s replay=%s (did not "
                      "reproduce in a fresh process; not reported)" % (
                          self.prop, key, path))
                rec["confirmed"] = False
                continue
            confirmed += 1
            rec["confirmed"] = ok
            if confirmed > 30:
                if confirmed == 31:
                    print("... %d further new violation keys; replay files "
                          "written, lines suppressed" % (len(new) - 30))
                continue
            print("VIOLATION property=%s replay=%s key=%s cases=%d :: %s" % (
                self.prop, path, key, self.viol_count[key],
                short(rec["msg"], 300)))
            print("    witness: %s" % short(rec["case"], 300))
            print("    observed: %s" % short(rec["observed"], 200))
            print("    expected: %s" % short(rec["expected"], 200))
        if confirmed and rc == 0:
            rc = 1
        elif confirmed:
            rc = 1
        self.write_evidence(len(new), old)
        wall = time.time() - self.t0
        print("%s tier=%s evaluations=%d distinct_nontrivial=%d states=%d "
              "transitions=%d new_violations=%d known=%d errors=%d wall=%.1fs"
              % (self.prop, self.tier, self.evals, len(self.sigs), self.states,
                 self.transitions, confirmed, len(old), len(self.errors),
                 wall))
        return rc

    def write_evidence(self, nviol, known_keys):
        cov = {
            "evaluations": self.evals,
            "distinct_nontrivial": len(self.sigs),
            "nontrivial_cases": self.nontrivial_cases,
            "rule": self.rule,
            "samples": self.samples[:12] or [{"none": True}],
            "exhaustive": bool(self.exhaustive),
            "families": self.fam,
            "excluded": self.excluded,
            "stats": self.stats,
            "known_findings_observed": {k: self.viol_count[k]
                                        for k in known_keys},
            "bounds": self.notes,
        }
        if self.level == "model_checking":
            cov["states"] = self.states
            cov["transitions"] = self.transitions
            cov["traces_validated_against_impl"] = self.traces
        ev = {
            "property_id": self.prop, "tier": self.tier, "seed": self.seed,
            "level": self.level, "coverage": cov,
            "assumptions": self.assumptions,
            "wall_s": round(time.time() - self.t0, 2),
            "violations": nviol,
        }
        os.makedirs(os.path.join(VERIF, "evidence"), exist_ok=True)
        path = os.path.join(VERIF, "evidence", self.prop + ".json")
        with open(path, "w") as fh:
            json.dump(jsonable(ev), fh, indent=1)
        validate_evidence(path)


def validate_evidence(path):
    schema = "/root/.vp/EVIDENCE.schema.json"
    if not (os.path.exists(schema) and
            os.path.exists("/opt/veriftools/pyvenv/bin/python")):
        return
    code = ("import json,sys,jsonschema;"
            "jsonschema.validate(json.load(open(sys.argv[1])),"
            "json.load(open(sys.argv[2])))")
    env = {k: v for k, v in os.environ.items()
           if k not in ("PYTHONPATH", "LD_PRELOAD")}
    r = subprocess.run(["/opt/veriftools/pyvenv/bin/python", "-c", code,
                        path, schema], env=env, stdout=subprocess.PIPE,
                       stderr=subprocess.STDOUT, text=True)
    if r.returncode != 0:
        sys.stderr.write("EVIDENCE INVALID: %s\n%s\n" % (path, r.stdout[-2000:]))
        raise SystemExit(2)


def confirm(prop, path, tries=3):
    """Replay a violation record in a fresh process; True iff it reproduces."""
    for _ in range(tries):
        r = subprocess.run([os.path.join(VERIF, "check"), prop, "--replay",
                            path, "--quiet"], stdout=subprocess.PIPE,
                           stderr=subprocess.STDOUT, text=True)
        if r.returncode == 1:
            return True
        if r.returncode not in (0, 1):
            sys.stderr.write("replay of %s failed with exit %d:\n%s\n" % (
                path, r.returncode, r.stdout[-1500:]))
    return False


def replay(mod, path, quiet=False):
    rec = json.load(open(path))
    fam = mod.FAMILIES[rec["family"]]
    init = getattr(mod, "worker_init", None)
    if init:
        init()
    r = fam(rec["case"]) or {}
    keys = [v["key"] for v in r.get("viol") or []]
    hit = [v for v in r.get("viol") or [] if v["key"] == rec["key"]]
    if not quiet:
        print("replay %s family=%s case=%s" % (path, rec["family"],
                                               short(rec["case"], 600)))
        for v in r.get("viol") or []:
            print("  violation %s :: %s\n    observed=%s\n    expected=%s" % (
                v["key"], v.get("msg", ""), short(v.get("observed"), 300),
                short(v.get("expected"), 300)))
    if hit:
        print("VIOLATION property=%s replay=%s key=%s (reproduced)" % (
            rec["property"], path, rec["key"]))
        return 1
    print("replay: key %s not reproduced (violations seen: %s)" % (
        rec["key"], keys))
    return 0


def V(key, msg="", observed=None, expected=None):
    return {"key": key, "msg": msg, "observed": jsonable(observed),
            "expected": jsonable(expected)}
