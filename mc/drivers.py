"""Class drivers for the history explorations of C01 (cache coherence) and C06
(purity): for each memoising class of pyunicorn

  * a JSON reference-model state holding the *primary inputs*,
  * `construct(model)`  -> a fresh real object (the twin oracle builds the
    model reached by a history this way),
  * public mutators with small argument menus and the reference-model update
    each one means by its documentation,
  * the public queries (discovered by introspection: every public method
    callable without required arguments, plus argument patterns).

See DESIGN.md section 7/C01 and 7/C06.
"""
import inspect
import random as _pyrandom

import numpy as np

from .compare import norm

# --------------------------------------------------------------------------
# query discovery

DENY = {
    "cache_clear", "save", "save_for_cgv", "set_silence_level",
    "clear_cache", "plot", "print_data_info", "hamming_distance_from",
    "test_threshold_significance", "original_distribution",
    # mutators are never queries
    "set_edge_list", "set_link_attribute", "set_node_attribute",
    "del_link_attribute", "del_node_attribute", "randomly_rewire",
    "randomly_rewire_geomodel_I", "randomly_rewire_geomodel_II",
    "randomly_rewire_geomodel_III", "set_random_links_by_distance",
    "set_node_weight_type", "update_resistances", "update_R",
    "update_admittance", "set_threshold", "set_link_density", "set_non_local",
    "set_winter_only", "set_max_delay", "set_directed", "set_window",
    "set_global_window", "set_fixed_threshold", "set_fixed_threshold_std",
    "set_fixed_recurrence_rate", "set_fixed_local_recurrence_rate",
    "set_adaptive_neighborhood_size", "normalize_original_data",
    "clear_cache", "calculate_similarity_measure",
    "set_fixed_threshold_local", "node_attribute", "find_link_attribute",
}

# values for parameters without default (None -> method skipped)
REQUIRED = {
    "attribute_name": ["w"],
    "order": [3, 4, 5],
    "metric": ["manhattan", "euclidean", "supremum"],
    "n_bins": [3],
    "M": [5],
    "permutation": ["REVERSE"],
    "link_density": [0.5],
    "n_iterations": [2],
    "selected_months": [[0]],
    "selected_phases": [[0]],
    "sequence": ["NODESEQ"],
    "a": [0], "b": [2], "i": [1],
    "node": [1], "node1": [0], "node2": [2],
    "node_list": ["G1"], "node_list1": ["G1"], "node_list2": ["G2"],
    "sources": ["G1"], "targets": ["G2"],
}
# extra values tried for parameters that have a default
OPTIONAL = {
    "key": ["w"], "link_attribute": ["w"], "typical_weight": [2.0],
    "l_min": [1], "v_min": [1], "w_min": [2], "lag": [1],
    "normalize": [False], "only_connected": [False], "use_directed": [False],
    "node": [0], "proportion": [0.3], "min_dist": [1],
    "sources": ["G1"], "targets": ["G2"], "nsi": [False],
    "stopping_mode": ["twinness"], "replace_inf_by": [7.0],
    "output": ["true_spectrum"],
}
ATTRS = ["N", "n_links", "link_density", "total_node_weight",
         "mean_node_weight", "@str", "@len"]


def discover(cls, deny=(), only=None):
    """List of query specs [name, args(list), kwargs(dict)] for `cls`."""
    out = []
    for name, m in inspect.getmembers(cls):
        if name.startswith("_") or not callable(m):
            continue
        if name in DENY or name in deny:
            continue
        if only is not None and name not in only:
            continue
        if isinstance(inspect.getattr_static(cls, name),
                      (staticmethod, classmethod)):
            continue
        try:
            sig = inspect.signature(m)
        except (TypeError, ValueError):
            continue
        ps = [p for p in list(sig.parameters.values())[1:]
              if p.kind in (p.POSITIONAL_ONLY, p.POSITIONAL_OR_KEYWORD,
                            p.KEYWORD_ONLY)]
        req = [p for p in ps if p.default is p.empty]
        opt = [p for p in ps if p.default is not p.empty]
        if any(p.name not in REQUIRED for p in req):
            continue
        # base calls: first required value each; then one variation at a time
        base = {p.name: REQUIRED[p.name][0] for p in req}
        calls = [dict(base)]
        for p in req:
            for v in REQUIRED[p.name][1:]:
                d = dict(base)
                d[p.name] = v
                calls.append(d)
        allopt = {}
        for p in opt:
            for v in OPTIONAL.get(p.name, []):
                d = dict(base)
                d[p.name] = v
                calls.append(d)
                allopt.setdefault(p.name, v)
        if len(allopt) > 1:
            d = dict(base)
            d.update(allopt)
            calls.append(d)
        for kw in calls:
            out.append([name, [], kw])
    return out


def qlabel(q):
    name, args, kw = q
    inner = ",".join([repr(a) for a in args] +
                     ["%s=%r" % (k, v) for k, v in sorted(kw.items())])
    return "%s(%s)" % (name, inner)


def qpattern(q):
    """Argument pattern without values (for violation keys)."""
    name, args, kw = q
    return "%s[%s]" % (name, ",".join(sorted(kw)))


# --------------------------------------------------------------------------
# result normalisation


def canon_result(x, depth=0):
    """Turn a query result into plain comparable data."""
    x = norm(x)
    if x is None or isinstance(x, (bool, int, float, complex, str)):
        return x
    if isinstance(x, np.ma.MaskedArray):
        x = np.ma.filled(x.astype(float), np.nan) \
            if x.dtype.kind in "fiub" else np.asarray(x)
    if isinstance(x, np.ndarray):
        # a snapshot, not the library's own array: a later call that writes
        # into the same buffer (a shared scratch array, a memoised result
        # edited in place) must not change what was observed here
        return x.copy()
    if isinstance(x, np.generic):
        return x.item()
    if isinstance(x, dict):
        return {str(k): canon_result(v, depth + 1) for k, v in x.items()}
    if isinstance(x, (list, tuple)):
        return [canon_result(v, depth + 1) for v in x]
    if hasattr(x, "sp_A") and hasattr(x, "node_weights"):   # a Network
        return {"__network__": type(x).__name__, "N": x.N,
                "directed": bool(x.directed),
                "A": np.asarray(x.sp_A.toarray()),
                "w": np.asarray(x.node_weights)}
    if hasattr(x, "__iter__") and depth < 3:
        try:
            return [canon_result(v, depth + 1) for v in x]
        except Exception:   # noqa
            pass
    return "<%s>" % type(x).__name__


def seed_all(s=12345):
    np.random.seed(s)
    _pyrandom.seed(s)


# --------------------------------------------------------------------------


#  (input name, form) applied by Driver.arr - see mc/forms.py
FORM = None
#  verbosity handed to every constructor (the `silence0` form of mc/forms.py
#  sets it to 0: results must not depend on what is printed)
SILENCE = 3


class Driver:
    """Base class; subclasses fill in the class-specific parts."""
    name = "?"
    tol = dict(rtol=1e-7, atol=1e-9)
    deny = ()
    extra_queries = ()
    groups = ([0, 1, 2], [3, 4, 5])

    def cls(self):
        raise NotImplementedError

    def arr(self, name, value, dtype=None):
        """Create a caller-side array and remember it (C06 snapshots the
        very objects that were handed to the library)."""
        a = np.array(value, dtype=dtype) if dtype else np.array(value)
        if not hasattr(self, "last_inputs"):
            self.last_inputs = {}
        self.last_inputs[name] = a
        if FORM is not None and FORM[0] == name:
            from . import forms
            return forms.convert(a, FORM[1])
        return a

    def models(self, tier):
        raise NotImplementedError

    def construct(self, model):
        raise NotImplementedError

    def mutators(self, model):
        """[(label, spec)] applicable in this model state."""
        raise NotImplementedError

    def apply(self, obj, model, spec):
        """Apply mutator `spec` to obj; return the new model (a new dict), or
        None when the documentation does not say what the mutator means for
        the primary inputs (combination excluded)."""
        raise NotImplementedError

    def caller_arrays(self, model):
        """Arrays handed to the constructor (for C06 snapshots)."""
        return {}

    # -- queries ----------------------------------------------------------
    def queries(self, model):
        qs = discover(self.cls(), deny=self.deny)
        qs += [list(q) for q in self.extra_queries]
        qs += [[a, [], {}] for a in ATTRS if self.has_attr(a)]
        return [q for q in qs if self.admits(model, q)]

    def has_attr(self, a):
        return True

    def admits(self, model, q):
        return True

    def resolve(self, obj, v):
        if v == "G1":
            return list(self.groups[0])
        if v == "G2":
            return list(self.groups[1])
        if v == "REVERSE":
            return list(range(obj.N - 1, -1, -1))
        if v == "NODESEQ":
            return np.arange(obj.N, dtype=float)
        return v

    def call(self, obj, q):
        name, args, kw = q
        seed_all()
        if name == "@str":
            return str(obj)
        if name == "@len":
            return len(obj)
        if not callable(getattr(type(obj), name, None)) and \
                not callable(getattr(obj, name, None)):
            return canon_result(getattr(obj, name))
        kw = {k: self.resolve(obj, v) for k, v in kw.items()}
        return canon_result(getattr(obj, name)(
            *[self.resolve(obj, a) for a in args], **kw))

    def primary_check(self, obj, twin, model, hist):
        """Optional: a single violation (key suffix, msg, observed, expected)
        when a mutator failed to change the primary state at all; the
        per-query comparison is then skipped (one defect, one key)."""
        return None

    def other_model(self, model, tier="quick"):
        """A second, different input of the same shape (same link count where
        there is an adjacency) for the two-object family of C06."""
        if isinstance(model, dict) and model.get("A") is not None:
            A = np.array(model["A"])
            n = len(A)
            perm = [(i + 1) % n for i in range(n)]
            m = dict(model)
            m["A"] = A[np.ix_(perm, perm)].tolist()
            return m
        return self.models(tier)[-1]

    def clear_caches(self, obj):
        try:
            obj.cache_clear()
        except Exception:   # noqa
            pass


# --------------------------------------------------------------------------
# fixtures

A6 = [[0, 0, 0, 1, 1, 1], [0, 0, 1, 1, 1, 0], [0, 1, 0, 0, 1, 0],
      [1, 1, 0, 0, 0, 0], [1, 1, 1, 0, 0, 0], [1, 0, 0, 0, 0, 0]]
A6_PATHISH = [[0, 1, 0, 0, 0, 0], [1, 0, 1, 0, 0, 1], [0, 1, 0, 1, 1, 0],
              [0, 0, 1, 0, 1, 0], [0, 0, 1, 1, 0, 1], [0, 1, 0, 0, 1, 0]]
A6_DISC = [[0, 1, 1, 0, 0, 0], [1, 0, 1, 0, 0, 0], [1, 1, 0, 0, 0, 0],
           [0, 0, 0, 0, 1, 0], [0, 0, 0, 1, 0, 0], [0, 0, 0, 0, 0, 0]]
A6_DENSE = [[0, 1, 1, 1, 0, 1], [1, 0, 1, 0, 1, 1], [1, 1, 0, 1, 1, 0],
            [1, 0, 1, 0, 1, 1], [0, 1, 1, 1, 0, 1], [1, 1, 0, 1, 1, 0]]
D6 = [[0, 1, 0, 0, 0, 1], [0, 0, 1, 0, 0, 0], [0, 1, 0, 1, 0, 0],
      [1, 0, 0, 0, 1, 0], [0, 0, 1, 0, 0, 1], [1, 0, 0, 0, 0, 0]]
D6_B = [[0, 1, 1, 0, 0, 0], [0, 0, 1, 1, 0, 0], [1, 0, 0, 0, 1, 0],
        [0, 0, 0, 0, 1, 1], [0, 1, 0, 0, 0, 1], [1, 0, 0, 1, 0, 0]]
W6 = [1.5, 1.7, 1.9, 2.1, 2.3, 2.5]
W6_B = [0.5, 3.0, 1.0, 1.0, 2.0, 0.25]


def la_matrix(A, variant):
    A = np.asarray(A)
    n = len(A)
    vals = [0.5, 1.0, 2.0, 1.5, 0.25, 3.0]
    W = np.zeros((n, n))
    for i in range(n):
        for j in range(n):
            if A[i, j]:
                a, b = (min(i, j), max(i, j))
                W[i, j] = vals[(a * 3 + b * 5 + variant * 2) % len(vals)]
    return W


# --------------------------------------------------------------------------


class NetworkDriver(Driver):
    name = "Network"
    directed_fixture = False

    def cls(self):
        from pyunicorn.core import Network
        return Network

    def adj_menu(self, model):
        if model["directed"]:
            return [D6, D6_B, (np.array(A6) | np.array(D6)).tolist()]
        return [A6, A6_PATHISH, A6_DISC, A6_DENSE]

    def models(self, tier):
        ms = [{"A": A6_PATHISH, "directed": False, "w": W6, "la": {}},
              {"A": D6, "directed": True, "w": W6, "la": {}}]
        ms.append({"A": A6_DISC, "directed": False, "w": None,
                   "la": {"w": 0}})
        return ms

    def construct(self, model):
        net = self.cls()(adjacency=self.arr("adjacency", model["A"]),
                         directed=model["directed"],
                         node_weights=None if model["w"] is None else
                         self.arr("node_weights", model["w"], float),
                         silence_level=SILENCE)
        self.restore_la(net, model)
        return net

    def restore_la(self, net, model):
        if model["la"] is None:
            return
        for k, variant in sorted(model["la"].items()):
            net.set_link_attribute(k, la_matrix(model["A"], variant))

    def mutators(self, model):
        ms = []
        for i, A in enumerate(self.adj_menu(model)):
            if A != model["A"]:
                ms.append(("adjacency=#%d" % i, ["adjacency", i]))
        ms.append(("set_edge_list#0", ["edge_list", 0]))
        for i, w in enumerate((W6, W6_B, None)):
            if w != model["w"]:
                ms.append(("node_weights=#%d" % i, ["node_weights", i]))
        for v in (0, 1):
            ms.append(("set_link_attribute(w,#%d)" % v, ["set_la", v]))
        if model["la"] and "w" in model["la"]:
            ms.append(("del_link_attribute(w)", ["del_la"]))
        ms.append(("randomly_rewire(2)", ["rewire", 2]))
        return ms

    def apply(self, obj, model, spec):
        m = dict(model)
        m["la"] = None if model["la"] is None else dict(model["la"])
        kind = spec[0]
        if kind == "adjacency":
            A = self.adj_menu(model)[spec[1]]
            obj.adjacency = np.array(A)
            m["A"] = A
            m["la"] = {}     # the embedded graph is rebuilt without attributes
        elif kind == "edge_list":
            A = np.array(self.adj_menu(model)[spec[1]])
            if model["directed"]:
                el = [[i, j] for i in range(len(A)) for j in range(len(A))
                      if A[i, j]]
            else:
                el = [[i, j] for i in range(len(A)) for j in range(i + 1,
                                                                   len(A))
                      if A[i, j]]
            obj.set_edge_list(el, n_nodes=len(A))
            m["A"] = A.tolist()
            m["la"] = {}
        elif kind == "node_weights":
            w = (W6, W6_B, None)[spec[1]]
            obj.node_weights = w
            m["w"] = w
        elif kind == "set_la":
            if model["la"] is None:
                return None
            obj.set_link_attribute("w", la_matrix(model["A"], spec[1]))
            m["la"]["w"] = spec[1]
        elif kind == "del_la":
            obj.del_link_attribute("w")
            m["la"].pop("w", None)
        elif kind == "rewire":
            seed_all(777)
            obj.randomly_rewire(spec[1])
            if obj.N != len(model["A"]):
                return None   # node count changed: C17's business
            # the rewired adjacency is a primary input read back from the
            # object; what happens to link attributes is not documented
            m["A"] = np.asarray(obj.sp_A.toarray()).astype(int).tolist()
            m["la"] = None
        else:
            raise ValueError(spec)
        return m

    def admits(self, model, q):
        name, args, kw = q
        uses_la = "w" in list(kw.values()) or "w" in args
        if uses_la and (model["la"] is None):
            return False     # attributes after a rewiring: undocumented
        if name in ("eigenvector_centrality", "nsi_eigenvector_centrality",
                    "msf_synchronizability"):
            # ARPACK: arbitrary vector in a degenerate eigenspace
            from .domains import is_connected
            if not is_connected(np.array(model["A"])) or model["directed"]:
                return False
        return True

    def caller_arrays(self, model):
        return {"adjacency": np.array(model["A"]),
                "node_weights": None if model["w"] is None
                else np.array(model["w"], dtype=float)}


DRIVERS = {}


def register(d):
    DRIVERS[d.name] = d
    return d


register(NetworkDriver())


# --------------------------------------------------------------------------
# InteractingNetworks: Network mutators + group queries (REQUIRED supplies
# node_list/node_list1/node_list2 = G1/G2)


class InteractingDriver(NetworkDriver):
    name = "InteractingNetworks"

    def cls(self):
        from pyunicorn.core import InteractingNetworks
        return InteractingNetworks

    def models(self, tier):
        return [{"A": A6, "directed": False, "w": W6, "la": {}},
                # two components and an isolated node: unreachable pairs
                {"A": A6_DISC, "directed": False, "w": W6, "la": {}}]

    def mutators(self, model):
        # the Network mutators are explored on Network itself; here the
        # group-taking queries are held against the core mutators
        ms = [m for m in NetworkDriver.mutators(self, model)
              if m[1][0] in ("adjacency", "node_weights", "set_la")]
        return ms

    def queries(self, model):
        base = set(qlabel(q) for q in discover(NetworkDriver().cls()))
        qs = [q for q in Driver.queries(self, model)
              if qlabel(q) not in base or q[0] in ("degree", "path_lengths")]
        return qs


register(InteractingDriver())


# --------------------------------------------------------------------------
# SpatialNetwork / GeoNetwork

LAT6 = [0, 5, 10, 15, 20, 25]
LON6 = [2.5, 5., 7.5, 10., 12.5, 15.]


#  C06 `ctor`: called with (kind, object) for every data object (grid,
#  ClimateData) that a driver builds and hands to a library constructor
OBJ_HOOK = None


def _supplied(kind, obj):
    if OBJ_HOOK is not None:
        OBJ_HOOK(kind, obj)
    return obj


def geo_grid(n=6):
    from pyunicorn.core import GeoGrid
    return _supplied("GeoGrid", GeoGrid(
        time_seq=np.arange(10), lat_seq=np.array(LAT6[:n], float),
        lon_seq=np.array(LON6[:n], float), silence_level=SILENCE))


def plain_grid(n=6):
    from pyunicorn.core import Grid
    return _supplied("Grid", Grid(
        time_seq=np.arange(10),
        space_seq=np.array([LAT6[:n], LON6[:n]], dtype=float),
        silence_level=SILENCE))


class SpatialDriver(NetworkDriver):
    name = "SpatialNetwork"

    def cls(self):
        from pyunicorn.core import SpatialNetwork
        return SpatialNetwork

    def models(self, tier):
        return [{"A": A6, "directed": False, "w": None, "la": {}},
                {"A": A6_DISC, "directed": False, "w": None, "la": {}}]

    def construct(self, model):
        net = self.cls()(grid=plain_grid(),
                         adjacency=self.arr("adjacency", model["A"]),
                         directed=model["directed"], silence_level=SILENCE)
        if model["w"] is not None:
            net.node_weights = model["w"]
        self.restore_la(net, model)
        return net

    def mutators(self, model):
        ms = [m for m in NetworkDriver.mutators(self, model)
              if m[1][0] in ("adjacency", "node_weights", "rewire")]
        ms += [("randomly_rewire_geomodel_I", ["geo", "I"]),
               ("randomly_rewire_geomodel_II", ["geo", "II"]),
               ("set_random_links_by_distance", ["randlinks"])]
        return ms

    def apply(self, obj, model, spec):
        if spec[0] == "geo":
            m = dict(model)
            seed_all(4242)
            D = obj.grid.distance() if hasattr(obj.grid, "distance") \
                else obj.grid.angular_distance()
            getattr(obj, "randomly_rewire_geomodel_" + spec[1])(
                distance_matrix=D, iterations=3, inaccuracy=1e9)
            if obj.N != len(model["A"]):
                return None
            m["A"] = np.asarray(obj.sp_A.toarray()).astype(int).tolist()
            m["la"] = None
            return m
        if spec[0] == "randlinks":
            m = dict(model)
            seed_all(4243)
            obj.set_random_links_by_distance(a=0., b=-0.04)
            if obj.N != len(model["A"]):
                return None
            m["A"] = np.asarray(obj.sp_A.toarray()).astype(int).tolist()
            m["la"] = None
            return m
        m = NetworkDriver.apply(self, obj, model, spec)
        if m is not None and obj.N != len(m["A"]):
            return None
        return m

    def queries(self, model):
        base = set(qlabel(q) for q in discover(NetworkDriver().cls()))
        keep = ("degree", "path_lengths", "nsi_degree", "closeness")
        return [q for q in Driver.queries(self, model)
                if qlabel(q) not in base or q[0] in keep]


register(SpatialDriver())


class GeoDriver(SpatialDriver):
    name = "GeoNetwork"

    def cls(self):
        from pyunicorn.core import GeoNetwork
        return GeoNetwork

    def models(self, tier):
        return [{"A": A6, "directed": False, "w": None, "la": {},
                 "nwt": "surface"},
                # isolated node, several components
                {"A": A6_DISC, "directed": False, "w": None, "la": {},
                 "nwt": "surface"}]

    def construct(self, model):
        net = self.cls()(grid=geo_grid(),
                         adjacency=self.arr("adjacency", model["A"]),
                         directed=model["directed"],
                         node_weight_type=model["nwt"], silence_level=SILENCE)
        if model["w"] is not None:
            net.node_weights = model["w"]
        self.restore_la(net, model)
        return net

    def mutators(self, model):
        ms = [m for m in SpatialDriver.mutators(self, model)
              if m[1][0] in ("adjacency", "geo")][:3]
        for t in ("surface", "irrigation", None):
            if t != model["nwt"] or model["w"] is not None:
                ms.append(("set_node_weight_type(%s)" % t, ["nwt", t]))
        ms.append(("node_weights=#1", ["node_weights", 1]))
        return ms

    def apply(self, obj, model, spec):
        if spec[0] == "nwt":
            m = dict(model)
            obj.set_node_weight_type(spec[1])
            m["nwt"] = spec[1]
            m["w"] = None
            return m
        return SpatialDriver.apply(self, obj, model, spec)

    def queries(self, model):
        base = set(qlabel(q) for q in discover(NetworkDriver().cls()))
        keep = ("degree", "nsi_degree", "nsi_closeness",
                "nsi_local_clustering", "nsi_average_path_length")
        qs = [q for q in Driver.queries(self, model)
              if qlabel(q) not in base or q[0] in keep]
        qs.append(["node_weights", [], {}])
        return qs


register(GeoDriver())


# --------------------------------------------------------------------------
# ResNetwork

RES_A = [[0, 1, 0, 0, 0], [1, 0, 1, 1, 0], [0, 1, 0, 1, 0],
         [0, 1, 1, 0, 1], [0, 0, 0, 1, 0]]
RES_R = [
    [[0, 2, 0, 0, 0], [2, 0, 8, 2, 0], [0, 8, 0, 8, 0], [0, 2, 8, 0, 10],
     [0, 0, 0, 10, 0]],
    [[0, 1, 0, 0, 0], [1, 0, 1, 1, 0], [0, 1, 0, 1, 0], [0, 1, 1, 0, 1],
     [0, 0, 0, 1, 0]],
    [[0, 4, 0, 0, 0], [4, 0, 0.5, 2, 0], [0, 0.5, 0, 1, 0], [0, 2, 1, 0, 3],
     [0, 0, 0, 3, 0]],
]


class ResDriver(Driver):
    name = "ResNetwork"
    groups = ([0, 1], [2, 3, 4])

    def cls(self):
        from pyunicorn.core import ResNetwork
        return ResNetwork

    def models(self, tier):
        return [{"R": 0}]

    def construct(self, model):
        from pyunicorn.core import GeoGrid
        n = len(RES_A)
        grid = _supplied("GeoGrid", GeoGrid(
            time_seq=np.arange(10),
            lat_seq=np.absolute(np.linspace(-90, 90, n)),
            lon_seq=np.linspace(-180, 180, n), silence_level=SILENCE))
        return self.cls()(self.arr("resistances", RES_R[model["R"]], float),
                          grid=grid,
                          adjacency=self.arr("adjacency", RES_A, "int8"),
                          silence_level=SILENCE)

    def mutators(self, model):
        ms = [("update_resistances(#%d)" % i, ["update_resistances", i])
              for i in range(len(RES_R)) if i != model["R"]]
        # a parameter sweep that edits the caller's own array in place and
        # hands the same object to update_resistances() again
        ms += [("update_resistances(same array, edited in place to #%d)" % i,
                ["update_inplace", i])
               for i in range(len(RES_R)) if i != model["R"]][:1]
        return ms

    def apply(self, obj, model, spec):
        if spec[0] == "update_inplace":
            r = self.last_inputs.get("resistances")
            if r is None or r is not obj.resistances:
                r = np.array(obj.resistances, dtype=float)
                obj.update_resistances(r)
            r[...] = np.array(RES_R[spec[1]], dtype=float)
            obj.update_resistances(r)
            return {"R": spec[1]}
        obj.update_resistances(np.array(RES_R[spec[1]], dtype=float))
        return {"R": spec[1]}

    def queries(self, model):
        base = set(qlabel(q) for q in discover(GeoDriver().cls()))
        qs = [q for q in Driver.queries(self, model)
              if qlabel(q) not in base]
        return qs


register(ResDriver())


# --------------------------------------------------------------------------
# ClimateNetwork (similarity matrix given) and TsonisClimateNetwork

SIM6 = [[1.0, 0.25, 0.25, 0.75, 0.75, 0.75],
        [0.25, 1.0, 0.75, 0.5, 0.875, 0.25],
        [0.25, 0.75, 1.0, 0.0625, 0.5625, 0.0625],
        [0.75, 0.5, 0.0625, 1.0, 0.03125, 0.125],
        [0.75, 0.875, 0.5625, 0.03125, 1.0, 0.0625],
        [0.75, 0.25, 0.0625, 0.125, 0.0625, 1.0]]
CLIM_T = [0.5, 0.3, 0.7]
CLIM_RHO = [0.4, 0.8]


def _thr(model):
    if model.get("rho") is not None:
        return dict(threshold=None, link_density=model["rho"])
    return dict(threshold=model["t"])


class ClimateDriver(Driver):
    name = "ClimateNetwork"

    def cls(self):
        from pyunicorn.climate import ClimateNetwork
        return ClimateNetwork

    def models(self, tier):
        return [{"t": 0.5, "non_local": False, "directed": False},
                # caller's matrix already in the library's storage dtype,
                # with negative similarities
                {"t": 0.5, "non_local": False, "directed": False,
                 "sim": "f32neg"},
                # local links suppressed from the start
                {"t": 0.5, "non_local": True, "directed": False}]

    def similarity(self, model):
        if model.get("sim") == "f32neg":
            S = np.array(SIM6)
            sign = np.where((np.add.outer(np.arange(6), np.arange(6)) % 3)
                            == 1, -1.0, 1.0)
            np.fill_diagonal(sign, 1.0)
            return self.arr("similarity", S * sign, "float32")
        return self.arr("similarity", SIM6)

    def construct(self, model):
        return self.cls()(grid=geo_grid(),
                          similarity_measure=self.similarity(model),
                          non_local=model["non_local"], **_thr(model),
                          directed=model["directed"],
                          node_weight_type="surface", silence_level=SILENCE)

    def mutators(self, model):
        ms = [("set_threshold(%g)" % t, ["set_threshold", t])
              for t in CLIM_T if t != model["t"]]
        ms += [("set_link_density(%g)" % r, ["set_link_density", r])
               for r in CLIM_RHO]
        ms.append(("set_non_local(%s)" % (not model["non_local"]),
                   ["set_non_local", not model["non_local"]]))
        return ms

    def apply(self, obj, model, spec):
        m = dict(model)
        if spec[0] == "set_threshold":
            obj.set_threshold(spec[1])
            m["t"] = spec[1]
        elif spec[0] == "set_link_density":
            obj.set_link_density(spec[1])
            # current input = the threshold a FRESH object with the same
            # settings derives for this density (not the one read back from
            # the object, which may come from stale intermediate state);
            # that it is the right quantile is property C09
            m["t"] = float(self.construct(
                dict(model, rho=spec[1])).threshold())
        elif spec[0] == "set_non_local":
            obj.set_non_local(spec[1])
            m["non_local"] = spec[1]
        return m

    def queries(self, model):
        base = set(qlabel(q) for q in discover(GeoDriver().cls()))
        keep = ("degree", "nsi_degree", "path_lengths", "betweenness",
                "local_clustering", "closeness", "adjacency",
                "area_weighted_connectivity", "average_link_distance",
                "transitivity", "link_betweenness")
        qs = [q for q in Driver.queries(self, model)
              if qlabel(q) not in base or q[0] in keep]
        qs.append(["adjacency", [], {}])
        return qs


register(ClimateDriver())


def climate_data(anomalies=False, window=None, T=10, time_cycle=5,
                 rec=None, second_layer=False):
    from pyunicorn.climate import ClimateData
    N = 6
    t = np.arange(T)[:, None]
    obs = (np.sin(2 * np.pi * t / 5. + np.arange(N)[None, :] * 0.7)
           + 0.1 * ((t * 7 + np.arange(N)[None, :] * 3) % 5))
    from pyunicorn.core import GeoGrid
    grid = GeoGrid(time_seq=np.arange(T), lat_seq=np.array(LAT6, float),
                   lon_seq=np.array(LON6, float), silence_level=SILENCE)
    obs = obs.astype(float)
    if second_layer:
        obs = obs[:, ::-1] * 0.7 + 0.1
    if FORM is not None and FORM[0] == "observable":
        from . import forms
        obs = forms.convert(obs, FORM[1])
    if rec is not None:
        rec["observable"] = obs
    return _supplied("ClimateData", ClimateData(
        observable=obs, grid=grid, time_cycle=time_cycle,
        anomalies=anomalies, window=window, silence_level=SILENCE))


class TsonisDriver(ClimateDriver):
    name = "TsonisClimateNetwork"
    max_depth = 3
    min_depth = 3

    def cls(self):
        from pyunicorn.climate import TsonisClimateNetwork
        return TsonisClimateNetwork

    def models(self, tier):
        return [{"t": 0.5, "non_local": False, "winter_only": False}]

    def construct(self, model):
        return self.cls()(climate_data(T=36, time_cycle=12),
                          **_thr(model),
                          non_local=model["non_local"],
                          winter_only=model["winter_only"], silence_level=SILENCE)

    def mutators(self, model):
        ms = [("set_threshold(%g)" % t, ["set_threshold", t])
              for t in (0.3, 0.7) if t != model["t"]]
        ms.append(("set_link_density(0.6)", ["set_link_density", 0.6]))
        ms.append(("set_winter_only(%s)" % (not model["winter_only"]),
                   ["set_winter_only", not model["winter_only"]]))
        return ms

    def apply(self, obj, model, spec):
        if spec[0] == "set_winter_only":
            m = dict(model)
            obj.set_winter_only(spec[1])
            m["winter_only"] = spec[1]
            return m
        return ClimateDriver.apply(self, obj, model, spec)

    def queries(self, model):
        base = set(qlabel(q) for q in discover(ClimateDriver().cls()))
        keep = ("degree", "adjacency", "similarity_measure", "threshold",
                "correlation_distance", "n_links")
        qs = [q for q in Driver.queries(self, model)
              if qlabel(q) not in base or q[0] in keep]
        qs.append(["adjacency", [], {}])
        return qs


register(TsonisDriver())


# --------------------------------------------------------------------------
# RecurrencePlot family

TS_A = [0.0, 0.5, 1.5, 1.0, 2.0, 0.5, 0.25, 1.25, 1.75, 0.75]
TS_B = [1.0, 0.25, 0.5, 2.0, 1.5, 1.75, 0.0, 0.5, 1.0, 1.25]
RP_SETTERS = [
    ("set_fixed_threshold", 0.6), ("set_fixed_threshold", 1.1),
    ("set_fixed_threshold_std", 1.0), ("set_fixed_recurrence_rate", 0.3),
    ("set_fixed_recurrence_rate", 0.6),
    ("set_fixed_local_recurrence_rate", 0.4),
    ("set_adaptive_neighborhood_size", 3),
]
RP_KW = {"set_fixed_threshold": "threshold",
         "set_fixed_threshold_std": "threshold_std",
         "set_fixed_recurrence_rate": "recurrence_rate",
         "set_fixed_local_recurrence_rate": "local_recurrence_rate",
         "set_adaptive_neighborhood_size": "adaptive_neighborhood_size"}


class RPDriver(Driver):
    name = "RecurrencePlot"
    setters = RP_SETTERS
    deny = ("twins", "twin_surrogates", "legendre_coordinates")

    def cls(self):
        from pyunicorn.timeseries import RecurrencePlot
        return RecurrencePlot

    def models(self, tier):
        return [{"how": ["set_fixed_threshold", 0.6], "emb": [2, 1],
                 "metric": "supremum"},
                # sequential RQA (no recurrence matrix kept)
                {"how": ["set_fixed_threshold", 0.6], "emb": [2, 1],
                 "metric": "supremum", "sparse": True},
                # normalised copy of the caller's series
                {"how": ["set_fixed_threshold", 0.6], "emb": [2, 1],
                 "metric": "supremum", "normalize": True}]

    def ctor_args(self, model):
        return (self.arr("time_series", TS_A, float),)

    def construct(self, model):
        kw = {RP_KW[model["how"][0]]: model["how"][1]}
        if model["emb"]:
            kw.update(dim=model["emb"][0], tau=model["emb"][1])
        if model.get("sparse"):
            kw["sparse_rqa"] = True
        if model.get("normalize"):
            kw["normalize"] = True
        return self.cls()(*self.ctor_args(model), metric=model["metric"],
                          silence_level=SILENCE, **kw)

    def mutators(self, model):
        setters = self.setters
        if model.get("sparse"):
            # sequential mode is defined for fixed thresholds only
            setters = [s for s in setters if s[0] == "set_fixed_threshold"]
        ms = [("%s(%g)" % s, [s[0], s[1]]) for s in setters
              if [s[0], s[1]] != model["how"]]
        if model.get("sparse"):
            return ms
        if self.embedding_mutator:
            for e in ([2, 1], [3, 1], [2, 2]):
                if e != model["emb"]:
                    ms.append(("embedding=%s;re-threshold" % (e,),
                               ["emb", e]))
            # the documented `metric` attribute, completed like an embedding
            # change by re-applying the current threshold rule
            for mt_ in ("supremum", "euclidean", "manhattan"):
                if mt_ != model["metric"]:
                    ms.append(("metric=%s;re-threshold" % mt_,
                               ["metric", mt_]))
        return ms
    embedding_mutator = True

    def apply(self, obj, model, spec):
        m = dict(model)
        if spec[0].startswith("set_"):
            getattr(obj, spec[0])(spec[1])
            m["how"] = [spec[0], spec[1]]
        elif spec[0] == "metric":
            obj.metric = spec[1]
            getattr(obj, model["how"][0])(model["how"][1])
            m["metric"] = spec[1]
        elif spec[0] == "emb":
            # a change of embedding is completed by re-applying the current
            # threshold rule (R is documented as set by the set_* methods)
            obj.embedding = type(obj).embed_time_series(
                obj.time_series, spec[1][0], spec[1][1])
            obj.dim, obj.tau = spec[1]
            getattr(obj, model["how"][0])(model["how"][1])
            m["emb"] = spec[1]
        return m

    def has_attr(self, a):
        return a in ("N", "@str")

    def queries(self, model):
        qs = Driver.queries(self, model)
        qs.append(["R", [], {}])
        return [q for q in qs if self.admits(model, q)]

    def admits(self, model, q):
        # the memory-saving mode promises no stored recurrence matrix
        if model.get("sparse") and q[0] in ("R", "recurrence_matrix"):
            return False
        return True


register(RPDriver())


class RNDriver(RPDriver):
    name = "RecurrenceNetwork"

    def models(self, tier):
        return RPDriver.models(self, tier)[:1]

    def cls(self):
        from pyunicorn.timeseries import RecurrenceNetwork
        return RecurrenceNetwork

    def has_attr(self, a):
        return True

    def queries(self, model):
        rp = set(qlabel(q) for q in discover(RPDriver().cls()))
        net = set(qlabel(q) for q in discover(NetworkDriver().cls()))
        keep = ("degree", "path_lengths", "betweenness", "local_clustering",
                "transitivity", "closeness", "nsi_degree", "recurrence_rate",
                "diagline_dist", "vertline_dist", "determinism",
                "average_path_length", "edge_list", "laplacian")
        qs = [q for q in Driver.queries(self, model)
              if (qlabel(q) not in rp and qlabel(q) not in net)
              or q[0] in keep]
        qs += [["R", [], {}], ["adjacency", [], {}]]
        return qs

    def admits(self, model, q):
        if q[0] in ("eigenvector_centrality", "nsi_eigenvector_centrality",
                    "msf_synchronizability"):
            return False
        return True


register(RNDriver())


class CRPDriver(RPDriver):
    name = "CrossRecurrencePlot"
    setters = [("set_fixed_threshold", 0.6), ("set_fixed_threshold", 1.1),
               ("set_fixed_recurrence_rate", 0.3),
               ("set_fixed_recurrence_rate", 0.6)]
    embedding_mutator = False

    def cls(self):
        from pyunicorn.timeseries import CrossRecurrencePlot
        return CrossRecurrencePlot

    def models(self, tier):
        return RPDriver.models(self, tier)[:1]

    def ctor_args(self, model):
        return (self.arr("x", TS_A), self.arr("y", TS_B[:8]))

    def has_attr(self, a):
        return a in ("N", "M", "@str")

    def queries(self, model):
        qs = Driver.queries(self, model)
        qs += [["CR", [], {}], ["M", [], {}]]
        return qs


register(CRPDriver())


class JRPDriver(RPDriver):
    name = "JointRecurrencePlot"
    embedding_mutator = False
    setters = [("set_fixed_threshold", [0.6, 0.8]),
               ("set_fixed_threshold", [1.1, 0.5]),
               ("set_fixed_threshold_std", [1.0, 0.8]),
               ("set_fixed_recurrence_rate", [0.3, 0.5]),
               ("set_fixed_recurrence_rate", [0.6, 0.6])]

    def cls(self):
        from pyunicorn.timeseries import JointRecurrencePlot
        return JointRecurrencePlot

    def models(self, tier):
        return [{"how": ["set_fixed_threshold", [0.6, 0.8]],
                 "emb": [[2, 2], [1, 1]],
                 "metric": ["supremum", "supremum"]}]

    def ctor_args(self, model):
        return (self.arr("x", TS_A), self.arr("y", TS_B))

    def construct(self, model):
        kw = {RP_KW[model["how"][0]]: tuple(model["how"][1])}
        if model["emb"]:
            kw.update(dim=tuple(model["emb"][0]), tau=tuple(model["emb"][1]))
        return self.cls()(*self.ctor_args(model),
                          metric=tuple(model["metric"]),
                          silence_level=SILENCE, **kw)

    def mutators(self, model):
        return [("%s(%s)" % s, [s[0], s[1]]) for s in self.setters
                if [s[0], s[1]] != model["how"]]

    def apply(self, obj, model, spec):
        m = dict(model)
        getattr(obj, spec[0])(tuple(spec[1]))
        m["how"] = [spec[0], spec[1]]
        return m

    def queries(self, model):
        qs = Driver.queries(self, model)
        qs += [["JR", [], {}]]
        return qs


register(JRPDriver())


class JRNDriver(JRPDriver):
    name = "JointRecurrenceNetwork"

    def cls(self):
        from pyunicorn.timeseries import JointRecurrenceNetwork
        return JointRecurrenceNetwork

    def has_attr(self, a):
        return True

    def queries(self, model):
        return [q for q in RNDriver.queries(self, model)
                if q[0] != "R"] + [["JR", [], {}]]

    def admits(self, model, q):
        return RNDriver.admits(self, model, q)


register(JRNDriver())


class ISRNDriver(RPDriver):
    name = "InterSystemRecurrenceNetwork"
    embedding_mutator = False
    setters = [("set_fixed_threshold", [0.6, 0.8, 0.7]),
               ("set_fixed_threshold", [1.1, 0.5, 0.9]),
               ("set_fixed_recurrence_rate", [0.3, 0.5, 0.4]),
               ("set_fixed_recurrence_rate", [0.6, 0.6, 0.2])]

    def cls(self):
        from pyunicorn.timeseries import InterSystemRecurrenceNetwork
        return InterSystemRecurrenceNetwork

    def models(self, tier):
        return [{"how": ["set_fixed_threshold", [0.6, 0.8, 0.7]],
                 "emb": None, "metric": "supremum"}]

    def ctor_args(self, model):
        return (self.arr("x", TS_A[:6]), self.arr("y", TS_B[:5]))

    def construct(self, model):
        kw = {RP_KW[model["how"][0]]: tuple(model["how"][1])}
        return self.cls()(*self.ctor_args(model), metric=model["metric"],
                          silence_level=SILENCE, **kw)

    def mutators(self, model):
        return [("%s(%s)" % s, [s[0], s[1]]) for s in self.setters
                if [s[0], s[1]] != model["how"]]

    def apply(self, obj, model, spec):
        m = dict(model)
        getattr(obj, spec[0])(tuple(spec[1]))
        m["how"] = [spec[0], spec[1]]
        return m

    def has_attr(self, a):
        return True

    groups = ([0, 1, 2, 3, 4, 5], [6, 7, 8, 9, 10])

    def queries(self, model):
        inet = set(qlabel(q) for q in discover(InteractingDriver().cls()))
        keep = ("degree", "path_lengths", "cross_degree", "internal_degree",
                "cross_link_density", "cross_adjacency", "closeness",
                "local_clustering", "betweenness")
        qs = [q for q in Driver.queries(self, model)
              if qlabel(q) not in inet or q[0] in keep]
        qs += [["adjacency", [], {}]]
        return qs

    def admits(self, model, q):
        return RNDriver.admits(self, model, q)

    def primary_check(self, obj, twin, model, hist):
        A = np.asarray(obj.sp_A.toarray())
        B = np.asarray(twin.sp_A.toarray())
        if A.shape != B.shape or not np.array_equal(A, B):
            return ("%s:no-effect-on-network" % hist[-1][0],
                    "the setter returns a matrix but leaves the network's "
                    "adjacency (and every measure) as constructed",
                    A, B)
        return None


register(ISRNDriver())


# --------------------------------------------------------------------------
# VisibilityGraph: Network mutators on a graph built from a series


class VGDriver(NetworkDriver):
    name = "VisibilityGraph"

    def cls(self):
        from pyunicorn.timeseries import VisibilityGraph
        return VisibilityGraph

    def models(self, tier):
        return [{"A": None, "directed": False, "w": None, "la": {}}]

    def construct(self, model):
        vg = self.cls()(self.arr("time_series", TS_A[:6]), silence_level=SILENCE)
        if model["A"] is not None:
            vg.adjacency = np.array(model["A"])
        if model["w"] is not None:
            vg.node_weights = model["w"]
        self.restore_la(vg, model)
        return vg

    def restore_la(self, net, model):
        if model["la"]:
            A = np.asarray(net.sp_A.toarray())
            for k, variant in sorted(model["la"].items()):
                net.set_link_attribute(k, la_matrix(A, variant))

    def mutators(self, model):
        return [("adjacency=#1", ["adjacency", 1]),
                ("adjacency=#3", ["adjacency", 3]),
                ("node_weights=#1", ["node_weights", 1])]

    def apply(self, obj, model, spec):
        if model["A"] is None:
            model = dict(model)
            model["A"] = np.asarray(obj.sp_A.toarray()).astype(int).tolist()
        return NetworkDriver.apply(self, obj, model, spec)

    def admits(self, model, q):
        if q[0] in ("eigenvector_centrality", "nsi_eigenvector_centrality",
                    "msf_synchronizability"):
            return False
        if "w" in list(q[2].values()):
            return False
        return True

    def queries(self, model):
        net = set(qlabel(q) for q in discover(NetworkDriver().cls()))
        keep = ("degree", "betweenness", "closeness", "local_clustering")
        return [q for q in Driver.queries(self, model)
                if qlabel(q) not in net or q[0] in keep]


register(VGDriver())


# --------------------------------------------------------------------------
# Surrogates

SUR_DATA = [[0.0, 1.0, 0.5, 2.0, 1.5, 0.25, 1.75, 0.75, 0.0, 1.0, 0.5, 2.0,
             1.5, 0.25, 1.75, 0.75, 0.25, 1.0, 0.5, 1.75],
            [1.0, 0.5, 2.0, 0.0, 0.25, 1.5, 1.0, 1.25, 1.0, 0.5, 2.0, 0.0,
             0.25, 1.5, 1.0, 1.25, 0.75, 0.5, 2.0, 0.25]]


class SurrogatesDriver(Driver):
    name = "Surrogates"
    deny = ("refined_AAFT_surrogates",)
    extra_queries = (["twins", [], {"threshold": 0.6, "min_dist": 1}],
                     ["twins", [], {"threshold": 1.1, "min_dist": 0}],
                     ["refined_AAFT_surrogates", [], {"n_iterations": 2}],
                     ["embedding", [], {}], ["original_data", [], {}])

    def cls(self):
        from pyunicorn.timeseries import Surrogates
        return Surrogates

    def models(self, tier):
        return [{"emb": None, "normalized": False},
                # embedded from the start (the embedding is derived from the
                # data as the caller supplied them)
                {"emb": [2, 1], "normalized": False}]

    def construct(self, model):
        s = self.cls()(self.arr("original_data", SUR_DATA, float),
                       silence_level=SILENCE)
        if model["normalized"]:
            s.normalize_original_data()
        if model["emb"]:
            s.embedding = self.emb(s, model["emb"])
        return s

    def emb(self, s, e):
        # (index, time, dimension), as twin_surrogates() stores it
        return type(s).embed_time_series_array(s.original_data, e[0], e[1])

    min_depth = 3     # twin_surrogates -> normalise -> twin_surrogates

    def mutators(self, model):
        ms = []
        for e in ([2, 1], [2, 2]):
            if e != model["emb"] or model.get("stale"):
                ms.append(("embedding=%s" % (e,), ["emb", e]))
        # twin_surrogates() (re-)embeds the data as a documented side effect
        for e in ([2, 1], [3, 1]):
            ms.append(("twin_surrogates(dim=%d,tau=%d)" % tuple(e),
                       ["twin_surrogates", e]))
        if not model["normalized"]:
            ms.append(("normalize_original_data", ["normalize"]))
        return ms

    def apply(self, obj, model, spec):
        m = dict(model)
        if spec[0] == "emb":
            obj.embedding = self.emb(obj, spec[1])
            m["emb"] = spec[1]
            m["stale"] = False
        elif spec[0] == "twin_surrogates":
            seed_all(99)
            obj.twin_surrogates(spec[1][0], spec[1][1], 0.6, min_dist=1)
            m["emb"] = spec[1]
            m["stale"] = False
        else:
            obj.normalize_original_data()
            m["normalized"] = True
            if model["emb"]:
                # the stored embedding still belongs to the un-normalised
                # data (undocumented): embedding-dependent queries are not
                # judged until the data are embedded again
                m["stale"] = True
        return m

    def has_attr(self, a):
        return a in ("N", "@str")

    def admits(self, model, q):
        if q[0] == "twins" and not model["emb"]:
            return False
        if model.get("stale") and q[0] in ("twins", "embedding"):
            return False
        return True


register(SurrogatesDriver())


# --------------------------------------------------------------------------
# ClimateData

CD_WINDOWS = [
    {"time_min": 0., "time_max": 0., "lat_min": 0., "lon_min": 0.,
     "lat_max": 0., "lon_max": 0.},
    {"time_min": 2., "time_max": 8., "lat_min": 0., "lon_min": 0.,
     "lat_max": 0., "lon_max": 0.},
    {"time_min": 0., "time_max": 0., "lat_min": 5., "lon_min": 2.5,
     "lat_max": 20., "lon_max": 12.5},
    {"time_min": 1., "time_max": 6., "lat_min": 0., "lon_min": 5.,
     "lat_max": 15., "lon_max": 15.},
]


class ClimateDataDriver(Driver):
    name = "ClimateData"
    min_depth = 3     # window, global window, window again
    deny = ("shuffled_anomaly",)
    extra_queries = (["observable", [], {}], ["window", [], {}],
                     ["shuffled_anomaly", [], {}])

    def cls(self):
        from pyunicorn.climate import ClimateData
        return ClimateData

    def models(self, tier):
        return [{"win": 0, "anomalies": False},
                {"win": 0, "anomalies": True}]

    def construct(self, model):
        w = None if model["win"] == 0 else dict(CD_WINDOWS[model["win"]])
        self.last_inputs = {}
        return climate_data(anomalies=model["anomalies"], window=w,
                            rec=self.last_inputs)

    def mutators(self, model):
        ms = [("set_window(#%d)" % i, ["set_window", i])
              for i in range(1, len(CD_WINDOWS)) if i != model["win"]]
        if model["win"] != 0:
            ms.append(("set_global_window", ["set_global_window"]))
        return ms

    def apply(self, obj, model, spec):
        m = dict(model)
        if spec[0] == "set_window":
            obj.set_window(dict(CD_WINDOWS[spec[1]]))
            m["win"] = spec[1]
        else:
            obj.set_global_window()
            m["win"] = 0
        return m

    def has_attr(self, a):
        return a in ("@str",)

    def queries(self, model):
        qs = Driver.queries(self, model)
        qs += [["grid.lat_sequence", [], {}], ["grid.grid_size", [], {}]]
        return qs

    def call(self, obj, q):
        if q[0].startswith("grid."):
            seed_all()
            return canon_result(getattr(obj.grid, q[0][5:])())
        return Driver.call(self, obj, q)


register(ClimateDataDriver())


# --------------------------------------------------------------------------
# classes without public mutators: used by C06 only


class _QueryOnly(Driver):
    c06_only = True

    def mutators(self, model):
        return []

    def apply(self, obj, model, spec):
        raise ValueError(spec)

    def has_attr(self, a):
        return a in ("@str",)


class CouplingDriver(_QueryOnly):
    name = "CouplingAnalysis"
    extra_queries = (
        ["cross_correlation", [], {"tau_max": 2, "lag_mode": "max"}],
        ["cross_correlation", [], {"tau_max": 2, "lag_mode": "all"}],
        ["mutual_information", [], {"tau_max": 1, "estimator": "binning",
                                    "bins": 3, "lag_mode": "max"}],
        ["mutual_information", [], {"tau_max": 1, "estimator": "gauss",
                                    "lag_mode": "all"}],
        ["mutual_information", [], {"tau_max": 1, "estimator": "knn",
                                    "knn": 3, "lag_mode": "max"}],
        ["information_transfer", [], {"tau_max": 2, "estimator": "gauss",
                                      "lag_mode": "max"}],
        ["information_transfer", [], {"tau_max": 2, "estimator": "knn",
                                      "knn": 3, "lag_mode": "max"}],
    )

    def cls(self):
        from pyunicorn.funcnet import CouplingAnalysis
        return CouplingAnalysis

    def models(self, tier):
        return [{}]

    def construct(self, model):
        t = np.arange(40)[:, None]
        data = (np.sin(0.9 * t + np.arange(4)[None, :])
                + 0.3 * ((t * 7 + np.arange(4)[None, :] * 5) % 11) / 11.)
        return self.cls()(self.arr("data", data, float), silence_level=SILENCE)

    def has_attr(self, a):
        return False


register(CouplingDriver())


class EventSeriesDriver(_QueryOnly):
    name = "EventSeries"
    extra_queries = tuple(
        ["event_series_analysis", [], {"method": m, "symmetrization": sym}]
        for m in ("ES", "ECA")
        for sym in ("directed", "symmetric", "antisym", "mean", "max", "min")
        if not (m == "ECA" and sym in ("symmetric", "antisym"))) + (
        # significance levels: analytic null model and (reseeded) shuffles
        ["event_analysis_significance", [],
         {"method": "ECA", "surrogate": "analytic",
          "window_type": "retarded"}],
        ["event_analysis_significance", [],
         {"method": "ECA", "surrogate": "analytic",
          "window_type": "advanced"}],
        ["event_analysis_significance", [],
         {"method": "ES", "surrogate": "shuffle", "n_surr": 12}],
        ["event_analysis_significance", [],
         {"method": "ECA", "surrogate": "shuffle", "n_surr": 12,
          "symmetrization": "max"}])

    def cls(self):
        from pyunicorn.eventseries import EventSeries
        return EventSeries

    def models(self, tier):
        return [{}]

    def construct(self, model):
        T = 30
        ev = np.zeros((T, 4), dtype=int)
        for t in range(T):
            ev[t, 0] = 1 if t % 4 == 1 else 0
            ev[t, 1] = 1 if (t % 4 == 2 or t % 9 == 0) else 0
            ev[t, 2] = 1 if t % 5 == 0 else 0
            ev[t, 3] = 1 if (t % 7 == 3 or t % 4 == 1) else 0
        # (asymmetric directed ES matrix: the symmetrisations all differ)
        return self.cls()(self.arr("data", ev, int), taumax=3.0,
                          timestamps=self.arr("timestamps",
                                              np.arange(float(T)), float))


register(EventSeriesDriver())


class GeoGridDriver(_QueryOnly):
    name = "GeoGrid"
    deny = ("save_txt", "save", "print_boundaries", "print_grid_size")
    extra_queries = (["region_indices", [], {"region": "REGION"}],)

    def cls(self):
        from pyunicorn.core import GeoGrid
        return GeoGrid

    def models(self, tier):
        return [{}]

    def construct(self, model):
        return self.cls()(time_seq=self.arr("time_seq", np.arange(10.)),
                          lat_seq=self.arr("lat_seq", LAT6, float),
                          lon_seq=self.arr("lon_seq", LON6, float),
                          silence_level=SILENCE)

    def resolve(self, obj, v):
        if v == "REGION":
            # lon, lat, lon, lat, ... with a negative longitude
            return self.arr("region", [-5., -1., 11., -1., 11., 12., -5., 12.],
                            float)
        return Driver.resolve(self, obj, v)

    def has_attr(self, a):
        return a in ("N", "@str")


register(GeoGridDriver())


class GridDriver(_QueryOnly):
    name = "Grid"
    deny = ("save", "print_grid_size")

    def cls(self):
        from pyunicorn.core import Grid
        return Grid

    def models(self, tier):
        return [{}]

    def construct(self, model):
        return self.cls()(time_seq=self.arr("time_seq", np.arange(10.)),
                          space_seq=self.arr("space_seq", [LAT6, LON6],
                                             float), silence_level=SILENCE)

    def has_attr(self, a):
        return a in ("N", "@str")


register(GridDriver())


# --------------------------------------------------------------------------
# further data-derived climate networks (C01: setters vs a fresh twin)


class _DataClimateDriver(ClimateDriver):
    """Shared by the data-derived climate networks: model = constructor
    keyword arguments; the twin is built from a fresh, identical ClimateData."""
    max_depth = 3
    thresholds = (0.3, 0.6)
    density = 0.5
    T, cycle = 36, 12

    def data(self):
        return climate_data(T=self.T, time_cycle=self.cycle)

    def base_model(self):
        return {"t": 0.4, "non_local": False}

    def models(self, tier):
        return [self.base_model()]

    def kwargs(self, model):
        return dict(non_local=model["non_local"], **_thr(model))

    def construct(self, model):
        return self.cls()(self.data(), silence_level=SILENCE, **self.kwargs(model))

    def mutators(self, model):
        ms = [("set_threshold(%g)" % t, ["set_threshold", t])
              for t in self.thresholds if t != model["t"]]
        ms.append(("set_link_density(%g)" % self.density,
                   ["set_link_density", self.density]))
        ms.append(("set_non_local(%s)" % (not model["non_local"]),
                   ["set_non_local", not model["non_local"]]))
        return ms + self.extra_mutators(model)

    def extra_mutators(self, model):
        return []

    def queries(self, model):
        base = set(qlabel(q) for q in discover(ClimateDriver().cls()))
        keep = ("degree", "adjacency", "similarity_measure", "threshold",
                "n_links", "link_density", "nsi_degree", "betweenness",
                "correlation_distance", "local_clustering", "path_lengths")
        qs = [q for q in Driver.queries(self, model)
              if qlabel(q) not in base or q[0] in keep]
        qs.append(["adjacency", [], {}])
        return qs


class SpearmanDriver(_DataClimateDriver):
    name = "SpearmanClimateNetwork"

    def cls(self):
        from pyunicorn.climate import SpearmanClimateNetwork
        return SpearmanClimateNetwork

    def base_model(self):
        return {"t": 0.4, "non_local": False, "winter_only": False}

    def kwargs(self, model):
        return dict(_DataClimateDriver.kwargs(self, model),
                    winter_only=model["winter_only"])

    def extra_mutators(self, model):
        return [("set_winter_only(%s)" % (not model["winter_only"]),
                 ["set_winter_only", not model["winter_only"]])]

    def apply(self, obj, model, spec):
        if spec[0] == "set_winter_only":
            m = dict(model)
            obj.set_winter_only(spec[1])
            m["winter_only"] = spec[1]
            return m
        return ClimateDriver.apply(self, obj, model, spec)


register(SpearmanDriver())


class PartialDriver(SpearmanDriver):
    name = "PartialCorrelationClimateNetwork"

    def cls(self):
        from pyunicorn.climate import PartialCorrelationClimateNetwork
        return PartialCorrelationClimateNetwork


register(PartialDriver())


class MutualInfoDriver(SpearmanDriver):
    name = "MutualInfoClimateNetwork"
    thresholds = (0.2, 0.5)

    def cls(self):
        from pyunicorn.climate import MutualInfoClimateNetwork
        return MutualInfoClimateNetwork

    def construct(self, model):
        import os
        for f in os.listdir("."):
            if f.startswith("mutual_information_"):
                os.unlink(f)
        return SpearmanDriver.construct(self, model)

    def apply(self, obj, model, spec):
        if spec[0] == "set_winter_only":
            m = dict(model)
            # dump=False: the default writes a file into the current
            # directory that later constructions silently read back
            obj.set_winter_only(spec[1], dump=False)
            m["winter_only"] = spec[1]
            return m
        return ClimateDriver.apply(self, obj, model, spec)


register(MutualInfoDriver())


class HavlinDriver(_DataClimateDriver):
    name = "HavlinClimateNetwork"
    thresholds = (1.0, 2.5)

    def cls(self):
        from pyunicorn.climate import HavlinClimateNetwork
        return HavlinClimateNetwork

    def base_model(self):
        return {"t": 1.5, "non_local": False, "max_delay": 3}

    def kwargs(self, model):
        return dict(_DataClimateDriver.kwargs(self, model),
                    max_delay=model["max_delay"])

    def extra_mutators(self, model):
        return [("set_max_delay(%d)" % d, ["set_max_delay", d])
                for d in (2, 5) if d != model["max_delay"]]

    def apply(self, obj, model, spec):
        if spec[0] == "set_max_delay":
            m = dict(model)
            obj.set_max_delay(spec[1])
            m["max_delay"] = spec[1]
            return m
        return ClimateDriver.apply(self, obj, model, spec)


register(HavlinDriver())


class RainfallDriver(_DataClimateDriver):
    name = "RainfallClimateNetwork"
    thresholds = (0.3, 0.6)

    def cls(self):
        from pyunicorn.climate import RainfallClimateNetwork
        return RainfallClimateNetwork

    def base_model(self):
        return {"t": 0.4, "non_local": False}


register(RainfallDriver())


class EventSeriesClimateDriver(_DataClimateDriver):
    """The constructor fixes the threshold at 0: a fresh object in another
    state is the constructor followed by ONE setter call."""
    name = "EventSeriesClimateNetwork"
    thresholds = (0.15, 0.3)
    density = 0.4

    def cls(self):
        from pyunicorn.climate import EventSeriesClimateNetwork
        return EventSeriesClimateNetwork

    def base_model(self):
        return {"t": 0, "non_local": False, "method": "ES", "sym": "mean"}

    def models(self, tier):
        return [self.base_model(),
                {"t": 0, "non_local": False, "method": "ECA",
                 "sym": "directed"}]

    def construct(self, model):
        obj = self.cls()(self.data(), method=model["method"],
                         taumax=4 if model["method"] == "ES" else 1,
                         symmetrization=model["sym"],
                         threshold_method="quantile", threshold_values=0.7,
                         threshold_types="above",
                         non_local=model["non_local"], silence_level=SILENCE)
        if model.get("rho") is not None:
            obj.set_link_density(model["rho"])
        elif model["t"] != 0:
            obj.set_threshold(model["t"])
        return obj


register(EventSeriesClimateDriver())


class HilbertDriver(_DataClimateDriver):
    name = "HilbertClimateNetwork"

    def cls(self):
        from pyunicorn.climate import HilbertClimateNetwork
        return HilbertClimateNetwork

    def base_model(self):
        return {"t": 0.4, "non_local": False, "directed": True}

    def models(self, tier):
        return [self.base_model(),
                {"t": 0.4, "non_local": False, "directed": False}]

    def kwargs(self, model):
        return dict(_DataClimateDriver.kwargs(self, model),
                    directed=model["directed"])

    def extra_mutators(self, model):
        return [("set_directed(%s)" % (not model["directed"]),
                 ["set_directed", not model["directed"]])]

    def apply(self, obj, model, spec):
        if spec[0] == "set_directed":
            m = dict(model)
            obj.set_directed(spec[1])
            m["directed"] = spec[1]
            return m
        return ClimateDriver.apply(self, obj, model, spec)

    def admits(self, model, q):
        if q[0] in ("eigenvector_centrality", "nsi_eigenvector_centrality",
                    "msf_synchronizability"):
            return False
        return True


register(HilbertDriver())


class CoupledTsonisDriver(_DataClimateDriver):
    name = "CoupledTsonisClimateNetwork"
    groups = ([0, 1, 2, 3, 4, 5], [6, 7, 8, 9, 10, 11])

    def cls(self):
        from pyunicorn.climate import CoupledTsonisClimateNetwork
        return CoupledTsonisClimateNetwork

    def construct(self, model):
        d1 = climate_data(T=24, time_cycle=12)
        # the second layer differs from the first
        d2 = climate_data(T=24, time_cycle=12, second_layer=True)
        return self.cls()(d1, d2, silence_level=SILENCE, **self.kwargs(model))

    def queries(self, model):
        base = set(qlabel(q) for q in discover(ClimateDriver().cls()))
        inet = set(qlabel(q) for q in discover(InteractingDriver().cls()))
        keep = ("degree", "adjacency", "n_links", "nsi_degree",
                "cross_degree", "cross_link_density", "path_lengths",
                "node_weights", "total_node_weight")
        qs = [q for q in Driver.queries(self, model)
              if (qlabel(q) not in base and qlabel(q) not in inet)
              or q[0] in keep]
        qs += [["adjacency", [], {}], ["node_weights", [], {}]]
        return qs

    def admits(self, model, q):
        if q[0] in ("eigenvector_centrality", "nsi_eigenvector_centrality",
                    "msf_synchronizability"):
            return False
        return True


register(CoupledTsonisDriver())
