"""Value comparison with the tolerances of DESIGN.md section 4."""
import numpy as np

F64 = dict(rtol=1e-9, atol=1e-12)
F32 = dict(rtol=2e-5, atol=2e-6)


def _is_sparse(x):
    return hasattr(x, "toarray") and hasattr(x, "nnz")


def norm(x):
    """Bring a result into a comparable plain form (never mutates x)."""
    if _is_sparse(x):
        return np.asarray(x.toarray())
    if isinstance(x, np.matrix):
        return np.asarray(x)
    return x


def equal(a, b, rtol=1e-9, atol=1e-12):
    """Structural equality with float tolerance; nan==nan, inf==inf;
    shapes and container types must agree (list vs tuple is tolerated)."""
    a, b = norm(a), norm(b)
    if a is None or b is None:
        return a is None and b is None
    if isinstance(a, str) or isinstance(b, str):
        return isinstance(a, str) and isinstance(b, str) and a == b
    if isinstance(a, dict) or isinstance(b, dict):
        if not (isinstance(a, dict) and isinstance(b, dict)):
            return False
        if set(a) != set(b):
            return False
        return all(equal(a[k], b[k], rtol, atol) for k in a)
    if isinstance(a, (list, tuple)) and isinstance(b, (list, tuple)):
        if len(a) != len(b):
            return False
        try:
            aa, bb = np.asarray(a), np.asarray(b)
            if aa.dtype != object and bb.dtype != object:
                return equal(aa, bb, rtol, atol)
        except Exception:
            pass
        return all(equal(x, y, rtol, atol) for x, y in zip(a, b))
    try:
        aa, bb = np.asarray(a), np.asarray(b)
    except Exception:
        return a == b
    if aa.dtype == object or bb.dtype == object:
        if aa.shape != bb.shape:
            return False
        if aa.shape == ():
            try:
                return bool(a == b)
            except Exception:
                return False
        return all(equal(x, y, rtol, atol)
                   for x, y in zip(aa.ravel(), bb.ravel()))
    if aa.shape != bb.shape:
        return False
    if aa.dtype.kind in "US" or bb.dtype.kind in "US":
        return bool(np.array_equal(aa, bb))
    if aa.dtype.kind in "biu" and bb.dtype.kind in "biu":
        return bool(np.array_equal(aa, bb))
    if aa.dtype.kind == "M" or bb.dtype.kind == "M":
        return bool(np.array_equal(aa, bb))
    try:
        return bool(np.allclose(aa, bb, rtol=rtol, atol=atol, equal_nan=True))
    except TypeError:
        return bool(np.array_equal(aa, bb))


def snapshot(v, depth=0):
    """Copy of the arrays in a result (also inside tuples / lists / dicts):
    what was observed must not change when the library later writes into the
    same buffer (shared scratch arrays, memoised results edited in place)."""
    if isinstance(v, np.ndarray):
        return v.copy()
    if depth < 3:
        if isinstance(v, tuple):
            return tuple(snapshot(x, depth + 1) for x in v)
        if isinstance(v, list):
            return [snapshot(x, depth + 1) for x in v]
        if isinstance(v, dict):
            return {k: snapshot(x, depth + 1) for k, x in v.items()}
    return v


def outcome(f, *args, **kw):
    """Call f; return ('ok', value) or ('exc', ExceptionTypeName)."""
    try:
        return ("ok", snapshot(f(*args, **kw)))
    except (KeyboardInterrupt, SystemExit, MemoryError):
        raise
    except BaseException as e:   # the library raises many kinds
        return ("exc", type(e).__name__ + ": " + str(e)[:120])


def same_outcome(o1, o2, rtol=1e-9, atol=1e-12):
    if o1[0] != o2[0]:
        return False
    if o1[0] == "exc":
        return o1[1].split(":")[0] == o2[1].split(":")[0]
    return equal(o1[1], o2[1], rtol, atol)


def brief(o, n=160):
    if o[0] == "exc":
        return "raises " + o[1]
    v = norm(o[1])
    if isinstance(v, np.ndarray):
        s = np.array2string(v, precision=6, threshold=40, max_line_width=200)
        s = "array(shape=%s) %s" % (v.shape, s.replace("\n", " "))
    else:
        s = repr(v)
    return s if len(s) <= n else s[:n] + "..."
