"""Runs under the sanitiser-preloaded interpreter with the instrumented build
first on sys.path.  Reads JSON cases from stdin; every case runs in its own
forked child so that a sanitiser report (which halts the process) is charged
to exactly one case.  Writes one JSON result line per case."""
import glob
import json
import os
import sys


def main():
    src = os.environ["VERIF_ASAN_SRC"]
    logdir = os.environ["VERIF_ASAN_LOGDIR"]
    sys.path.insert(0, src)
    sys.path.insert(1, os.environ["VERIF_HOME"])
    import numpy  # noqa
    import pyunicorn  # noqa
    assert os.path.realpath(pyunicorn.__file__).startswith(
        os.path.realpath(src))
    from mc.checks import c20_entries as E
    E.preload()
    out = sys.stdout
    devnull = os.open(os.devnull, os.O_WRONLY)
    for line in sys.stdin:
        case = json.loads(line)
        out.flush()
        pid = os.fork()
        if pid == 0:
            code = 0
            try:
                import resource
                # a retry loop that never ends is not a memory-safety
                # verdict: cap the CPU time of the case (SIGXCPU)
                lim = int(os.environ.get("VERIF_ASAN_CPU", "8"))
                resource.setrlimit(resource.RLIMIT_CPU, (lim, lim + 2))
                os.dup2(devnull, 1)
                # sanitiser reports go to stderr: one file per case
                fd = os.open(os.path.join(logdir, "stderr.%d" % os.getpid()),
                             os.O_WRONLY | os.O_CREAT | os.O_TRUNC, 0o600)
                os.dup2(fd, 2)
                E.run_case(case)
            except BaseException as e:   # noqa  a Python exception is a pass
                code = 3
                try:
                    with open(os.path.join(logdir, "exc.%d" % os.getpid()),
                              "w") as fh:
                        fh.write("%s: %s" % (type(e).__name__, str(e)[:200]))
                except Exception:   # noqa
                    pass
            os._exit(code)
        _, status = os.waitpid(pid, 0)
        res = {"status": status, "exit": None, "signal": None, "report": "",
               "exc": ""}
        if os.WIFEXITED(status):
            res["exit"] = os.WEXITSTATUS(status)
        if os.WIFSIGNALED(status):
            res["signal"] = os.WTERMSIG(status)
        for f in glob.glob(os.path.join(logdir, "*.%d" % pid)):
            try:
                txt = open(f, errors="replace").read()
            except Exception:   # noqa
                txt = ""
            if os.path.basename(f).startswith("exc."):
                res["exc"] = txt
            elif ("Sanitizer" in txt) or ("runtime error:" in txt):
                res["report"] += txt[:6000]
            os.unlink(f)
        out.write(json.dumps(res) + "\n")
        out.flush()


if __name__ == "__main__":
    main()
