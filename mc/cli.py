"""./check <ID> [--tier quick|thorough] [--replay FILE] [--quiet]"""
import argparse
import importlib
import os
import sys


def main():
    ap = argparse.ArgumentParser()
    ap.add_argument("prop")
    ap.add_argument("--tier", default=os.environ.get("VERIF_TIER", "quick"),
                    choices=["quick", "thorough"])
    ap.add_argument("--replay")
    ap.add_argument("--quiet", action="store_true")
    a = ap.parse_args()
    prop = a.prop.upper()
    if a.replay:
        a.replay = os.path.abspath(a.replay)
    seed = int(os.environ.get("VERIF_SEED", "0") or 0)
    from . import build, core
    modname = "mc.checks.%s" % prop.lower()
    spec = importlib.util.find_spec(modname)
    if spec is None:
        sys.stderr.write("no check for %s\n" % prop)
        sys.exit(2)
    asan = prop in ("C20",) and os.environ.get("VERIF_ASAN_CHILD") == "1"
    src = build.ensure(asan=asan)
    sys.path.insert(0, src)
    os.environ["VERIF_SRC"] = src
    mod = importlib.import_module(modname)
    from . import forms, inherit
    forms.install(mod)
    inherit.install(mod)
    import pyunicorn
    assert os.path.realpath(pyunicorn.__file__).startswith(
        os.path.realpath(src)), pyunicorn.__file__
    scratch = os.path.join(build.ROOT, "cwd", "%s.%d" % (prop, os.getpid()))
    os.makedirs(scratch, exist_ok=True)
    os.chdir(scratch)
    try:
        if a.replay:
            rc = core.replay(mod, a.replay, quiet=a.quiet)
        else:
            ctx = core.Ctx(prop, mod.LEVEL, modname, a.tier, seed)
            try:
                mod.run(ctx)
                forms.attach(ctx)
                inherit.attach(ctx)
            except Exception:   # noqa  a crash of the harness is never a
                import traceback            # verdict: exit 2, no VIOLATION
                traceback.print_exc()
                print("HARNESS ERROR %s: the check itself failed (see the "
                      "traceback); no verdict" % prop)
                ctx.close()
                sys.exit(2)
            finally:
                ctx.close()
            rc = ctx.finish()
    finally:
        os.chdir("/")
        import shutil
        shutil.rmtree(scratch, ignore_errors=True)
    sys.exit(rc)


if __name__ == "__main__":
    main()
