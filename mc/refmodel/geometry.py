"""Closed-form geometry in double precision (C12 oracle).

The grids of pyunicorn keep their coordinates in single precision; "the
coordinates" of the property are therefore the values *as stored*
(`stored(x)` = the float32 nearest to x, widened back to a Python float).
Everything the exhaustive families use is plain `math` on Python floats /
Fractions; nothing is shared with the library.  Only the `np_*` functions at
the end (same closed forms, vectorised in float64 for the `scale` family with
hundreds of nodes) use numpy; they are held to the scalar versions by
`selfcheck_np`.

Accepted error of an angular distance (DESIGN.md section 7, C12): the library
forms the cosine of the angle from single-precision sines and cosines and
takes `arccos`.  A few units in the last place of a float32 cosine (eps32 =
2^-23) propagate to the angle as `d(theta) = d(cos)/sin(theta)`, which is
~2^-20 relative around theta ~ 1 and degrades to sqrt(eps32) towards 0 and pi,
where the property caps it at 2^-10:

    tol(theta) = min(2^-10, 8 eps32 / max(sin theta, sqrt(eps32)) + 4 eps32 pi)

(the second summand covers the single-precision conversion of degrees to
radians: |angle| <= pi, a few half-ulps).
"""
import itertools
import math
import struct
from fractions import Fraction

EPS32 = 2.0 ** -23
ANGLE_CAP = 2.0 ** -10
PI32 = struct.unpack("f", struct.pack("f", math.pi))[0]   # float32(pi) > pi


def stored(x):
    """The value a float32 array holds after `x` has been written to it."""
    return struct.unpack("f", struct.pack("f", float(x)))[0]


def unit(lat_deg, lon_deg):
    la = math.radians(lat_deg)
    lo = math.radians(lon_deg)
    c = math.cos(la)
    return (c * math.cos(lo), c * math.sin(lo), math.sin(la))


def angle(p, q):
    """Great-circle angle between p=(lat,lon) and q=(lat,lon) in degrees,
    by atan2(|a x b|, a . b) on the unit vectors."""
    a, b = unit(*p), unit(*q)
    cx = a[1] * b[2] - a[2] * b[1]
    cy = a[2] * b[0] - a[0] * b[2]
    cz = a[0] * b[1] - a[1] * b[0]
    dot = a[0] * b[0] + a[1] * b[1] + a[2] * b[2]
    return math.atan2(math.sqrt(cx * cx + cy * cy + cz * cz), dot)


def angle_stored(p, q):
    return angle((stored(p[0]), stored(p[1])), (stored(q[0]), stored(q[1])))


def ang_tol(theta):
    s = max(math.sin(theta), math.sqrt(EPS32))
    return min(ANGLE_CAP, 8 * EPS32 / s + 4 * EPS32 * math.pi)


def angle_class(theta):
    if theta < 1e-3:
        return "coincident"
    if theta > math.pi - 1e-3:
        return "antipodal"
    return "generic"


def cos_lat(lat_deg):
    return math.cos(math.radians(stored(lat_deg)))


# absolute accuracy of a single-precision cosine of a latitude given in
# single precision: the radian value (<= pi/2) is rounded to float32 (half an
# ulp = 2^-24 * 2), the cosine once more
COS_TOL = 4 * EPS32


def euclid(p, q):
    return math.sqrt(math.fsum((stored(a) - stored(b)) ** 2
                               for a, b in zip(p, q)))


def euclid_sq_exact(p, q):
    return sum(((Fraction(stored(a)) - Fraction(b)) ** 2
                for a, b in zip(p, q)), Fraction(0))


def euc_tol(d, dim):
    """Each squared difference, each partial sum and the square root are
    rounded to single precision once: (dim + 4) half-ulps relative."""
    return (dim + 4) * EPS32 * d


def product_order(axes):
    """Documented order of the rectangular grids (docstring example
    [0,5] x [1,2] -> 0,0,5,5 / 1,2,1,2): the first axis varies slowest."""
    pts = list(itertools.product(*axes))
    return [[p[k] for p in pts] for k in range(len(axes))]


def in_polygon(pt, poly):
    """Even-odd rule with exact rational arithmetic.  pt=(x,y), poly=list of
    (x,y) (implicitly closed).  Returns True/False, or None when the point
    lies on the boundary (behaviour not specified)."""
    x, y = Fraction(pt[0]), Fraction(pt[1])
    n = len(poly)
    inside = False
    for k in range(n):
        x1, y1 = Fraction(poly[k][0]), Fraction(poly[k][1])
        x2, y2 = Fraction(poly[(k + 1) % n][0]), Fraction(poly[(k + 1) % n][1])
        # on the segment?
        cross = (x2 - x1) * (y - y1) - (y2 - y1) * (x - x1)
        if cross == 0 and min(x1, x2) <= x <= max(x1, x2) and \
                min(y1, y2) <= y <= max(y1, y2):
            return None
        if (y1 > y) != (y2 > y):
            xi = x1 + (y - y1) * (x2 - x1) / (y2 - y1)
            if xi > x:
                inside = not inside
    return inside


# --- area weighted connectivity and link distances by their definitions ------


def awc(A, w, direction):
    """A: nested 0/1 lists (A[i][j]=1: i links to j); w: cos(lat) per node.
    in: share of the area linking *to* i; out: share i links to."""
    n = len(A)
    tot = math.fsum(w)
    out = []
    for i in range(n):
        if direction == "in":
            s = math.fsum(w[j] for j in range(n) if A[j][i])
        else:
            s = math.fsum(w[j] for j in range(n) if A[i][j])
        out.append(s / tot)
    return out


def average_link_distance(A, D):
    n = len(A)
    out = []
    for i in range(n):
        nb = [j for j in range(n) if A[i][j]]
        out.append(math.fsum(D[i][j] for j in nb) / len(nb) if nb else 0.0)
    return out


def max_link_distance(A, D):
    n = len(A)
    return [max([D[i][j] for j in range(n) if A[i][j]] or [0.0])
            for i in range(n)]


def connectivity_weighted_distance(A, D, w):
    n = len(A)
    tot = math.fsum(w)
    out = []
    for i in range(n):
        nb = [j for j in range(n) if A[i][j]]
        out.append(math.fsum(w[j] * D[i][j] for j in nb) / (len(nb) * tot)
                   if nb else 0.0)
    return out


def selfcheck():
    # docstring examples of GeoGrid / Grid
    lat = [0, 5, 10, 15, 20, 25]
    lon = [2.5, 5., 7.5, 10., 12.5, 15.]
    pts = list(zip(lat, lon))
    row = [round(angle_stored(pts[0], q), 2) for q in pts]
    assert row == [0.0, 0.1, 0.19, 0.29, 0.39, 0.48], row
    assert round(euclid(pts[0], pts[1]), 2) == 5.59
    assert product_order([[0., 5.], [1., 2.]]) == [[0., 0., 5., 5.],
                                                   [1., 2., 1., 2.]]
    # region example: lon,lat pairs 0,0 0,11 11,11 11,0 -> nodes 1,2 inside
    poly = [(0., 0.), (0., 11.), (11., 11.), (11., 0.)]
    ins = [in_polygon((lo, la), poly) for la, lo in pts]
    assert ins == [None, True, True, False, False, False], ins
    # exact antipodes / coincidences
    assert abs(angle((45, 0), (-45, 180)) - math.pi) < 1e-15
    assert angle((90, 0), (90, 137)) < 1e-15
    assert abs(angle((0, 0), (0, 90)) - math.pi / 2) < 1e-15
    # AWC docstring example of GeoNetwork.SmallTestNetwork
    edges = [(0, 3), (0, 4), (0, 5), (1, 2), (1, 3), (1, 4), (2, 4)]
    A = [[0] * 6 for _ in range(6)]
    for i, j in edges:
        A[i][j] = A[j][i] = 1
    w = [cos_lat(x) for x in lat]
    got = [round(x, 4) for x in awc(A, w, "in")]
    assert got == [0.4854, 0.499, 0.3342, 0.3446, 0.5146, 0.1726], got
    assert PI32 > math.pi and PI32 - math.pi < 1e-7
    return True


# ---------------------------------------------------------------------------
# vectorised float64 versions of the same closed forms for the `scale`
# family (hundreds of nodes).  numpy is used only here; `selfcheck_np`
# holds these to the scalar functions above.


def np_stored(x):
    import numpy as np
    return np.asarray(x, dtype=np.float32).astype(np.float64)


def np_unit(lat_deg, lon_deg):
    import numpy as np
    la, lo = np.radians(lat_deg), np.radians(lon_deg)
    c = np.cos(la)
    return np.stack([c * np.cos(lo), c * np.sin(lo), np.sin(la)], axis=-1)


def np_angles(lat1, lon1, lat2=None, lon2=None):
    """Matrix of atan2(|a x b|, a.b) between two point sets (degrees, taken
    as given; pass np_stored(...) for grid nodes)."""
    import numpy as np
    A = np_unit(np.asarray(lat1, float), np.asarray(lon1, float))
    B = A if lat2 is None else np_unit(np.asarray(lat2, float),
                                       np.asarray(lon2, float))
    dot = A @ B.T
    cr = np.cross(A[:, None, :], B[None, :, :])
    return np.arctan2(np.sqrt((cr * cr).sum(axis=-1)), dot)


def np_ang_tol(theta):
    import numpy as np
    s = np.maximum(np.sin(theta), math.sqrt(EPS32))
    return np.minimum(ANGLE_CAP, 8 * EPS32 / s + 4 * EPS32 * math.pi)


def np_euclid(X):
    """X: (N, dim) stored coordinates -> (N, N) distances."""
    import numpy as np
    d = X[:, None, :] - X[None, :, :]
    return np.sqrt((d * d).sum(axis=-1))


def selfcheck_np():
    pts = [(90, 0), (-90, 5), (0, 180), (0, -180), (30.0001, 60), (30, 60),
           (-30, -120), (52.5, 13.4), (-87, -180), (87, 0)]
    lat = np_stored([p[0] for p in pts])
    lon = np_stored([p[1] for p in pts])
    M = np_angles(lat, lon)
    T = np_ang_tol(M)
    for i, p in enumerate(pts):
        for j, q in enumerate(pts):
            ref = angle_stored(p, q)
            assert abs(M[i, j] - ref) < 1e-12, (p, q, M[i, j], ref)
            assert abs(T[i, j] - ang_tol(ref)) < 1e-12
    X = np_stored([[0, 0, 0], [3, 4, 0], [-1, 0.5, 3]])
    E = np_euclid(X)
    assert E[0, 1] == 5.0 and abs(E[0, 2] - euclid(X[0], X[2])) < 1e-15
    return True
