"""Reference model and random-source stand-ins for C15 (surrogates).

Nothing in here imports pyunicorn.  Three parts:

* stand-ins for the random sources the surrogate code looks up at call time
  (`pyunicorn.timeseries.surrogates.random` = numpy.random with `shuffle`,
  `uniform`, `randn`; the timeseries extension's module global `random` =
  Python's random with `random()`/`seed()`), each draw being a choice point of
  a `mc.choice.ChoiceRun` whose option 0 is the seeded generator's own answer;
* by-definition oracles: exact row-permutation test, amplitude spectrum by an
  explicit DFT sum, supremum-norm recurrence matrix of a delay embedding,
  twins from identical rows, and an NFA-style test of a twin walk;
* `drive`, the bounded DFS loop shared by the families of the check.
"""
import itertools
import math

import numpy as np

from ..choice import explore, replay

PHASE_MENU = [0.0, math.pi / 2, math.pi, 3 * math.pi / 2, 1.234]
WALK_MENU = [0.0, 0.25, 0.5, 0.75, 0.999]
FULL_PERM_MAX = 5    # shuffle menus hold every permutation up to this length
FULL_PHASE_MAX = 3   # one choice point per row (every phase vector) up to it


class SeamError(BaseException):
    """Kept for callers that still name it; the stand-ins no longer raise it:
    a request they do not model falls through to the seeded default
    generator (see `fallthrough`)."""


# label -> number of calls of random functions that the stand-ins do not
# enumerate (answered by the seeded default generator, no choice point)
UNMODELLED = {}


def fallthrough(label, name, default, log=None):
    """Attribute `name` of the seeded default generator `default`, wrapped so
    that every call is counted under UNMODELLED[label.name] (and logged for
    the scripted control run).  The library may switch to another function
    of numpy.random / random; the execution then stays deterministic (the
    default generator is seeded per execution) and the invariants are still
    judged, but these draws are not enumerated."""
    if name.startswith("__"):
        raise AttributeError(name)
    f = getattr(default, name)
    if not callable(f):
        return f
    key = "%s.%s" % (label, name)

    def call(*a, **k):
        UNMODELLED[key] = UNMODELLED.get(key, 0) + 1
        out = f(*a, **k)
        if log is not None:
            log.append(("raw:" + name, np.array(out, copy=True)
                        if isinstance(out, np.ndarray) else out))
        return out
    return call


def unmodelled_snapshot():
    return dict(UNMODELLED)


def unmodelled_stats(snapshot):
    """stats entries for the calls counted since `snapshot`."""
    out = {}
    for k, v in UNMODELLED.items():
        d = v - snapshot.get(k, 0)
        if d:
            out["unmodelled_rng_calls"] = out.get(
                "unmodelled_rng_calls", 0) + d
            out["unmodelled_rng_calls:" + k] = d
    return out


def unmodelled_names(stats):
    """The function names recorded by unmodelled_stats in summed stats."""
    return sorted(k.split(":", 1)[1] for k in stats
                  if k.startswith("unmodelled_rng_calls:"))


# ---------------------------------------------------------------------------
# stand-ins


def long_perm_menu(n):
    """Fixed menu of permutations for lengths beyond FULL_PERM_MAX."""
    ident = list(range(n))
    menu = [ident, ident[::-1], ident[1:] + ident[:1],
            [1, 0] + ident[2:], ident[:-2] + [n - 1, n - 2],
            ident[0::2] + ident[1::2]]
    out = []
    for p in menu:
        if p not in out:
            out.append(p)
    return out


_PERMS = {}


def perm_menu(n):
    if n not in _PERMS:
        if n <= FULL_PERM_MAX:
            _PERMS[n] = [list(p) for p in itertools.permutations(range(n))]
        else:
            _PERMS[n] = long_perm_menu(n)
    return _PERMS[n]


_NORMALS = {}
_RS = {}


def seeded_state(seed):
    """A numpy RandomState positioned at the start of stream `seed` (one
    shared object per seed, rewound on every request: seeding a Mersenne
    twister from scratch costs more than a whole surrogate call)."""
    if seed not in _RS:
        rs = np.random.RandomState(seed)
        _RS[seed] = (rs, rs.get_state())
    rs, st = _RS[seed]
    rs.set_state(st)
    return rs


def reference_normal_draws(shape):
    """Three fixed stand-ins for a `randn(*shape)` answer: generic distinct
    values, values with many ties, and the all-zero array."""
    if shape not in _NORMALS:
        _NORMALS[shape] = _reference_normal_draws(shape)
    return _NORMALS[shape]


def _reference_normal_draws(shape):
    size = int(np.prod(shape)) if len(shape) else 1
    k = np.arange(size, dtype=float)
    generic = 1.7 * np.sin(1.0 + 2.399963 * k) + 0.3 * np.cos(0.7 * k * k)
    ties = np.round(generic)
    zeros = np.zeros(size)
    return [a.reshape(shape) for a in (generic, ties, zeros)]


class NumpyRandom:
    """What `surrogates.py` sees as `random` (it does `from numpy import
    random` and calls `random.shuffle/uniform/randn`)."""

    def __init__(self, cr, seed, log=None):
        self.cr = cr
        self._d = seeded_state(seed)
        self.log = log if log is not None else []

    def shuffle(self, x):
        n = len(x)
        d = self._d.permutation(n)
        menu = perm_menu(n)
        c = self.cr.choose(1 + len(menu), "shuffle%d" % n)
        p = d if c == 0 else np.array(menu[c - 1], dtype=int)
        self.log.append(("shuffle", [int(v) for v in p]))
        x[:] = np.array(x)[p]

    def uniform(self, low=0.0, high=1.0, size=None):
        d = self._d.uniform(low, high, size)
        scale = (high - low) / (2 * math.pi)
        if size is None:
            c = self.cr.choose(1 + len(PHASE_MENU), "phase")
            v = d if c == 0 else low + scale * PHASE_MENU[c - 1]
            self.log.append(("uniform", v))
            return v
        d = np.array(d, dtype=float)
        rows = d.reshape(-1, d.shape[-1]) if d.ndim >= 1 else d.reshape(1, 1)
        L = rows.shape[1]
        if L <= FULL_PHASE_MAX:
            nopt = len(PHASE_MENU) ** L
            for r in range(rows.shape[0]):
                c = self.cr.choose(1 + nopt, "phaserow%d" % L)
                if c:
                    c -= 1
                    for k in range(L):
                        rows[r, k] = low + scale * PHASE_MENU[
                            c % len(PHASE_MENU)]
                        c //= len(PHASE_MENU)
        else:
            for r in range(rows.shape[0]):
                for k in range(L):
                    c = self.cr.choose(1 + len(PHASE_MENU), "phase")
                    if c:
                        rows[r, k] = low + scale * PHASE_MENU[c - 1]
        out = rows.reshape(d.shape)
        self.log.append(("uniform", out.copy()))
        return out

    def randn(self, *shape):
        d = self._d.randn(*shape)
        refs = reference_normal_draws(tuple(shape))
        c = self.cr.choose(1 + len(refs), "randn")
        out = d if c == 0 else refs[c - 1].copy()
        self.log.append(("randn", np.array(out, dtype=float).copy()))
        return out

    def __getattr__(self, name):
        return fallthrough("numpy.random", name, self._d, self.log)


class PyRandom:
    """What the timeseries extension sees as its module global `random`."""

    def __init__(self, cr, seed, log=None):
        import random as _r
        self.cr = cr
        self._d = _r.Random(seed)
        self.log = log if log is not None else []

    def random(self):
        d = self._d.random()
        c = self.cr.choose(1 + len(WALK_MENU), "walk")
        v = d if c == 0 else WALK_MENU[c - 1]
        self.log.append(("walk", v))
        return v

    def seed(self, *a, **k):
        return None

    def __getattr__(self, name):
        return fallthrough("random", name, self._d, self.log)


class ScriptEnd(Exception):
    """A scripted random source was asked for more (or other) answers than
    were recorded."""


class Scripted:
    """Replays recorded answers (the `log` of the stand-ins above) to a
    fresh object: used to tell a failure caused by the answers alone from one
    caused by the history of earlier calls."""

    def __init__(self, log):
        self.script = list(log)
        self.pos = 0
        self.log = []

    def _next(self, kind):
        if self.pos >= len(self.script) or self.script[self.pos][0] != kind:
            raise ScriptEnd(kind)
        v = self.script[self.pos][1]
        self.pos += 1
        return v

    def shuffle(self, x):
        p = self._next("shuffle")
        if len(p) != len(x):
            raise ScriptEnd("shuffle length")
        x[:] = np.array(x)[np.array(p, dtype=int)]

    def uniform(self, low=0.0, high=1.0, size=None):
        v = self._next("uniform")
        want = () if size is None else (
            (size,) if isinstance(size, int) else tuple(size))
        if np.shape(v) != want:
            raise ScriptEnd("uniform shape")
        return np.array(v, dtype=float).copy() if want else v

    def randn(self, *shape):
        v = self._next("randn")
        if np.shape(v) != tuple(shape):
            raise ScriptEnd("randn shape")
        return np.array(v, dtype=float).copy()

    def random(self):
        return self._next("walk")

    def seed(self, *a, **k):
        return None

    def __getattr__(self, name):
        if name.startswith("__"):
            raise AttributeError(name)

        def call(*a, **k):
            return self._next("raw:" + name)
        return call


# ---------------------------------------------------------------------------
# oracles


def row_permutation_defect(out, data):
    """None if `out` is a row-wise permutation of `data` (exact), else a
    short description."""
    out = np.asarray(out)
    data = np.asarray(data)
    if out.shape != data.shape:
        return "shape %s instead of %s" % (out.shape, data.shape)
    for i in range(data.shape[0]):
        a = sorted(float(v) for v in out[i])
        b = sorted(float(v) for v in data[i])
        if any(x != x for x in a):
            return "row %d contains NaN" % i
        if a != b:
            return "row %d is not a permutation of the data row" % i
    return None


_DFT = {}


def amplitudes(row):
    """|X_k|, k = 0..n//2, by the explicit DFT sum."""
    n = len(row)
    if n not in _DFT:
        k = np.arange(n // 2 + 1)[:, None]
        t = np.arange(n)[None, :]
        _DFT[n] = np.exp(-2j * np.pi * k * t / n)
    return np.abs(_DFT[n] @ np.asarray(row, dtype=float))


def interior_bins(n):
    """Indices of the non-zero, non-Nyquist frequencies of a length-n rfft."""
    return list(range(1, (n - 1) // 2 + 1))


def spectrum_defect(out, data, rtol=1e-6):
    """None if every row of `out` has the amplitude spectrum of the data row
    at all non-zero, non-Nyquist frequencies.  Returns (kind, text)."""
    out = np.asarray(out)
    data = np.asarray(data, dtype=float)
    if out.shape != data.shape:
        return ("shape", "shape %s instead of %s" % (out.shape, data.shape))
    n = data.shape[1]
    idx = np.array(interior_bins(n), dtype=int)
    for i in range(data.shape[0]):
        if not np.all(np.isfinite(out[i])):
            return ("nan", "row %d is not finite" % i)
        a, b = amplitudes(out[i]), amplitudes(data[i])
        scale = max(float(b.max()), 1e-300)
        bad = np.nonzero(np.abs(a[idx] - b[idx]) > rtol * scale)[0]
        if len(bad):
            k = int(idx[bad[0]])
            return ("value", "row %d, frequency %d: amplitude %.9g "
                    "instead of %.9g" % (i, k, a[k], b[k]))
    return None


def embed(x, dim, tau):
    n = len(x) - (dim - 1) * tau
    return [tuple(float(x[t + d * tau]) for d in range(dim))
            for t in range(n)]


def recurrence_sup(states, thr, strict):
    """Supremum-norm recurrence matrix; neighbours iff distance < thr
    (strict, RecurrencePlot) or <= thr (Surrogates kernels)."""
    n = len(states)
    R = [[0] * n for _ in range(n)]
    for i in range(n):
        for j in range(n):
            d = max(abs(a - b) for a, b in zip(states[i], states[j]))
            R[i][j] = int(d < thr if strict else d <= thr)
    return R


def on_threshold(states, thr):
    """True if some pair of states sits exactly at distance thr (the
    property does not say which side such a pair is on)."""
    return any(max(abs(a - b) for a, b in zip(s, u)) == thr
               for s in states for u in states)


def twins_oracle(R, min_dist):
    n = len(R)
    return [[j for j in range(n)
             if abs(i - j) > min_dist and list(R[i]) == list(R[j])]
            for i in range(n)]


def walk_defect(sur, states, twins):
    """NFA test of one twin-surrogate trajectory: every emitted state must be
    an original state and follow its predecessor by the successor of that
    state or of one of its twins; after the last state (successor index N)
    the walk may restart anywhere.  `states[k]`/`sur[j]` are hashable and
    compared exactly.  Returns None or (kind, text)."""
    N = len(states)
    where = {}
    for k, s in enumerate(states):
        where.setdefault(s, set()).add(k)
    if len(sur) == 0:
        return ("empty", "empty surrogate")
    for j, s in enumerate(sur):
        if s not in where:
            return ("foreign-state",
                    "step %d: %r is not a state of the original" % (j, s))
    cur = set(where[sur[0]])
    for j in range(1, len(sur)):
        allowed, restart = set(), False
        for k in cur:
            for t in [k] + list(twins[k]):
                if t + 1 >= N:
                    restart = True
                else:
                    allowed.add(t + 1)
        if restart:
            allowed = set(range(N))
        cur = allowed & where[sur[j]]
        if not cur:
            return ("transition",
                    "step %d: %r follows %r but is neither its successor nor "
                    "the successor of one of its twins"
                    % (j, sur[j], sur[j - 1]))
    return None


# --- the same oracles for a few hundred states (numpy, still by definition) --


def embed_np(x, dim, tau):
    x = np.asarray(x, dtype=float)
    n = len(x) - (dim - 1) * tau
    return np.stack([x[d * tau:d * tau + n] for d in range(dim)], axis=1)


def recurrence_sup_np(states, thr, strict):
    """(R, on_threshold) for an (n, dim) array of states."""
    S = np.asarray(states, dtype=float)
    D = np.abs(S[:, None, :] - S[None, :, :]).max(axis=2)
    R = (D < thr) if strict else (D <= thr)
    return R.astype(np.int8), bool(np.any(D == thr))


def twins_np(R, min_dist):
    """twins[i] = sorted j with identical row of R and |i-j| > min_dist."""
    R = np.asarray(R)
    groups = {}
    for i in range(len(R)):
        groups.setdefault(R[i].tobytes(), []).append(i)
    out = [None] * len(R)
    for members in groups.values():
        for i in members:
            out[i] = [j for j in members if abs(i - j) > min_dist]
    return out


def walk_defect_np(sur, states, twins):
    """walk_defect for arrays: sur (L, d), states (N, d), exact equality."""
    sur = np.asarray(sur, dtype=float)
    states = np.asarray(states, dtype=float)
    if sur.ndim == 1:
        sur = sur[:, None]
    if states.ndim == 1:
        states = states[:, None]
    N = len(states)
    if len(sur) == 0:
        return ("empty", "empty surrogate")
    T = np.eye(N, dtype=np.float32)
    for k, tw in enumerate(twins):
        if len(tw):
            T[k, np.array(tw, dtype=int)] = 1
    match = (sur[:, None, :] == states[None, :, :]).all(axis=2)   # (L, N)
    foreign = np.nonzero(~match.any(axis=1))[0]
    if len(foreign):
        j = int(foreign[0])
        return ("foreign-state", "step %d: %r is not a state of the original"
                % (j, sur[j].tolist()))
    cur = match[0]
    for j in range(1, len(sur)):
        reach = (cur.astype(np.float32) @ T) > 0     # cur and their twins
        allowed = np.zeros(N, dtype=bool)
        if reach[N - 1]:
            allowed[:] = True                        # restart after the end
        else:
            allowed[1:] = reach[:-1]
        cur = allowed & match[j]
        if not cur.any():
            return ("transition",
                    "step %d: %r follows %r but is neither its successor nor "
                    "the successor of one of its twins"
                    % (j, sur[j].tolist(), sur[j - 1].tolist()))
    return None


# ---------------------------------------------------------------------------
# bounded DFS over choice sequences


def drive(run_fn, judge, sig_of, bound, horizon, choices=None, max_runs=None):
    """Run `run_fn(cr)` for every choice sequence with <= bound deviations
    (or for exactly `choices`), judge every completed execution.

    judge(obs) -> list of (key, msg, observed, expected)
    Returns a dict with viol (first per key, carrying the choice sequence),
    states, transitions, traces, cut, sigs, capped, `sample` (a completed
    choice sequence with the most deviations seen, for the replay self-test)
    and `next_level` (the exact number of executions that bound+1 would add).
    """
    res = {"viol": {}, "states": 0, "transitions": 0, "traces": 0, "cut": 0,
           "sigs": set(), "capped": False, "sample": None, "maxlen": 0,
           "next_level": 0}
    last = {}

    def tracked(cr):
        last["cr"] = cr
        return run_fn(cr)

    if choices is not None:
        out, cut = replay(tracked, list(choices), horizon)
        it = [(list(choices), out, cut)]
    else:
        it = explore(tracked, bound, horizon, max_runs)
    best = -1
    for taken, out, cut in it:
        res["states"] += 1
        res["traces"] += 1
        res["transitions"] += len(taken)
        res["maxlen"] = max(res["maxlen"], len(taken))
        dev = sum(1 for c in taken if c)
        if choices is None and dev == bound:
            # executions the next deviation level would add below this one
            cr = last["cr"]
            res["next_level"] += sum(m - 1
                                     for m in cr.menus[len(cr.prefix):])
        if cut:
            res["cut"] += 1
            continue
        if dev > best:
            best, res["sample"] = dev, list(taken)
        res["sigs"].add(sig_of(out))
        for key, msg, observed, expected in judge(out):
            if key not in res["viol"]:
                res["viol"][key] = {
                    "key": key,
                    "msg": "%s [choices=%s]" % (msg, taken),
                    "observed": {"choices": list(taken), "value": observed},
                    "expected": expected}
    if choices is None:
        res["capped"] = bool(getattr(explore, "capped", False))
    return res


def selftest_replay(run_fn, sample, horizon, same):
    """Replaying one recorded choice sequence twice must give identical
    observations; anything else means the seams do not own the randomness."""
    if sample is None:
        return
    a, ca = replay(run_fn, sample, horizon)
    b, cb = replay(run_fn, sample, horizon)
    if ca != cb or not same(a, b):
        raise AssertionError("replay divergence for choices %s:\n%r\n%r"
                             % (sample, a, b))
