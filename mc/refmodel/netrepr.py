"""What a network IS, independent of how it was built (C05 oracle).

`spec()` turns an enumerated input (graph, weight vector, number of link
attributes) into the plain-Python description every representation has to
agree with; `observe()` reads the same items off a library object through its
public attributes only; `diff()` lists the items that disagree.

Definitions (docstrings of pyunicorn.core.Network): ``N`` node count,
``n_links`` = |E| (each undirected link once), ``link_density`` = |E| divided
by the number of node pairs N(N-1)/2 (ordered pairs N(N-1) when directed),
``adjacency``/``sp_A`` the 0/1 matrix (symmetric, empty diagonal when
undirected), ``graph`` an igraph object with N vertices and exactly the links
of E (no multi-edges, no loops), ``node_weights`` (default: ones) with
``total_node_weight`` = sum and ``mean_node_weight`` = sum/N,
``link_attribute(name)[i,j]`` = value of the attribute on link i-j, 0 where
there is no link.
"""
import numpy as np

from ..domains import adj, weights, link_attr, pairs

ATTR_NAMES = ["link_weights", "w"]     # the library's own example name first


def edges_of(n, directed, mask):
    """`mask` is the bit mask of domains.pairs() or an explicit list of links
    [[i, j], ...] (scale family; undirected links in any orientation)."""
    if isinstance(mask, (list, tuple)):
        es = {(int(a), int(b)) if directed else
              (min(int(a), int(b)), max(int(a), int(b))) for a, b in mask}
        return sorted(es)
    return [p for k, p in enumerate(pairs(n, directed)) if mask >> k & 1]


def adjacency_of(n, directed, mask):
    if not isinstance(mask, (list, tuple)):
        return adj(n, directed, mask)
    A = np.zeros((n, n), dtype=np.int8)
    for (i, j) in edges_of(n, directed, mask):
        A[i, j] = 1
        if not directed:
            A[j, i] = 1
    return A


def node_weights_of(n, wk):
    """The weight alphabet of domains.WEIGHTS, continued periodically with
    unequal dyadic values for networks with more than 8 nodes."""
    if n <= 8 or wk == 0:
        return weights(n, wk)
    if wk == 1:
        return [0.5 + ((7 * i) % 11) / 4.0 for i in range(n)]
    return [2.0 ** ((i % 7) - 3) for i in range(n)]


def attr_matrix(A, directed, variant):
    W = link_attr(A, variant=variant)
    if variant == 2:
        # the second attribute is signed (e.g. correlations used as weights):
        # negative on the links whose end points have an odd index sum
        n = len(A)
        for i in range(n):
            for j in range(n):
                if (i + j) % 2:
                    W[i, j] = -W[i, j]
    if directed:
        n = len(A)
        for i in range(n):
            for j in range(i):
                if A[i][j]:
                    W[i, j] += 4.0
    return W


def spec(n, directed, mask, wk, na):
    A = adjacency_of(n, directed, mask)
    E = edges_of(n, directed, mask)
    w = node_weights_of(n, wk)
    wv = [1.0] * n if w is None else [float(x) for x in w]
    npairs = n * (n - 1) if directed else n * (n - 1) / 2
    return {
        "N": n, "directed": bool(directed), "edges": sorted(E),
        "A": A.astype(int).tolist(),
        "n_links": len(E), "link_density": len(E) / npairs,
        "w_in": w, "weights": wv, "total": sum(wv), "mean": sum(wv) / n,
        # an attribute lives on links: without links there is nothing to
        # carry (igraph keeps no attribute for an empty edge sequence)
        "attrs": {ATTR_NAMES[k]: attr_matrix(A, directed, k + 1).tolist()
                  for k in range(na if E else 0)},
    }


def structured(kind, n, directed=False):
    """Larger structured graphs of the scale families, as link lists.

    ring-chords        ring 0..n-1, a chord i -> i+5 from every third node and
                       three extra links that touch the last nodes
    ring-chords-tail   the same on the first n-3 nodes, last 3 nodes isolated
    two-communities    two ring-with-chords halves joined by three bridges
    disconnected-pair  two ring-with-chords components on the even / the odd
                       labels (interleaved), no link between them
    components         components of 9, 12, 15 and 23 nodes with interleaved
                       labels plus isolated nodes (needs n >= 62)
    complete / cocktail / dense   K_n, K_n minus a perfect matching, and a
                       deterministic graph of density ~0.7 (many triangles)
    Directed graphs get the arcs i -> j of the list plus a back arc for every
    fourth link, so that they are asymmetric."""
    def ring(nodes, step=5):
        k = len(nodes)
        es = [(nodes[i], nodes[(i + 1) % k]) for i in range(k)]
        if k > step + 1:
            es += [(nodes[i], nodes[(i + step) % k]) for i in range(0, k, 3)]
        return es
    if kind == "ring-chords":
        es = ring(list(range(n))) + [(n - 1, n // 2), (n - 2, 0),
                                     (n - 1, n - 3)]
    elif kind == "ring-chords-tail":
        m = n - 3
        es = ring(list(range(m))) + [(m - 1, m // 2)]
    elif kind == "two-communities":
        h = n // 2
        es = ring(list(range(h)), 3) + ring(list(range(h, n)), 4) + [
            (0, h), (h - 1, n - 1), (h // 2, h + 2)]
    elif kind == "disconnected-pair":
        es = ring(list(range(0, n, 2)), 3) + ring(list(range(1, n, 2)), 4)
    elif kind == "components":
        sizes, start, es = (9, 12, 15, 23), 0, []
        labels = [(i * 37) % n for i in range(n)] if n % 37 else \
            list(range(n))
        assert len(set(labels)) == n and n >= sum(sizes)
        for k in sizes:
            es += ring(labels[start:start + k], 4)
            start += k
    elif kind == "complete":
        es = [(i, j) for i in range(n) for j in range(i + 1, n)]
    elif kind == "cocktail":
        # complete graph minus the perfect matching i -- i + n/2
        es = [(i, j) for i in range(n) for j in range(i + 1, n)
              if j - i != n // 2]
    elif kind == "dense":
        # deterministic graph of density ~0.7
        es = [(i, j) for i in range(n) for j in range(i + 1, n)
              if (i * 7 + j * 13 + i * j) % 10 < 7]
    else:
        raise ValueError(kind)
    es = sorted({(min(a, b), max(a, b)) for a, b in es if a != b})
    if directed:
        es = [(a, b) for a, b in es] + [(b, a) for a, b in es[::4]]
    return [list(e) for e in es]


def _try(f):
    try:
        return f()
    except Exception as e:       # noqa - reported as the observed value
        return "raises %s: %s" % (type(e).__name__, str(e)[:80])


def observe(net):
    """Everything the property talks about, read through the public API."""
    o = {}
    o["N"] = _try(lambda: int(net.N))
    o["n_links"] = _try(lambda: int(net.n_links))
    o["link_density"] = _try(lambda: float(net.link_density))
    o["adjacency"] = _try(lambda: np.asarray(net.adjacency).tolist())
    o["sp_A"] = _try(lambda: np.asarray(net.sp_A.toarray()).tolist())

    def g():
        gr = net.graph
        es = [tuple(e) for e in gr.get_edgelist()]
        if not gr.is_directed():
            es = [(min(a, b), max(a, b)) for a, b in es]
        return {"vcount": gr.vcount(), "directed": bool(gr.is_directed()),
                "edges": sorted(es)}
    o["graph"] = _try(g)
    o["directed"] = _try(lambda: bool(net.directed))
    o["node_weights"] = _try(
        lambda: None if net.node_weights is None
        else [float(x) for x in net.node_weights])
    o["total_node_weight"] = _try(lambda: float(net.total_node_weight))
    o["mean_node_weight"] = _try(lambda: float(net.mean_node_weight))
    names = _try(lambda: sorted(net.graph.es.attributes()))
    o["attr_names"] = names
    o["attrs"] = {}
    if isinstance(names, list):
        for nm in names:
            o["attrs"][nm] = _try(
                lambda nm=nm: np.asarray(net.link_attribute(nm)).tolist())
    return o


def _feq(a, b, rtol=1e-9, atol=1e-12):
    try:
        return bool(np.allclose(np.asarray(a, dtype=float),
                                np.asarray(b, dtype=float),
                                rtol=rtol, atol=atol)) and \
            np.asarray(a).shape == np.asarray(b).shape
    except (TypeError, ValueError):
        return False


STRUCTURE = ["N", "directed", "adjacency", "sp_A", "graph", "n_links",
             "link_density"]


def diff(sp, o, weights=None, wtol=None):
    """Return {'structure': [...], 'weights': [...], 'attrs': [...]} listing
    (item, observed, expected) for every disagreement.  `weights` overrides
    the expected node weights (spatial classes), `wtol` their tolerance."""
    out = {"structure": [], "weights": [], "attrs": []}
    s = out["structure"]
    if o["N"] != sp["N"]:
        s.append(("N", o["N"], sp["N"]))
    if o["directed"] != sp["directed"]:
        s.append(("directed", o["directed"], sp["directed"]))
    for k in ("adjacency", "sp_A"):
        if o[k] != sp["A"]:
            s.append((k, o[k], sp["A"]))
    eg = {"vcount": sp["N"], "directed": sp["directed"],
          "edges": [tuple(e) for e in sp["edges"]]}
    if o["graph"] != eg:
        s.append(("graph", o["graph"], eg))
    if o["n_links"] != sp["n_links"]:
        s.append(("n_links", o["n_links"], sp["n_links"]))
    if not (isinstance(o["link_density"], float) and
            _feq(o["link_density"], sp["link_density"])):
        s.append(("link_density", o["link_density"], sp["link_density"]))
    w = sp["weights"] if weights is None else list(weights)
    tol = wtol or {}
    if o["node_weights"] is None or isinstance(o["node_weights"], str) or \
            not _feq(o["node_weights"], w, **tol):
        out["weights"].append(("node_weights", o["node_weights"], w))
    if not (isinstance(o["total_node_weight"], float) and
            _feq(o["total_node_weight"], sum(w), **tol)):
        out["weights"].append(("total_node_weight", o["total_node_weight"],
                               sum(w)))
    if not (isinstance(o["mean_node_weight"], float) and
            _feq(o["mean_node_weight"], sum(w) / len(w), **tol)):
        out["weights"].append(("mean_node_weight", o["mean_node_weight"],
                               sum(w) / len(w)))
    want = sorted(sp["attrs"])
    if o["attr_names"] != want:
        out["attrs"].append(("attribute names", o["attr_names"], want))
    for nm in want:
        got = o["attrs"].get(nm)
        if got is None or isinstance(got, str) or \
                not _feq(got, sp["attrs"][nm]):
            out["attrs"].append(("link_attribute(%r)" % nm, got,
                                 sp["attrs"][nm]))
    return out


# ---------------------------------------------------------------------------
# vulnerability (Costa et al. 2007 as quoted by the docstrings):
# E(G) = 1/(N(N-1)) sum_{i != j} 1/d_ij ,  V_i = (E(G) - E(G - i)) / E(G)


def _dist(A, length=None):
    n = len(A)
    INF = float("inf")
    if n > 24:
        # same Floyd-Warshall recursion, one numpy row/column update per k
        Aa = np.asarray(A)
        D = np.where(Aa != 0, 1.0 if length is None else
                     np.asarray(length, dtype=float), INF)
        np.fill_diagonal(D, 0.0)
        for k in range(n):
            D = np.minimum(D, D[:, k, None] + D[None, k, :])
        return D.tolist()
    D = [[0.0 if i == j else
          ((length[i][j] if length is not None else 1.0) if A[i][j] else INF)
          for j in range(n)] for i in range(n)]
    for k in range(n):
        for i in range(n):
            for j in range(n):
                if D[i][k] + D[k][j] < D[i][j]:
                    D[i][j] = D[i][k] + D[k][j]
    return D


def efficiency(A, length=None):
    n = len(A)
    D = _dist(A, length)
    return sum(1.0 / D[i][j] for i in range(n) for j in range(n)
               if i != j and D[i][j] != float("inf")) / (n * (n - 1))


def vulnerability(A, length=None):
    n = len(A)
    E = efficiency(A, length)
    out = []
    for v in range(n):
        keep = [i for i in range(n) if i != v]
        B = [[A[i][j] for j in keep] for i in keep]
        Lb = None if length is None else \
            [[length[i][j] for j in keep] for i in keep]
        out.append((E - efficiency(B, Lb)) / E)
    return out
