"""By-definition evaluators of structural graph measures (C03 oracle).

Everything here works on a plain adjacency matrix ``A`` (list of lists of 0/1,
``A[i][j] == 1`` iff there is a link i -> j; symmetric for undirected graphs)
and, for the link-weighted variants, a matrix ``W`` of link attributes that is
non-zero exactly on the links.  Plain loops, BFS, explicit enumeration of all
shortest paths, `fractions.Fraction` wherever a tie or an exact ratio decides,
and numpy ``solve`` / ``eigh`` only for the linear systems of the random-walk
and spectral measures.  No code is shared with pyunicorn or igraph.

Conventions (each one is the documented one of pyunicorn.core.Network, read
off the docstring and reproduced on the docstring example by
``docstring_selftest``; the cited formula decides everything else):

* degree of a directed graph = in + out; bilateral degree = number of
  reciprocated links; strength = the same sums over the link attribute;
  bilateral strength = sum_j w_ij w_ji.
* local clustering = fraction of neighbour pairs that are linked, 0 for
  degree < 2; transitivity = closed triples / connected triples.
* motif clustering (Fagiolo 2007): cycle i->j->h->i, middleman h->i->j with
  h->j, in j->i<-h with j->h, out j<-i->h with j->h; denominators
  kin*kout-kbil, kin*kout-kbil, kin(kin-1), kout(kout-1); value 0 where the
  denominator vanishes; with a link attribute the numerator multiplies the
  cube roots of the three attributes.
* Holme's weighted clustering (W^3)_ii / (W Wmax W)_ii, Wmax = max(W)
  everywhere.
* local cliquishness of order o = fraction of (o-1)-subsets of the
  neighbourhood that are cliques, 0 for degree < o-1; transitivity of order o
  = o * #o-cliques / #(o-1)-stars.
* shortest paths follow link directions; average path length / diameter over
  the finite off-diagonal distances; global efficiency = mean of 1/d over all
  ordered pairs (1/inf = 0); closeness = (N-1) / sum of distances, defined
  for a node that reaches every other node; vulnerability (E - E_i) / E with
  E_i the efficiency after deleting node i.
* betweenness is unnormalised; every unordered (undirected) / ordered
  (directed) pair counted once, end points excluded; interregional
  betweenness counts ordered (source, target) pairs; link betweenness counts
  every unordered pair once and includes end links.
* Newman's random-walk betweenness is returned as N_c * b_i (N_c the size of
  the node's component, b_i Newman's 2005 eq. incl. the unit end terms);
  Arenas' betweenness is the expected number of arrivals (steps n >= 1) at a
  node summed over all sources and absorbing targets of its component.
* coreness uses the total degree (in + out) for directed graphs.
* assortativity = Pearson correlation of the degrees at the two ends of a
  link (Newman 2002), undirected graphs.
* PageRank with damping 0.85, normalised to sum 1; eigenvector centrality
  normalised to maximum 1.
* n.s.i. measures with unit node weights = the unweighted definition
  evaluated on A+ = A + identity (every node its own neighbour, distance of
  a node to itself 1) -- Heitzig et al. 2012.

``None`` marks "undefined here" (0/0, empty neighbourhood, unreachable ...);
the check excludes and counts those entries.
"""
from fractions import Fraction
from itertools import combinations
import math

import numpy as np

INF = float("inf")


# --------------------------------------------------------------------------
# basic structure


def und(A):
    n = len(A)
    return [[1 if (A[i][j] or A[j][i]) else 0 for j in range(n)]
            for i in range(n)]


def out_nb(A):
    n = len(A)
    return [[j for j in range(n) if A[i][j]] for i in range(n)]


def in_nb(A):
    n = len(A)
    return [[j for j in range(n) if A[j][i]] for i in range(n)]


def is_symmetric(A):
    n = len(A)
    return all(A[i][j] == A[j][i] for i in range(n) for j in range(i))


def has_reciprocal(A):
    n = len(A)
    return any(A[i][j] and A[j][i] for i in range(n) for j in range(i))


def n_links(A):
    return sum(sum(1 for x in row if x) for row in A)


def components(A):
    """Weakly connected components (sorted node lists, by smallest node)."""
    nb = out_nb(und(A))
    n = len(A)
    seen = [False] * n
    out = []
    for s in range(n):
        if seen[s]:
            continue
        comp, stack = [], [s]
        seen[s] = True
        while stack:
            v = stack.pop()
            comp.append(v)
            for w in nb[v]:
                if not seen[w]:
                    seen[w] = True
                    stack.append(w)
        out.append(sorted(comp))
    return out


def is_connected(A):
    return len(components(A)) == 1


def _reach(nb, s):
    seen = {s}
    stack = [s]
    while stack:
        v = stack.pop()
        for w in nb[v]:
            if w not in seen:
                seen.add(w)
                stack.append(w)
    return seen


def is_strongly_connected(A):
    n = len(A)
    return (len(_reach(out_nb(A), 0)) == n and
            len(_reach(in_nb(A), 0)) == n)


def remove_node(M, i):
    return [[M[a][b] for b in range(len(M)) if b != i]
            for a in range(len(M)) if a != i]


# --------------------------------------------------------------------------
# degrees and strengths


def outdegree(A, W=None):
    M = A if W is None else W
    return [sum(row) for row in M]


def indegree(A, W=None):
    M = A if W is None else W
    n = len(M)
    return [sum(M[j][i] for j in range(n)) for i in range(n)]


def degree(A, directed, W=None):
    o = outdegree(A, W)
    if not directed:
        return o
    i = indegree(A, W)
    return [a + b for a, b in zip(i, o)]


def bildegree(A, W=None):
    M = A if W is None else W
    n = len(M)
    return [sum(M[i][j] * M[j][i] for j in range(n)) for i in range(n)]


def degree_frequencies(k):
    """Relative frequency of every degree value from min(k) to max(k)."""
    lo, hi = min(k), max(k)
    return [sum(1 for x in k if x == d) / len(k) for d in range(lo, hi + 1)]


def degree_ccdf(k):
    """Fraction of nodes with degree >= d, d = min(k)..max(k)."""
    lo, hi = min(k), max(k)
    return [sum(1 for x in k if x >= d) / len(k) for d in range(lo, hi + 1)]


def laplacian(A, direction="out"):
    n = len(A)
    d = outdegree(A) if direction == "out" else indegree(A)
    return [[(d[i] if i == j else 0) - A[i][j] for j in range(n)]
            for i in range(n)]


def neighbors_degree(A, directed):
    """(average, maximum) total degree over the neighbours in the undirected
    sense; None for a node without neighbours."""
    k = degree(A, directed)
    nb = out_nb(und(A))
    avg, mx = [], []
    for i in range(len(A)):
        if not nb[i]:
            avg.append(None)
            mx.append(None)
        else:
            avg.append(sum(k[j] for j in nb[i]) / len(nb[i]))
            mx.append(max(k[j] for j in nb[i]))
    return avg, mx


def assortativity(A):
    """Pearson correlation of the end-point degrees over all links (both
    orientations).  None when undefined (no link or zero variance)."""
    n = len(A)
    k = outdegree(A)
    xs = [(k[i], k[j]) for i in range(n) for j in range(n) if A[i][j]]
    if not xs:
        return None
    m = len(xs)
    mean = Fraction(sum(x for x, _ in xs), m)
    var = Fraction(sum(x * x for x, _ in xs), m) - mean * mean
    if var == 0:
        return None
    cov = Fraction(sum(x * y for x, y in xs), m) - mean * mean
    return float(cov / var)


# --------------------------------------------------------------------------
# clustering, motifs, cliques


def local_clustering(A):
    U = und(A)
    nb = out_nb(U)
    out = []
    for i in range(len(A)):
        k = len(nb[i])
        if k < 2:
            out.append(0.0)
            continue
        links = sum(1 for a, b in combinations(nb[i], 2) if U[a][b])
        out.append(links / (k * (k - 1) / 2))
    return out


def transitivity(A):
    U = und(A)
    nb = out_nb(U)
    closed = triples = 0
    for i in range(len(A)):
        k = len(nb[i])
        triples += k * (k - 1) // 2
        closed += sum(1 for a, b in combinations(nb[i], 2) if U[a][b])
    if triples == 0:
        return None
    return closed / triples


MOTIFS = ("cycle", "mid", "in", "out")


def motif_clustering(A, kind, W=None, nodes=None):
    """Fagiolo's directed clustering coefficients by enumeration of ordered
    pairs (j, h) of other nodes."""
    n = len(A)
    kin, kout, kbil = indegree(A), outdegree(A), bildegree(A)
    if W is None:
        M = A
    else:
        M = [[(W[i][j] ** (1 / 3.) if A[i][j] else 0.0) for j in range(n)]
             for i in range(n)]
    onb, inb = out_nb(A), in_nb(A)
    res = []
    for i in (range(n) if nodes is None else nodes):
        t = 0
        if kind == "cycle":      # i -> j -> h -> i
            den = kin[i] * kout[i] - kbil[i]
            for j in onb[i]:
                for h in inb[i]:
                    if A[j][h]:
                        t += M[i][j] * M[j][h] * M[h][i]
        elif kind == "mid":      # h -> i -> j and h -> j
            den = kin[i] * kout[i] - kbil[i]
            for j in onb[i]:
                for h in inb[i]:
                    if A[h][j]:
                        t += M[h][i] * M[i][j] * M[h][j]
        elif kind == "in":       # j -> i <- h and j -> h
            den = kin[i] * (kin[i] - 1)
            for j in inb[i]:
                for h in inb[i]:
                    if A[j][h]:
                        t += M[j][i] * M[h][i] * M[j][h]
        elif kind == "out":      # j <- i -> h and j -> h
            den = kout[i] * (kout[i] - 1)
            for j in onb[i]:
                for h in onb[i]:
                    if A[j][h]:
                        t += M[i][j] * M[i][h] * M[j][h]
        else:
            raise ValueError(kind)
        res.append(t / den if den != 0 else 0.0)
    return res


def weighted_local_clustering(W):
    """Holme et al. 2007; None where the denominator vanishes."""
    n = len(W)
    wmax = max(max(row) for row in W)
    out = []
    for i in range(n):
        num = den = 0.0
        for j in range(n):
            for k in range(n):
                num += W[i][j] * W[j][k] * W[k][i]
                den += W[i][j] * wmax * W[k][i]
        out.append(num / den if den != 0 else None)
    return out


def count_cliques(U, cand, size):
    """Number of `size`-cliques of U inside the sorted candidate list."""
    if size == 0:
        return 1
    if size == 1:
        return len(cand)
    total = 0
    for idx, v in enumerate(cand):
        rest = [w for w in cand[idx + 1:] if U[v][w]]
        if len(rest) >= size - 1:
            total += count_cliques(U, rest, size - 1)
    return total


def local_cliquishness(A, order):
    U = und(A)
    nb = out_nb(U)
    out = []
    for i in range(len(A)):
        k = len(nb[i])
        if k < order - 1:
            out.append(0.0)
        else:
            out.append(count_cliques(U, nb[i], order - 1) /
                       math.comb(k, order - 1))
    return out


def higher_order_transitivity(A, order):
    """order * #cliques(order) / #stars(order); None without stars."""
    U = und(A)
    k = outdegree(U)
    stars = sum(math.comb(x, order - 1) for x in k)
    if stars == 0:
        return None
    return order * count_cliques(U, list(range(len(A))), order) / stars


# --------------------------------------------------------------------------
# shortest paths


def path_lengths(A, W=None):
    """Matrix of shortest path lengths following link directions (INF when
    unreachable).  Unweighted: BFS (ints).  Weighted: Floyd-Warshall in
    exact integer arithmetic (attribute values scaled by their common
    denominator), returned as floats."""
    n = len(A)
    if W is None:
        nb = out_nb(A)
        D = []
        for s in range(n):
            d = [INF] * n
            d[s] = 0
            frontier = [s]
            while frontier:
                nxt = []
                for v in frontier:
                    for w in nb[v]:
                        if d[w] == INF:
                            d[w] = d[v] + 1
                            nxt.append(w)
                frontier = nxt
            D.append(d)
        return D
    # exact arithmetic: scale the (binary) attribute values to integers
    fr = {(i, j): Fraction(W[i][j]) for i in range(n) for j in range(n)
          if A[i][j]}
    scale = 1
    for f in fr.values():
        scale = scale * f.denominator // math.gcd(scale, f.denominator)
    D = [[(0 if i == j else
           (int(fr[(i, j)] * scale) if A[i][j] else None)) for j in range(n)]
         for i in range(n)]
    for k in range(n):
        Dk = D[k]
        for i in range(n):
            dik = D[i][k]
            if dik is None:
                continue
            Di = D[i]
            for j in range(n):
                dkj = Dk[j]
                if dkj is None:
                    continue
                c = dik + dkj
                if Di[j] is None or c < Di[j]:
                    Di[j] = c
    return [[INF if x is None else float(Fraction(x, scale)) for x in row]
            for row in D]


def average_path_length(D):
    vals = [D[i][j] for i in range(len(D)) for j in range(len(D))
            if i != j and D[i][j] != INF]
    if not vals:
        return None
    return sum(vals) / len(vals)


def diameter(D):
    vals = [D[i][j] for i in range(len(D)) for j in range(len(D))
            if D[i][j] != INF]
    return max(vals)


def global_efficiency(D):
    n = len(D)
    if n < 2:
        return None
    s = sum(1.0 / D[i][j] for i in range(n) for j in range(n)
            if i != j and D[i][j] != INF and D[i][j] != 0)
    return s / (n * (n - 1))


def closeness(D):
    """(N-1) / sum_j d_ij for a node that reaches every other node."""
    n = len(D)
    out = []
    for i in range(n):
        row = [D[i][j] for j in range(n) if j != i]
        if not row or INF in row or sum(row) == 0:
            out.append(None)
        else:
            out.append((n - 1) / sum(row))
    return out


def local_vulnerability(A, W=None):
    """(E - E_i) / E, E_i = efficiency after deleting node i.  None when E
    is 0 or undefined or fewer than two nodes remain."""
    n = len(A)
    E = global_efficiency(path_lengths(A, W))
    out = []
    for i in range(n):
        if n < 3 or not E:
            out.append(None)
            continue
        Ai = remove_node(A, i)
        Wi = None if W is None else remove_node(W, i)
        Ei = global_efficiency(path_lengths(Ai, Wi))
        out.append((E - Ei) / E)
    return out


def _bfs_preds(nb, s):
    n = len(nb)
    dist = [-1] * n
    preds = [[] for _ in range(n)]
    dist[s] = 0
    frontier = [s]
    while frontier:
        nxt = []
        for v in frontier:
            for w in nb[v]:
                if dist[w] < 0:
                    dist[w] = dist[v] + 1
                    nxt.append(w)
                if dist[w] == dist[v] + 1:
                    preds[w].append(v)
        frontier = nxt
    return dist, preds


def shortest_paths(preds, s, t):
    """All shortest s-t paths (lists of nodes), by explicit enumeration."""
    if t == s:
        return [[s]]
    out = []
    for p in preds[t]:
        for path in shortest_paths(preds, s, p):
            out.append(path + [t])
    return out


def all_shortest_paths(A):
    """{(s, t): [paths]} for every ordered pair with a path, s != t."""
    nb = out_nb(A)
    n = len(A)
    res = {}
    for s in range(n):
        dist, preds = _bfs_preds(nb, s)
        for t in range(n):
            if t != s and dist[t] > 0:
                res[(s, t)] = shortest_paths(preds, s, t)
    return res


def betweenness(A, directed, paths=None):
    n = len(A)
    paths = all_shortest_paths(A) if paths is None else paths
    b = [Fraction(0)] * n
    for (s, t), plist in paths.items():
        if not directed and s > t:
            continue
        f = Fraction(1, len(plist))
        for p in plist:
            for v in p[1:-1]:
                b[v] += f
    return [float(x) for x in b]


def interregional_betweenness(A, sources, targets, paths=None):
    n = len(A)
    paths = all_shortest_paths(A) if paths is None else paths
    b = [Fraction(0)] * n
    for s in sorted(set(sources)):
        for t in sorted(set(targets)):
            if s == t or (s, t) not in paths:
                continue
            plist = paths[(s, t)]
            f = Fraction(1, len(plist))
            for p in plist:
                for v in p[1:-1]:
                    b[v] += f
    return [float(x) for x in b]


def link_betweenness(A, paths=None):
    """Undirected graphs: symmetric matrix, each unordered pair once."""
    n = len(A)
    paths = all_shortest_paths(A) if paths is None else paths
    B = [[Fraction(0)] * n for _ in range(n)]
    for (s, t), plist in paths.items():
        if s > t:
            continue
        f = Fraction(1, len(plist))
        for p in plist:
            for a, b in zip(p[:-1], p[1:]):
                B[a][b] += f
                B[b][a] += f
    return [[float(x) for x in row] for row in B]


# --------------------------------------------------------------------------
# random-walk betweenness (undirected graphs)


def newman_betweenness(A):
    """N_c * b_i with Newman's (2005) b_i = sum_{s<t} I_i^(st) / (N_c(N_c-1)/2),
    I_i^(st) = 1/2 sum_j A_ij |V_i - V_j| for i not in {s,t}, I_s = I_t = 1,
    V the potentials for a unit current from s to t (Kirchhoff), solved here
    with the target node grounded."""
    n = len(A)
    res = [0.0] * n
    for comp in components(A):
        m = len(comp)
        if m < 2:
            continue
        a = np.array([[A[i][j] for j in comp] for i in comp], dtype=float)
        L = np.diag(a.sum(axis=1)) - a
        edges = [(i, j) for i in range(m) for j in range(i + 1, m)
                 if a[i, j]]
        tot = np.zeros(m)
        for t in range(m):
            keep = [x for x in range(m) if x != t]
            T = np.zeros((m, m))
            T[np.ix_(keep, keep)] = np.linalg.solve(
                L[np.ix_(keep, keep)], np.eye(m - 1))
            # column s of T: potentials for unit current s -> t (V_t = 0)
            for s in range(t):
                V = T[:, s]
                flow = np.zeros(m)
                for (i, j) in edges:
                    c = abs(V[i] - V[j])
                    flow[i] += 0.5 * c
                    flow[j] += 0.5 * c
                flow[s] = flow[t] = 1.0
                tot += flow
        b = tot / (m * (m - 1) / 2.0)
        for idx, node in enumerate(comp):
            res[node] = float(m * b[idx])
    return res


def arenas_betweenness(A):
    """Sum over absorbing targets t and sources s != t of the expected number
    of arrivals (steps n >= 1) at node j of the simple random walk started
    at s and stopped at t; fundamental matrix of the absorbing chain."""
    n = len(A)
    res = [0.0] * n
    for comp in components(A):
        m = len(comp)
        if m < 2:
            continue
        a = np.array([[A[i][j] for j in comp] for i in comp], dtype=float)
        P = a / a.sum(axis=1)[:, None]
        tot = np.zeros(m)
        for t in range(m):
            tr = [x for x in range(m) if x != t]
            Q = P[np.ix_(tr, tr)]
            F = np.linalg.solve(np.eye(m - 1) - Q, np.eye(m - 1))
            visits = F - np.eye(m - 1)      # arrivals after the start
            tot[tr] += visits.sum(axis=0)
            tot[t] += m - 1                 # every walk ends at t once
        for idx, node in enumerate(comp):
            res[node] = float(tot[idx])
    return res


# --------------------------------------------------------------------------
# pairs, cores, spectra


def matching_index(A):
    """|N(i) & N(j)| / |N(i) | N(j)|, None for an empty union."""
    n = len(A)
    nb = [set(x) for x in out_nb(A)]
    return [[(len(nb[i] & nb[j]) / len(nb[i] | nb[j])
              if (nb[i] | nb[j]) else None) for j in range(n)]
            for i in range(n)]


def coreness(A, directed):
    """Largest k such that the node survives in the k-core (maximal subgraph
    of minimum total degree >= k)."""
    n = len(A)
    U = A
    core = [0] * n
    k = 1
    while True:
        alive = set(range(n))
        changed = True
        while changed:
            changed = False
            for v in list(alive):
                d = sum(U[v][w] for w in alive)
                if directed:
                    d += sum(U[w][v] for w in alive)
                if d < k:
                    alive.discard(v)
                    changed = True
        if not alive:
            return core
        for v in alive:
            core[v] = k
        k += 1


def eigenvector_centrality(A):
    """Perron vector of a connected undirected graph, maximum 1."""
    a = np.array(A, dtype=float)
    vals, vecs = np.linalg.eigh(a)
    v = vecs[:, int(np.argmax(vals))]
    v = v * (1.0 if v.sum() >= 0 else -1.0)
    return [float(x) for x in v / v.max()]


def spectral_gap(A):
    """lambda_1 - lambda_2 of a symmetric adjacency matrix."""
    vals = np.sort(np.linalg.eigvalsh(np.array(A, dtype=float)))
    return float(vals[-1] - vals[-2]) if len(vals) > 1 else float("inf")


def pagerank(A, W=None, damping=0.85):
    """Stationary vector of: with prob. `damping` follow an out-link
    (proportional to its attribute), else jump uniformly; nodes without
    out-links jump uniformly.  Sum 1."""
    n = len(A)
    M = np.array(A if W is None else W, dtype=float)
    out = M.sum(axis=1)
    G = np.zeros((n, n))
    for i in range(n):
        if out[i] > 0:
            G[:, i] = damping * M[i, :] / out[i] + (1 - damping) / n
        else:
            G[:, i] = 1.0 / n
    lhs = np.eye(n) - G
    lhs[-1, :] = 1.0
    rhs = np.zeros(n)
    rhs[-1] = 1.0
    return [float(x) for x in np.linalg.solve(lhs, rhs)]


# --------------------------------------------------------------------------
# n.s.i. measures with unit node weights: definitions evaluated on A+


def plus(A):
    n = len(A)
    return [[1 if (i == j or A[i][j]) else 0 for j in range(n)]
            for i in range(n)]


def nsi_neighbors_degree(A):
    P = plus(A)
    k = outdegree(P)
    nb = out_nb(P)
    avg = [sum(k[j] for j in nb[i]) / k[i] for i in range(len(A))]
    mx = [max(k[j] for j in nb[i]) for i in range(len(A))]
    return avg, mx


def nsi_local_clustering(A):
    """Fraction of ordered pairs (j, h) of N+(i) x N+(i) linked in A+."""
    P = plus(A)
    nb = out_nb(P)
    return [sum(1 for j in nb[i] for h in nb[i] if P[j][h]) / len(nb[i]) ** 2
            for i in range(len(A))]


def nsi_transitivity(A):
    P = plus(A)
    nb = out_nb(P)
    num = sum(1 for i in range(len(A)) for j in nb[i] for h in nb[i]
              if P[j][h])
    den = sum(len(x) ** 2 for x in nb)
    return num / den


def nsi_motif_clustering(A, kind):
    P = plus(A)
    n = len(A)
    onb, inb = out_nb(P), in_nb(P)
    res = []
    for i in range(n):
        if kind == "cycle":
            den = len(inb[i]) * len(onb[i])
            t = sum(1 for j in onb[i] for h in inb[i] if P[j][h])
        elif kind == "mid":
            den = len(inb[i]) * len(onb[i])
            t = sum(1 for j in onb[i] for h in inb[i] if P[h][j])
        elif kind == "in":
            den = len(inb[i]) ** 2
            t = sum(1 for j in inb[i] for h in inb[i] if P[j][h])
        else:
            den = len(onb[i]) ** 2
            t = sum(1 for j in onb[i] for h in onb[i] if P[j][h])
        res.append(t / den)
    return res


def nsi_distances(A):
    D = path_lengths(A)
    return [[1 if i == j else D[i][j] for j in range(len(A))]
            for i in range(len(A))]


def nsi_average_path_length(A):
    D = nsi_distances(A)
    vals = [x for row in D for x in row if x != INF]
    return sum(vals) / len(vals)


def nsi_closeness(A):
    D = nsi_distances(A)
    n = len(A)
    return [0.0 if INF in row else n / sum(row) for row in D]


def nsi_harmonic_closeness(A):
    D = nsi_distances(A)
    n = len(A)
    return [sum(0.0 if x == INF else 1.0 / x for x in row) / n for row in D]


def nsi_exponential_closeness(A):
    D = nsi_distances(A)
    n = len(A)
    return [sum(0.0 if x == INF else 2.0 ** (-x) for x in row) / n
            for row in D]


def nsi_global_efficiency(A):
    D = nsi_distances(A)
    n = len(A)
    return sum(0.0 if x == INF else 1.0 / x for row in D for x in row) / n ** 2


# --------------------------------------------------------------------------
# scale: vectorised evaluators (same definitions, dense numpy) and the
# n.s.i. measures with arbitrary node weights w
#
# n.s.i. definitions (Heitzig et al. 2012, reproduced on the docstring
# examples): every node is its own neighbour (A+), node j counts with weight
# w_j wherever the unweighted definition counts it once, d(i,i) = 1.


def np_path_lengths(A, W=None):
    """float matrix of shortest path lengths (inf = unreachable).  Unweighted:
    BFS over adjacency lists; weighted: vectorised Floyd-Warshall on the
    attribute values scaled to exact integers."""
    n = len(A)
    if W is None:
        return np.array(path_lengths(A), dtype=float)
    a = np.array(A, dtype=bool)
    scale = 1
    for i in range(n):
        for j in range(n):
            if A[i][j]:
                d = Fraction(W[i][j]).denominator
                scale = scale * d // math.gcd(scale, d)
    BIG = np.int64(1) << 60
    D = np.full((n, n), BIG, dtype=np.int64)
    Wi = np.rint(np.array(W, dtype=float) * scale).astype(np.int64)
    assert np.array_equal(Wi[a] / float(scale), np.array(W, dtype=float)[a])
    D[a] = Wi[a]
    D[np.arange(n), np.arange(n)] = 0
    for k in range(n):
        D = np.minimum(D, D[:, k:k + 1] + D[k:k + 1, :])
    out = D.astype(float) / scale
    out[D >= BIG] = INF
    return out


def np_sigma(A, w=None):
    """(D, S): BFS distances and S[s, t] = sum over shortest s-t paths of the
    product of the weights of the interior nodes (w = None: path counts)."""
    n = len(A)
    nb = out_nb(A)
    ww = [1.0] * n if w is None else [float(x) for x in w]
    D = np.full((n, n), INF)
    S = np.zeros((n, n))
    for s in range(n):
        dist = [-1] * n
        sig = [0.0] * n
        dist[s], sig[s] = 0, 1.0
        frontier = [s]
        while frontier:
            nxt = []
            for v in frontier:
                f = sig[v] * (1.0 if v == s else ww[v])
                for x in nb[v]:
                    if dist[x] < 0:
                        dist[x] = dist[v] + 1
                        nxt.append(x)
                    if dist[x] == dist[v] + 1:
                        sig[x] += f
            frontier = nxt
        for t in range(n):
            if dist[t] >= 0:
                D[s, t] = dist[t]
                S[s, t] = sig[t]
    return D, S


def np_betweenness(D, S, directed, sources=None, targets=None, w=None,
                   ordered=None):
    """sum over pairs (s, t), s != t, v not in {s, t}, of
    w_s w_t S[s,v] S[v,t] / S[s,t] where d(s,v) + d(v,t) = d(s,t).
    Pairs: sources x targets if given (ordered), else all ordered pairs
    (directed) or all unordered pairs (undirected) unless `ordered`."""
    n = len(D)
    ws = np.ones(n) if w is None else np.asarray(w, dtype=float)
    src = np.zeros(n)
    tgt = np.zeros(n)
    src[list(range(n)) if sources is None else sorted(set(sources))] = 1
    tgt[list(range(n)) if targets is None else sorted(set(targets))] = 1
    if ordered is None:
        ordered = directed or sources is not None or targets is not None
    pair = np.outer(src * ws, tgt * ws)
    np.fill_diagonal(pair, 0.0)
    reach = np.isfinite(D) & (S > 0)
    with np.errstate(divide="ignore", invalid="ignore"):
        base = np.where(reach, pair / np.where(reach, S, 1.0), 0.0)
    b = np.zeros(n)
    for v in range(n):
        on = (D[:, v:v + 1] + D[v:v + 1, :] == D) & reach
        on[v, :] = False
        on[:, v] = False
        contrib = np.outer(S[:, v], S[v, :])
        b[v] = (base * contrib)[on].sum()
    return b if ordered else b / 2.0


def np_link_betweenness(A, D, S):
    """Undirected: B[u,v] = sum over unordered pairs {s,t} of the fraction of
    shortest s-t paths that use the link u-v."""
    n = len(A)
    reach = np.isfinite(D) & (S > 0)
    np.fill_diagonal(reach, False)
    inv = np.where(reach, 1.0 / np.where(reach, S, 1.0), 0.0)
    B = np.zeros((n, n))
    for u in range(n):
        for v in range(u + 1, n):
            if not A[u][v]:
                continue
            tot = 0.0
            for (a, b) in ((u, v), (v, u)):
                on = (D[:, a:a + 1] + 1 + D[b:b + 1, :] == D) & reach
                tot += (inv * np.outer(S[:, a], S[b, :]))[on].sum()
            B[u, v] = B[v, u] = tot / 2.0
    return B


def np_weighted_local_clustering(W):
    w = np.array(W, dtype=float)
    num = np.einsum("ij,jk,ki->i", w, w, w)
    den = w.max() * w.sum(axis=1) * w.sum(axis=0)
    return [float(num[i] / den[i]) if den[i] != 0 else None
            for i in range(len(w))]


def np_matching_index(A):
    a = np.array(A, dtype=float)
    common = a @ a.T
    k = a.sum(axis=1)
    union = k[:, None] + k[None, :] - common
    return [[(float(common[i, j] / union[i, j]) if union[i, j] > 0 else None)
             for j in range(len(a))] for i in range(len(a))]


def nsi_w(A, w):
    """Dictionary of the degree / clustering type n.s.i. measures for node
    weights w (undirected and directed)."""
    P = np.array(plus(A), dtype=float)
    w = np.asarray(w, dtype=float)
    n = len(w)
    kout = P @ w
    kin = P.T @ w
    res = {"outdegree": kout, "indegree": kin,
           "bildegree": np.array([sum(P[i, j] * P[j, i] * w[j]
                                      for j in range(n)) for i in range(n)])}
    X = P * w[None, :]                       # X_ij = A+_ij w_j
    XT = P.T * w[None, :]                    # (A+^T)_ij w_j
    res["cycle"] = np.einsum("ij,ji->i", X @ X, P) / (kin * kout)
    res["mid"] = np.einsum("ij,ji->i", X @ XT, P) / (kin * kout)
    res["in"] = np.einsum("ij,ji->i", XT @ X, P) / kin ** 2
    res["out"] = np.einsum("ij,ji->i", X @ X, P.T) / kout ** 2
    if is_symmetric(A):
        k = kout
        res["degree"] = k
        res["average_neighbors_degree"] = (X @ k) / k
        res["max_neighbors_degree"] = np.array(
            [max(k[j] for j in range(n) if P[i, j]) for i in range(n)])
        res["local_clustering"] = res["cycle"] * 1.0
        res["transitivity"] = float(
            (w * np.einsum("ij,ji->i", X @ X, P)).sum() / (w * k * k).sum())
        res["laplacian"] = np.diag(k) - X
    else:
        res["degree"] = kin + kout
    return res


def nsi_w_paths(D, w):
    """n.s.i. distance measures from the matrix D of path lengths."""
    w = np.asarray(w, dtype=float)
    W = w.sum()
    Ds = np.array(D, dtype=float)
    np.fill_diagonal(Ds, 1.0)
    fin = np.isfinite(Ds)
    ww = np.outer(w, w)
    Dz = np.where(fin, Ds, 0.0)
    inv = np.where(fin, 1.0 / np.where(fin, Ds, 1.0), 0.0)
    ex = np.where(fin, 2.0 ** (-np.where(fin, Ds, 0.0)), 0.0)
    rows = Dz @ w
    return {
        "average_path_length": float((ww * Dz).sum() / ww[fin].sum()),
        "closeness": np.where(fin.all(axis=1), W / rows, 0.0),
        "harmonic_closeness": inv @ w / W,
        "exponential_closeness": ex @ w / W,
        "global_efficiency": float((ww * inv).sum() / W ** 2)}


def nsi_w_eigenvector_centrality(A, w):
    """Leading eigenvector of Dw^1/2 A+ Dw^1/2 divided by sqrt(w), max 1."""
    w = np.asarray(w, dtype=float)
    P = np.array(plus(A), dtype=float)
    r = np.sqrt(w)
    vals, vecs = np.linalg.eigh(r[:, None] * P * r[None, :])
    v = vecs[:, int(np.argmax(vals))] / r
    v = v * (1.0 if v.sum() >= 0 else -1.0)
    return v / v.max(), float(vals.max())


def _nsi_chain(a, ww):
    Ap = a + np.eye(len(a))
    k = Ap @ ww
    return Ap, k, Ap * ww[None, :] / k[:, None]


def nsi_w_arenas_betweenness(A, w, exclude_neighbors=True):
    """Random walk with step i -> j proportional to w_j over N+(i); for a
    target i the walk stops on reaching N+(i); value at j = sum over targets
    i and sources s (weights w_i w_s) of the expected number of arrivals at
    j, per unit weight of j; with exclude_neighbors only i, s outside
    N+(j)."""
    n = len(A)
    w = np.asarray(w, dtype=float)
    res = np.zeros(n)
    for comp in components(A):
        m = len(comp)
        if m < 2:
            continue
        a = np.array([[A[i][j] for j in comp] for i in comp], dtype=float)
        ww = w[comp]
        Ap, k, P = _nsi_chain(a, ww)
        tot = np.zeros(m)
        for i in range(m):
            ab = Ap[i] > 0
            tr = ~ab
            if not tr.any():
                continue
            Q = P[np.ix_(tr, tr)]
            F = np.linalg.solve(np.eye(int(tr.sum())) - Q,
                                np.eye(int(tr.sum())))
            contrib = np.zeros(m)
            contrib[tr] = ww[tr] @ (F - np.eye(int(tr.sum())))
            if not exclude_neighbors:
                contrib[ab] = ww[tr] @ (F @ P[np.ix_(tr, ab)])
            tot += ww[i] * contrib
        res[comp] = tot / ww
    return res


def nsi_w_newman_betweenness(A, w, add_local_ends=False):
    """Current-flow reading: conductance w_i w_j on every link; for a pair
    (s, t) a unit current enters with the one-step distribution of the n.s.i.
    walk from s and leaves with that from t; value at i = sum over pairs
    {s, t} outside N+(i) (weights w_s w_t) of sum_j w_j |phi_i - phi_j| over
    the neighbours j of i."""
    n = len(A)
    w = np.asarray(w, dtype=float)
    res = np.zeros(n)
    for comp in components(A):
        m = len(comp)
        ww = w[comp]
        if m < 2:
            if add_local_ends:
                res[comp[0]] = ww[0] ** 2
            continue
        a = np.array([[A[i][j] for j in comp] for i in comp], dtype=float)
        Ap, k, P = _nsi_chain(a, ww)
        C = a * np.outer(ww, ww)
        # potentials with node 0 grounded (the injected and extracted
        # currents of a pair cancel, so the gauge drops out of phi_i - phi_j)
        Lc = np.diag(C.sum(axis=1)) - C
        T = np.zeros((m, m))
        T[1:, 1:] = np.linalg.solve(Lc[1:, 1:], np.eye(m - 1))
        Phi = T @ P.T
        b = np.zeros(m)
        for i in range(m):
            idx = np.nonzero(Ap[i] == 0)[0]
            if len(idx) < 2:
                continue
            wpair = np.outer(ww[idx], ww[idx])
            for j in np.nonzero(a[i])[0]:
                dv = Phi[i, idx] - Phi[j, idx]
                b[i] += ww[j] * 0.5 * (
                    np.abs(dv[:, None] - dv[None, :]) * wpair).sum()
        if add_local_ends:
            b += (2.0 * ww.sum() - k) * k
        res[comp] = b
    return res


# --------------------------------------------------------------------------
# the docstring examples that fix the conventions


SMALL = [[0, 0, 0, 1, 1, 1], [0, 0, 1, 1, 1, 0], [0, 1, 0, 0, 1, 0],
         [1, 1, 0, 0, 0, 0], [1, 1, 1, 0, 0, 0], [1, 0, 0, 0, 0, 0]]
SMALL_DIRECTED = [[0, 1, 0, 1, 0, 0], [0, 0, 1, 0, 1, 0], [0, 0, 0, 0, 0, 0],
                  [0, 1, 0, 0, 0, 0], [1, 0, 1, 0, 0, 0], [1, 0, 0, 0, 0, 0]]
HOLME_W = [[0., 0., 0., 0.55, 0.65, 0.75], [0., 0., 0.63, 0.77, 0.91, 0.],
           [0., 0.63, 0., 0., 1.17, 0.], [0.55, 0.77, 0., 0., 0., 0.],
           [0.65, 0.91, 1.17, 0., 0., 0.], [0.75, 0., 0., 0., 0., 0.]]


def docstring_selftest():
    """The evaluators reproduce the numbers printed in the docstrings of
    pyunicorn.core.Network (4 decimals).  Raises AssertionError otherwise."""
    def close(a, b):
        a = [0.0 if x is None else x for x in np.ravel(a)]
        assert np.allclose(a, np.ravel(b), atol=6e-5, rtol=0), (a, b)
    S, SD = SMALL, SMALL_DIRECTED
    close(degree(S, False), [3, 3, 2, 2, 3, 1])
    close(indegree(SD), [2, 2, 2, 1, 1, 0])
    close(outdegree(SD), [2, 2, 0, 1, 2, 1])
    close(bildegree(SD), [0] * 6)
    close(degree_frequencies(degree(S, False)), [0.1667, 0.3333, 0.5])
    close(degree_ccdf(degree(S, False)), [1., 0.8333, 0.5])
    avg, mx = neighbors_degree(S, False)
    close(avg, [2., 2.3333, 3., 3., 2.6667, 3.])
    close(mx, [3] * 6)
    close(local_clustering(S), [0., 0.3333, 1., 0., 0.3333, 0.])
    close(transitivity(S), 0.2727)
    close(motif_clustering(SD, "cycle"), [0.25, 0.25, 0., 0., 0.5, 0.])
    close(motif_clustering(SD, "mid"), [0., 0., 0., 1., 0.5, 0.])
    close(motif_clustering(SD, "in"), [0., 0.5, 0.5, 0., 0., 0.])
    close(motif_clustering(SD, "out"), [0.5, 0.5, 0., 0., 0., 0.])
    close(weighted_local_clustering(HOLME_W),
          [0., 0.2149, 0.3539, 0., 0.1538, 0.])
    close(assortativity(S), -0.4737)
    D = path_lengths(S)
    close(D, [[0, 2, 2, 1, 1, 1], [2, 0, 1, 1, 1, 3], [2, 1, 0, 2, 1, 3],
              [1, 1, 2, 0, 2, 2], [1, 1, 1, 2, 0, 2], [1, 3, 3, 2, 2, 0]])
    close(average_path_length(D), 1.6667)
    close(diameter(D), 3)
    close(matching_index(S)[0], [1., 0.5, 0.25, 0., 0., 0.])
    close(link_betweenness(S)[0], [0., 0., 0., 3.5, 5.5, 5.])
    close(betweenness(S, False), [4.5, 1.5, 0., 1., 3., 0.])
    close(interregional_betweenness(S, [2], [3, 5]), [1., 1., 0., 0., 1., 0.])
    close(interregional_betweenness(S, range(6), range(6)),
          [9., 3., 0., 2., 6., 0.])
    close(eigenvector_centrality(S),
          [0.7895, 0.973, 0.7769, 0.6941, 1., 0.3109])
    close(pagerank(S), [0.2184, 0.2044, 0.1409, 0.1448, 0.2047, 0.0869])
    close(closeness(D), [0.7143, 0.625, 0.5556, 0.625, 0.7143, 0.4545])
    close(arenas_betweenness(S),
          [50.1818, 50.1818, 33.4545, 33.4545, 50.1818, 16.7273])
    close(newman_betweenness(S), [4.1818, 3.4182, 2.5091, 3.0182, 3.6, 2.])
    close(global_efficiency(D), 0.7111)
    close(local_vulnerability(S),
          [0.2969, 0.0625, -0.0313, -0.0078, 0.0977, -0.125])
    close(coreness(S, False), [2, 2, 2, 2, 2, 1])
    close(laplacian(S)[0], [3, 0, 0, -1, -1, -1])
    # vectorised and node-weighted evaluators
    w = [1.5, 1.7, 1.9, 2.1, 2.3, 2.5]
    Dn, Sn = np_sigma(S)
    close(np_betweenness(Dn, Sn, False), [4.5, 1.5, 0., 1., 3., 0.])
    close(np_link_betweenness(S, Dn, Sn)[0], [0., 0., 0., 3.5, 5.5, 5.])
    Dw_, Sw_ = np_sigma(S, w)
    close(np_betweenness(Dw_, Sw_, False, w=w, ordered=True),
          [29.6854, 7.7129, 0., 3.0909, 9.6996, 0.])
    close(np_betweenness(Dw_, Sw_, False, [2], [3, 5], w=w),
          [3.1667, 2.3471, 0., 0., 2.0652, 0.])
    r = nsi_w(S, w)
    close(r["degree"], [8.4, 8., 5.9, 5.3, 7.4, 4.])
    close(r["average_neighbors_degree"],
          [6.0417, 6.62, 7.0898, 7.0434, 7.3554, 5.65])
    close(r["max_neighbors_degree"], [8.4, 8., 8., 8.4, 8.4, 8.4])
    close(r["local_clustering"], [0.5513, 0.7244, 1., 0.8184, 0.8028, 1.])
    close(r["laplacian"][0], [6.9, 0., 0., -2.1, -2.3, -2.5])
    rd = nsi_w(SD, w)
    close(rd["indegree"], [6.3, 5.3, 5.9, 3.6, 4., 2.5])
    close(rd["outdegree"], [5.3, 5.9, 1.9, 3.8, 5.7, 4.])
    close(rd["cycle"], [0.1845, 0.2028, 0.322, 0.3224, 0.3439, 0.625])
    close(rd["mid"], [0.4537, 0.5165, 1., 1., 0.8882, 1.])
    close(rd["in"], [0.5288, 0.67, 0.6693, 0.7569, 0.7556, 1.])
    close(rd["out"], [0.67, 0.6693, 1., 0.7528, 0.5839, 0.7656])
    pw = nsi_w_paths(np_path_lengths(S), w)
    close(pw["average_path_length"], 1.6003)
    close(pw["closeness"], [0.7692, 0.6486, 0.5825, 0.6417, 0.7229, 0.5085])
    close(pw["harmonic_closeness"],
          [0.85, 0.7986, 0.7111, 0.7208, 0.8083, 0.6167])
    close(pw["exponential_closeness"],
          [0.425, 0.3906, 0.3469, 0.3604, 0.4042, 0.2958])
    close(pw["global_efficiency"], 0.7415)
    close(nsi_w_eigenvector_centrality(S, w)[0],
          [0.8045, 1., 0.8093, 0.6179, 0.9867, 0.2804])
    close(nsi_w_arenas_betweenness(S, w),
          [20.5814, 29.2103, 27.0075, 19.5434, 25.2849, 24.8483])
    close(nsi_w_arenas_betweenness(S, w, exclude_neighbors=False),
          [44.5351, 37.4058, 27.0075, 21.7736, 31.3256, 24.8483])
    close(nsi_w_newman_betweenness(S, w),
          [0.4048, 0., 0.8521, 3.3357, 1.3662, 0.])
    close(nsi_w_newman_betweenness(S, w, add_local_ends=True),
          [131.4448, 128., 107.6421, 102.4457, 124.2062, 80.])
    return True
