"""Reference statistics for similarity / coupling estimates (C10 oracle).

Everything here is computed from the time series by the textbook definition
(numpy.corrcoef, scipy.stats.spearmanr, regression residuals, explicit
histogram sums, brute-force neighbour counts); nothing is imported from
pyunicorn.  Whether a statistic is *defined* (non-constant series, |rho| < 1,
non-collinear conditions) is decided in exact rational arithmetic wherever the
inputs are small integers / dyadic numbers.

Window / lag conventions (read off the docstrings, re-established by probes):

CouplingAnalysis (compiled)
  entry (i, j, tau) is  stat( X^i_{t-tau}, X^j_t )  evaluated on
  t = tau_max .. T-1  (T - tau_max samples for every tau);  information
  transfer conditions on X^j_{t-1..t-past} ('ity') and additionally on
  X^i_{t-tau-1..t-tau-past} ('mit') with t = tau_max+past .. T-1.
  lag_mode 'max' reports value and tau at the largest absolute value.
  Binning: "equal-quantile binning" - the lower bin edges are every
  ceil(M/bins)-th order statistic of the M window samples, a sample belongs to
  the last bin whose lower edge is <= its value.  MI in nats.

CouplingAnalysisPurePython
  window of T - 2 tau_max samples, two-sided lags:  entry (t, i, j) is
  stat( X^i_s, X^j_{s+tau} ), tau = t - tau_max, s = tau_max .. T-tau_max-1;
  'max' reports max |.| and tau, 'sum' the sums of |.| over tau >= 0 and
  tau <= 0;  MI is "normalized": (H_x + H_y - H_xy) / log(bins) under the
  documented premise that the marginals are equiprobable.

Climate MI / Surrogates.test_mutual_information
  equal-width bins over the common range [min, max] of all series involved,
  last bin closed; MI in nats.
"""
import math
from fractions import Fraction as F

import numpy as np

NAN = float("nan")


# ---------------------------------------------------------------------------
# exact helpers

def fr(seq):
    return [v if isinstance(v, F) else F(float(v)) for v in seq]


def exact_anomaly(data, time_cycle):
    """Phase-mean anomalies (value minus the mean over all samples of the
    same phase t mod time_cycle) in rational arithmetic; list of rows."""
    T, N = len(data), len(data[0])
    out = [[None] * N for _ in range(T)]
    for ph in range(time_cycle):
        idx = list(range(ph, T, time_cycle))
        for i in range(N):
            col = fr([data[t][i] for t in idx])
            m = sum(col) / len(col)
            for t, v in zip(idx, col):
                out[t][i] = v - m
    return out


def is_const(seq):
    s = list(seq)
    return all(v == s[0] for v in s)


def exact_moments(x, y):
    """(n*Sxx - Sx^2, n*Syy - Sy^2, n*Sxy - Sx*Sy) as Fractions."""
    x, y = fr(x), fr(y)
    n = len(x)
    sx, sy = sum(x), sum(y)
    return (n * sum(a * a for a in x) - sx * sx,
            n * sum(b * b for b in y) - sy * sy,
            n * sum(a * b for a, b in zip(x, y)) - sx * sy)


def corr_status(x, y):
    """'undef' (a constant series), 'one' (|rho| = 1 exactly) or 'ok'."""
    if len(x) < 2 or is_const(x) or is_const(y):
        return "undef"
    if len(x) > 16:
        # exactness only matters next to |rho| = 1; long generic series are
        # classified numerically first (Fractions of 300 floats are slow)
        r = np.corrcoef(np.asarray(x, float), np.asarray(y, float))[0, 1]
        if np.isfinite(r) and 1.0 - abs(r) > 1e-6:
            return "ok"
    sxx, syy, sxy = exact_moments(x, y)
    if sxx == 0 or syy == 0:
        return "undef"
    return "one" if sxy * sxy == sxx * syy else "ok"


def exact_det(M):
    """Determinant of a square matrix of Fractions (Gaussian elimination)."""
    M = [row[:] for row in M]
    n = len(M)
    det = F(1)
    for c in range(n):
        p = next((r for r in range(c, n) if M[r][c] != 0), None)
        if p is None:
            return F(0)
        if p != c:
            M[c], M[p] = M[p], M[c]
            det = -det
        det *= M[c][c]
        for r in range(c + 1, n):
            f = M[r][c] / M[c][c]
            if f:
                for k in range(c, n):
                    M[r][k] -= f * M[c][k]
    return det


def exact_cov_singular(data):
    """True iff the sample covariance matrix of the columns of `data`
    (T x N, small integers / dyadic) is singular in exact arithmetic."""
    T, N = len(data), len(data[0])
    cols = [fr([data[t][i] for t in range(T)]) for i in range(N)]
    means = [sum(c) / T for c in cols]
    cen = [[v - m for v in c] for c, m in zip(cols, means)]
    C = [[sum(a * b for a, b in zip(cen[i], cen[j])) for j in range(N)]
         for i in range(N)]
    return exact_det(C) == 0


# ---------------------------------------------------------------------------
# Pearson / lagged cross-correlation

def pearson(x, y):
    """numpy.corrcoef, NaN where the coefficient is 0/0."""
    if corr_status(x, y) == "undef":
        return NAN
    return float(np.corrcoef(np.asarray(x, float), np.asarray(y, float))[0, 1])


def cc_lagfunc(data, tau_max):
    """L[i, j, tau] = corr( x_i(t - tau), x_j(t) ), t = tau_max..T-1."""
    data = np.asarray(data, float)
    T, N = data.shape
    L = np.full((N, N, tau_max + 1), NAN)
    for i in range(N):
        for j in range(N):
            for tau in range(tau_max + 1):
                L[i, j, tau] = pearson(data[tau_max - tau:T - tau, i],
                                       data[tau_max:T, j])
    return L


def window_rows(data, spec, max_lag):
    """Rows x_var(t + lag), t = max_lag..T-1, for spec = [(var, lag<=0)]."""
    data = np.asarray(data, float)
    T = data.shape[0]
    return [data[max_lag + lag:T + lag, var].copy() for (var, lag) in spec]


def check_absmax(value, lag, func, tol, use_abs=True):
    """Is (value, lag) a correct 'value and lag at the (absolute) maximum' of
    the lag function `func` (dict lag -> float)?  Ties within `tol` leave the
    lag open.  Returns None if fine, else a message."""
    if lag not in func:
        return "lag %r is not in the scanned range" % (lag,)
    key = (lambda v: abs(v)) if use_abs else (lambda v: v)
    best = max(key(v) for v in func.values())
    if abs(func[lag] - value) > tol:
        return "value %r is not the lag function at the reported lag (%r)" % (
            value, func[lag])
    if key(func[lag]) < best - tol:
        return "reported lag is not at the maximum (%r < %r)" % (
            key(func[lag]), best)
    return None


def symmetrize_by_absmax(S, L, tol=0.0):
    """Two-line definition: each pair (i,j),(j,i) takes the entry of larger
    absolute value, the mirrored entry gets the negated lag.  Returns per pair
    i<j the list of admissible (S_ij, S_ji, L_ij, L_ji) (two under a tie)."""
    n = len(S)
    out = {}
    for i in range(n):
        for j in range(i + 1, n):
            a, b = S[i][j], S[j][i]
            opts = []
            if abs(a) >= abs(b) - tol:
                opts.append((a, a, L[i][j], -L[i][j]))
            if abs(b) >= abs(a) - tol:
                opts.append((b, b, -L[j][i], L[j][i]))
            out[(i, j)] = opts
    return out


# ---------------------------------------------------------------------------
# Spearman, partial correlation

def spearman(x, y):
    from scipy import stats
    if is_const(x) or is_const(y):
        return NAN
    return float(stats.spearmanr(np.asarray(x, float),
                                 np.asarray(y, float))[0])


def ordinal_ranks(x):
    """Ranks 0..n-1, ties broken by position (what a stable argsort gives)."""
    order = sorted(range(len(x)), key=lambda k: (x[k], k))
    r = [0] * len(x)
    for rank, k in enumerate(order):
        r[k] = rank
    return r


def has_ties(x):
    return len(set(float(v) for v in x)) < len(x)


def residual(v, Z):
    """Least-squares residual of v on the columns of Z plus an intercept."""
    v = np.asarray(v, float)
    A = np.column_stack([np.ones(len(v))] + [np.asarray(z, float) for z in Z])
    coef = np.linalg.lstsq(A, v, rcond=None)[0]
    return v - A @ coef


def partial_corr(x, y, Z):
    """Correlation of the regression residuals of x and y on Z (+const)."""
    rx, ry = residual(x, Z), residual(y, Z)
    den = math.sqrt(float(rx @ rx) * float(ry @ ry))
    if den == 0:
        return NAN
    return float(rx @ ry) / den


def exact_partial_status(x, y, Z):
    """Exact classification of the partial correlation of x, y given Z:
    'undef' (a constant row, collinear conditions or a zero residual), 'one'
    (|rho| = 1) or 'ok'.  Gram-Schmidt in Fractions."""
    rows = [fr(r) for r in [x, y] + list(Z)]
    n = len(rows[0])
    cen = []
    for r in rows:
        m = sum(r) / n
        c = [v - m for v in r]
        if all(v == 0 for v in c):
            return "undef"
        cen.append(c)

    def dot(a, b):
        return sum(p * q for p, q in zip(a, b))
    basis = []
    for z in cen[2:]:
        r = z[:]
        for b in basis:
            f = dot(r, b) / dot(b, b)
            r = [p - f * q for p, q in zip(r, b)]
        if all(v == 0 for v in r):
            return "undef"
        basis.append(r)
    res = []
    for v in cen[:2]:
        r = v[:]
        for b in basis:
            f = dot(r, b) / dot(b, b)
            r = [p - f * q for p, q in zip(r, b)]
        if all(p == 0 for p in r):
            return "undef"
        res.append(r)
    sxy = dot(res[0], res[1])
    return "one" if sxy * sxy == dot(res[0], res[0]) * dot(res[1], res[1]) \
        else "ok"


def numeric_partial_status(x, y, Z, eps=1e-8):
    """The same classification for generic float data (scale-free
    thresholds)."""
    rows = [np.asarray(r, float) for r in [x, y] + list(Z)]
    if any(is_const(r) for r in rows):
        return "undef"
    std = [(r - r.mean()) / r.std() for r in rows]
    if len(std) > 2:
        Zc = np.column_stack(std[2:])
        if np.linalg.svd(Zc, compute_uv=False).min() < eps * math.sqrt(
                len(std[0])):
            return "undef"
    rx, ry = residual(std[0], std[2:]), residual(std[1], std[2:])
    n = len(rx)
    if rx @ rx < eps * n or ry @ ry < eps * n:
        return "undef"
    rho = float(rx @ ry) / math.sqrt(float(rx @ rx) * float(ry @ ry))
    return "one" if 1 - abs(rho) < eps else "ok"


def gauss_mi(rho):
    """-1/2 log(1 - rho^2)."""
    return -0.5 * math.log(1.0 - rho * rho)


def it_spec(i, j, tau, past, cond_mode):
    """Variables of the (conditional) information transfer i -> j at lag tau:
    X, Y and the condition set Z as (variable, lag) pairs."""
    X = (i, -tau)
    Y = (j, 0)
    Z = [(j, -p) for p in range(1, past + 1)]
    if cond_mode == "mit":
        Z += [(i, -tau - p) for p in range(1, past + 1)]
    return X, Y, Z


# ---------------------------------------------------------------------------
# histogram mutual information

def mi_from_symbols(a, b):
    """sum_ab p_ab log( p_ab / (p_a p_b) ), natural logarithm."""
    n = len(a)
    ca, cb, cab = {}, {}, {}
    for u, v in zip(a, b):
        ca[u] = ca.get(u, 0) + 1
        cb[v] = cb.get(v, 0) + 1
        cab[(u, v)] = cab.get((u, v), 0) + 1
    mi = 0.0
    for (u, v), c in cab.items():
        mi += (c / n) * math.log(c * n / (ca[u] * cb[v]))
    return mi


def entropy_from_symbols(a):
    n = len(a)
    c = {}
    for u in a:
        c[u] = c.get(u, 0) + 1
    return -sum((k / n) * math.log(k / n) for k in c.values())


def quantile_symbols(x, bins):
    """Equal-quantile binning: lower edges = every ceil(M/bins)-th order
    statistic; symbol = index of the last edge <= value."""
    x = [float(v) for v in x]
    M = len(x)
    step = -(-M // bins)
    s = sorted(x)
    edges = s[0::step]
    return [sum(1 for e in edges if e <= v) - 1 for v in x], len(edges)


def binned_mi_lagfunc(data, tau_max, bins):
    data = np.asarray(data, float)
    T, N = data.shape
    L = np.zeros((N, N, tau_max + 1))
    for i in range(N):
        for j in range(N):
            for tau in range(tau_max + 1):
                a, _ = quantile_symbols(data[tau_max - tau:T - tau, i], bins)
                b, _ = quantile_symbols(data[tau_max:T, j], bins)
                L[i, j, tau] = mi_from_symbols(a, b)
    return L


def uniform_symbols(values, lo, hi, nbins, tol=1e-4):
    """Equal-width bins on [lo, hi] (last bin closed).  Returns (symbols,
    ambiguous) where ambiguous lists the indices whose bin depends on
    rounding (value within tol bins of an inner bin boundary)."""
    sym, amb = [], []
    for k, v in enumerate(values):
        r = (float(v) - lo) / (hi - lo)
        if r >= 1.0:
            sym.append(nbins - 1)
            if r * nbins - nbins < 0:   # cannot happen; kept for clarity
                amb.append(k)
            continue
        p = r * nbins
        s = int(math.floor(p))
        sym.append(min(max(s, 0), nbins - 1))
        if abs(p - round(p)) < tol and 0 < round(p):
            amb.append(k)
        elif 1.0 - r < tol / nbins:
            amb.append(k)
    return sym, amb


def partition_safe(values, sym, amb, lo, hi, nbins):
    """An ambiguous sample is harmless if no *different* value of the same
    series occupies one of its two candidate bins."""
    for k in amb:
        p = (float(values[k]) - lo) / (hi - lo) * nbins
        cand = {int(round(p)) - 1, int(round(p))}
        cand = {min(max(c, 0), nbins - 1) for c in cand}
        for m, v in enumerate(values):
            if m != k and float(v) != float(values[k]) and sym[m] in cand:
                return False
    return True


def canonical(sym, values):
    """Relabel so that samples with equal value share a label even if the
    bin number of an (harmless) ambiguous sample is off by one."""
    lab = {}
    out = []
    for s, v in zip(sym, values):
        out.append(lab.setdefault(float(v), s))
    return out


def exact_uniform_symbols(values, lo, hi, nbins):
    """The same rule in rational arithmetic (for dyadic data, where the
    single/double precision computation is exact as well)."""
    lo, hi = F(lo), F(hi)
    out = []
    for v in values:
        r = (F(float(v)) - lo) / (hi - lo)
        out.append(nbins - 1 if r >= 1 else int(r * nbins))
    return out


def uniform_mi_matrix(rows_a, rows_b, nbins, exact=False, tol=1e-4):
    """MI[i, j] between series rows_a[i] and rows_b[j], equal-width bins over
    the common range.  Returns (matrix, ok) - ok False when some bin
    assignment depends on rounding in a way that changes a partition, or the
    range is degenerate.  exact=True: dyadic data, no rounding anywhere."""
    allv = [float(v) for r in list(rows_a) + list(rows_b) for v in r]
    lo, hi = min(allv), max(allv)
    if not hi > lo or any(v != v for v in allv):
        return None, False
    sa, sb = [], []
    for rows, out in ((rows_a, sa), (rows_b, sb)):
        for r in rows:
            if exact:
                out.append(exact_uniform_symbols(r, lo, hi, nbins))
                continue
            sym, amb = uniform_symbols(r, lo, hi, nbins, tol)
            if amb and not partition_safe(r, sym, amb, lo, hi, nbins):
                return None, False
            out.append(canonical(sym, r) if amb else sym)
    M = np.zeros((len(sa), len(sb)))
    for i, a in enumerate(sa):
        for j, b in enumerate(sb):
            M[i, j] = mi_from_symbols(a, b)
    return M, True


# ---------------------------------------------------------------------------
# k-nearest-neighbour (Kraskov / Frenzel-Pompe) estimator, brute force

def standardize32(rows):
    """The samples as the estimator sees them: single precision, zero mean,
    unit variance per row."""
    a = np.array(rows, dtype=np.float64).astype(np.float32)
    dim = a.shape[0]
    a -= a.mean(axis=1).reshape(dim, 1)
    a /= a.std(axis=1).reshape(dim, 1)
    return a


def knn_counts(a32, k, dim_x=1, dim_y=1):
    """For every sample: eps = max-norm distance to its k-th nearest neighbour
    in the joint space; numbers of samples (itself included) strictly closer
    than eps in the (X,Z), (Y,Z) and Z subspaces.  Differences are taken in
    single precision like the stored samples."""
    a32 = np.asarray(a32, dtype=np.float32)
    dim, M = a32.shape
    kxz, kyz, kz = [], [], []
    for i in range(M):
        d = np.abs(a32 - a32[:, i:i + 1]).astype(np.float64)   # (dim, M)
        joint = d.max(axis=0)
        eps = float(np.sort(joint)[k])          # index 0 is the point itself
        dx = d[:dim_x].max(axis=0)
        dy = d[dim_x:dim_x + dim_y].max(axis=0)
        dz = d[dim_x + dim_y:].max(axis=0) if dim > dim_x + dim_y \
            else np.zeros(M)
        inz = dz < eps
        kz.append(int(inz.sum()))
        kxz.append(int((inz & (dx < eps)).sum()))
        kyz.append(int((inz & (dy < eps)).sum()))
    return np.array(kxz), np.array(kyz), np.array(kz)


def knn_cmi(a32, k):
    from scipy.special import digamma
    kxz, kyz, kz = knn_counts(a32, k)
    if (kxz <= 0).any() or (kyz <= 0).any() or (kz <= 0).any():
        return NAN
    return float(digamma(k) + (digamma(kz) - digamma(kxz)
                               - digamma(kyz)).mean())


# ---------------------------------------------------------------------------
# pure-Python class conventions

def pp_cc_lagfunc(data, tau_max):
    """C[t, i, j] = corr( x_i(s), x_j(s + t - tau_max) ) on the inner window
    of T - 2 tau_max samples."""
    data = np.asarray(data, float)
    T, N = data.shape
    M = T - 2 * tau_max
    C = np.full((2 * tau_max + 1, N, N), NAN)
    for t in range(2 * tau_max + 1):
        for i in range(N):
            for j in range(N):
                C[t, i, j] = pearson(data[tau_max:tau_max + M, i],
                                     data[t:t + M, j])
    return C


def pp_mi_lagfunc(data, tau_max, bins):
    """Normalised MI of the pure-Python class; NaN where its premise
    (equiprobable marginal bins) does not hold or log(bins) = 0."""
    data = np.asarray(data, float)
    T, N = data.shape
    M = T - 2 * tau_max
    C = np.full((2 * tau_max + 1, N, N), NAN)
    for t in range(2 * tau_max + 1):
        for i in range(N):
            for j in range(N):
                a, ba = quantile_symbols(data[tau_max:tau_max + M, i], bins)
                b, bb = quantile_symbols(data[t:t + M, j], bins)
                if ba != bb or ba < 2:
                    continue
                if not (_uniform(a, ba) and _uniform(b, bb)):
                    continue
                C[t, i, j] = mi_from_symbols(a, b) / math.log(ba)
    return C


def _uniform(sym, b):
    c = {}
    for s in sym:
        c[s] = c.get(s, 0) + 1
    return len(c) == b and len(set(c.values())) == 1


# ---------------------------------------------------------------------------
# vectorised variants for long series (same definitions; cross-checked
# against the loop versions by the scale family of the check)

def quantile_symbols_np(x, bins):
    x = np.asarray(x, float)
    M = len(x)
    step = -(-M // bins)
    edges = np.sort(x)[::step]
    return np.searchsorted(edges, x, side="right") - 1, len(edges)


def mi_from_symbols_np(a, b):
    a, b = np.asarray(a), np.asarray(b)
    n = len(a)
    ua, ia = np.unique(a, return_inverse=True)
    ub, ib = np.unique(b, return_inverse=True)
    joint = np.zeros((len(ua), len(ub)))
    np.add.at(joint, (ia, ib), 1.0)
    pa, pb = joint.sum(axis=1), joint.sum(axis=0)
    nz = joint > 0
    return float((joint[nz] / n * np.log(
        joint[nz] * n / np.outer(pa, pb)[nz])).sum())


def binned_mi_lagfunc_np(data, tau_max, bins):
    data = np.asarray(data, float)
    T, N = data.shape
    M = T - tau_max
    sym = {(i, s): quantile_symbols_np(data[s:s + M, i], bins)[0]
           for i in range(N) for s in range(tau_max + 1)}
    L = np.zeros((N, N, tau_max + 1))
    for i in range(N):
        for j in range(N):
            for tau in range(tau_max + 1):
                L[i, j, tau] = mi_from_symbols_np(sym[(i, tau_max - tau)],
                                                  sym[(j, tau_max)])
    return L


def pp_mi_lagfunc_np(data, tau_max, bins):
    data = np.asarray(data, float)
    T, N = data.shape
    M = T - 2 * tau_max
    sym = {}
    for i in range(N):
        for s in range(2 * tau_max + 1):
            a, b = quantile_symbols_np(data[s:s + M, i], bins)
            cnt = np.bincount(a, minlength=b)
            ok = b >= 2 and len(cnt) == b and cnt.min() == cnt.max()
            sym[(i, s)] = (a, b, ok)
    C = np.full((2 * tau_max + 1, N, N), NAN)
    for t in range(2 * tau_max + 1):
        for i in range(N):
            a, ba, oka = sym[(i, tau_max)]
            for j in range(N):
                b, bb, okb = sym[(j, t)]
                if oka and okb and ba == bb:
                    C[t, i, j] = mi_from_symbols_np(a, b) / math.log(ba)
    return C
