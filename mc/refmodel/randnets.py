"""Reference model and random-source stand-ins for C17 (random network models
and rewirings).  Nothing in here imports pyunicorn.

Stand-ins (each draw = one choice point of a `mc.choice.ChoiceRun`, option 0 =
the seeded generator's own answer):

  KernelRd      what the core extension sees as its module global `rd`
                (numpy.random): `rd.random()` in the geomodel kernel, used as
                `floor(rd.random()*E)` -> menu "every edge index"
  make_randint  the extension's module global `randint(k)` (cross-link
                kernels) -> menu "every index below k"
  NetRandom     `random` (= numpy.random) as seen by network.py
                (`uniform(low=0, high=n)` in BarabasiAlbert -> every index),
                spatial_network.py (`random(shape)` -> per element menu) and
                interacting_networks.py (`random()` -> quarter menu)
  SafeIgraphRNG mc.choice.IgraphRNG made safe against igraph swallowing the
                Horizon exception (igraph falls back to libc rand() when the
                Python generator raises): after the horizon it answers with
                the seeded defaults, records nothing and marks the run as cut

Invariant evaluators are plain loops over adjacency matrices.
"""
import math
import random as _pyrandom

import numpy as np

from ..choice import ChoiceRun, Horizon
from .surrogates import (SeamError, drive, selftest_replay, fallthrough,
                         seeded_state,
                         unmodelled_snapshot, unmodelled_stats,
                         unmodelled_names)

__all__ = ["SeamError", "drive", "selftest_replay", "unmodelled_snapshot",
           "unmodelled_stats", "unmodelled_names"]

REAL_MENU = [0.0, 0.25, 0.5, 0.75, 0.999]
BITS_M = 8
BITS_MENU = [int((k + 0.5) * (1 << 32) / BITS_M) for k in range(BITS_M)]


# ---------------------------------------------------------------------------
# stand-ins


class KernelRd:
    def __init__(self, cr, seed, E):
        self.cr, self.E = cr, int(E)
        self._d = seeded_state(seed)

    def random(self, *a, **k):
        if a or k:
            return fallthrough("numpy.random", "random_sample", self._d)(
                *a, **k)
        d = float(self._d.random_sample())
        c = self.cr.choose(1 + max(self.E, 1), "edge")
        return d if c == 0 else (c - 1 + 0.5) / max(self.E, 1)

    def __getattr__(self, name):
        return fallthrough("numpy.random", name, self._d)


def make_randint(cr, seed):
    d = seeded_state(seed)

    def randint(k, *a, **kw):
        if a or kw:
            return fallthrough("numpy.random", "randint", d)(k, *a, **kw)
        k = int(k)
        if k <= 0:
            raise ValueError("low >= high")       # what numpy does
        dv = int(d.randint(k))
        c = cr.choose(1 + k, "idx")
        return dv if c == 0 else c - 1
    return randint


class NetRandom:
    def __init__(self, cr, seed, idx_span=256):
        self.cr = cr
        self._d = seeded_state(seed)
        self.idx_span = idx_span     # widest range answered by "every index"

    def uniform(self, low=0.0, high=1.0, size=None):
        if size is not None:
            return fallthrough("numpy.random", "uniform", self._d)(
                low, high, size)
        d = float(self._d.uniform(low, high))
        span = high - low
        if span == int(span) and 1 <= span <= self.idx_span:
            c = self.cr.choose(1 + int(span), "uidx")
            return d if c == 0 else low + (c - 1) + 0.5
        c = self.cr.choose(1 + len(REAL_MENU), "ureal")
        return d if c == 0 else low + span * REAL_MENU[c - 1]

    def random(self, size=None):
        if size is None:
            d = float(self._d.random_sample())
            c = self.cr.choose(1 + len(REAL_MENU), "real")
            return d if c == 0 else REAL_MENU[c - 1]
        d = np.array(self._d.random_sample(size), dtype=float)
        flat = d.reshape(-1)
        for i in range(flat.size):
            c = self.cr.choose(1 + len(REAL_MENU), "cell")
            if c:
                flat[i] = REAL_MENU[c - 1]
        return flat.reshape(d.shape)

    def __getattr__(self, name):
        return fallthrough("numpy.random", name, self._d)


class SafeIgraphRNG:
    """Same protocol as mc.choice.IgraphRNG (option 0 = the seeded default
    generator's own answer), but never raises into igraph."""

    def __init__(self, cr, seed):
        self._d = _pyrandom.Random(seed)
        self.cr = cr
        self.cut = False

    def _choose(self, n, label):
        if self.cut:
            return 0
        try:
            return self.cr.choose(n, label)
        except Horizon:
            self.cut = True
            return 0

    def getrandbits(self, k):
        d = self._d.getrandbits(k)
        c = self._choose(1 + BITS_M, "bits")
        return d if c == 0 else BITS_MENU[c - 1] & ((1 << k) - 1)

    def random(self):
        d = self._d.random()
        c = self._choose(1 + len(REAL_MENU), "real")
        return d if c == 0 else REAL_MENU[c - 1]

    def randint(self, a, b):
        d = self._d.randint(a, b)
        if b - a + 1 > 64:
            return d
        c = self._choose(1 + (b - a + 1), "int")
        return d if c == 0 else a + c - 1

    def gauss(self, mu, sigma):
        return self._d.gauss(mu, sigma)

    def __getattr__(self, name):
        return fallthrough("igraph-rng", name, self._d)


class igraph_rng:
    """Context manager installing a SafeIgraphRNG; on exit the default
    generator (Python's `random` module) is put back and Horizon is raised if
    the run went beyond the horizon."""

    def __init__(self, cr, seed):
        self.rng = SafeIgraphRNG(cr, seed)

    def __enter__(self):
        import igraph
        igraph.set_random_number_generator(self.rng)
        return self.rng

    def __exit__(self, et, ev, tb):
        import igraph
        igraph.set_random_number_generator(_pyrandom)
        if et is None and self.rng.cut:
            raise Horizon()
        return False


# ---------------------------------------------------------------------------
# choosing the deviation bound of a case


def default_is_cut(run_fn, horizon):
    """Does the all-default execution run into the horizon?"""
    try:
        run_fn(ChoiceRun([], horizon))
    except Horizon:
        return True
    return False


def deepen(run_fn, judge, sig_of, horizon, bmax, budget):
    """Iterative deepening over the deviation bound: run the complete DFS for
    b = 1, 2, ... while the size of the next level (known exactly from the
    menus of the executions with b deviations) stays within `budget`
    executions.  Returns (b, result of the deepest complete DFS)."""
    b = 1
    r = drive(run_fn, judge, sig_of, 1, horizon)
    while b < bmax and r["states"] + r["next_level"] <= budget:
        b += 1
        r = drive(run_fn, judge, sig_of, b, horizon)
    return b, r


def geo_swap_admissible(A, D, eps, model, deg, edges):
    """Does the documented rewiring step of geographical model I/II/III have
    any admissible pair of links (s,t), (k,l) in the stored orientations?
    (new links s-l and t-k; old links disjoint, new links absent, length
    conditions C1 resp. C2 strictly within eps, model III equal degrees)"""
    eps = float(np.float32(eps))
    for (s, t) in edges:
        for (k, l) in edges:
            if len({s, t, k, l}) < 4 or A[s][l] or A[t][k]:
                continue
            d = lambda a, b: float(D[a][b])     # noqa: E731
            c1 = ((abs(d(s, t) - d(k, t)) < eps and
                   abs(d(k, l) - d(s, l)) < eps) or
                  (abs(d(s, t) - d(s, l)) < eps and
                   abs(d(k, l) - d(k, t)) < eps))
            c2 = (abs(d(s, t) - d(s, l)) < eps and
                  abs(d(t, s) - d(t, k)) < eps and
                  abs(d(k, l) - d(k, t)) < eps and
                  abs(d(l, k) - d(l, s)) < eps)
            if model == "I" and c1:
                return True
            if model == "II" and c2:
                return True
            if model == "III" and c2 and deg[s] == deg[k] and \
                    deg[t] == deg[l]:
                return True
    return False


def cross_swap_admissible(X):
    """Is there a pair of cross links (a,b), (c,d) with neither (a,d) nor
    (c,b) linked?"""
    ones = [(i, j) for i, r in enumerate(X) for j, v in enumerate(r) if v]
    return any(not (X[a][d] or X[c][b]) for (a, b) in ones for (c, d) in ones)


# ---------------------------------------------------------------------------
# invariants


def simple_defect(A, n=None):
    """None if A is the adjacency matrix of a simple undirected graph (square,
    symmetric, entries 0/1, empty diagonal) on n nodes."""
    A = np.asarray(A)
    if A.ndim != 2 or A.shape[0] != A.shape[1]:
        return "not square: shape %s" % (A.shape,)
    if n is not None and A.shape[0] != n:
        return "%d nodes instead of %d" % (A.shape[0], n)
    if not (np.any(np.diagonal(A)) or np.any(A != A.T) or
            np.any((A != 0) & (A != 1))):
        return None
    for i in range(A.shape[0]):
        if A[i, i] != 0:
            return "self-loop at node %d" % i
        for j in range(A.shape[0]):
            if A[i, j] not in (0, 1):
                return "entry %r at (%d,%d)" % (A[i, j].item(), i, j)
            if A[i, j] != A[j, i]:
                return "asymmetric at (%d,%d)" % (i, j)
    raise AssertionError("simple_defect: vector and loop tests disagree")


def n_links_of(A):
    return int(np.triu(np.asarray(A) != 0, 1).sum())


def degrees(A):
    return [int(sum(int(v) for v in row)) for row in np.asarray(A)]


def links(A):
    A = np.asarray(A)
    n = len(A)
    return [(i, j) for i in range(n) for j in range(i + 1, n) if A[i, j]]


def link_lengths(A, D):
    return sorted(float(D[i][j]) for (i, j) in links(A))


def node_link_lengths(A, D, v):
    A = np.asarray(A)
    return sorted(float(D[v][j]) for j in range(len(A)) if A[v, j])


def max_sorted_drift(a, b):
    if len(a) != len(b):
        return math.inf
    return max([abs(x - y) for x, y in zip(a, b)] or [0.0])


def degree_pairs(A, deg=None):
    deg = deg or degrees(A)
    return sorted(tuple(sorted((deg[i], deg[j]))) for (i, j) in links(A))


def outside_cross_block(A, L1, L2):
    """Copy of A with the (L1 x L2) cross block zeroed: everything a
    cross-link operation must leave as it was."""
    B = np.array(A, dtype=int, copy=True)
    for i in L1:
        for j in L2:
            B[i, j] = B[j, i] = 0
    return B


def cross_block(A, L1, L2):
    A = np.asarray(A)
    return [[int(A[i, j]) for j in L2] for i in L1]


# ---------------------------------------------------------------------------
# point sets / distance matrices (float32, as the kernels store them)


def point_sets(n):
    """Point sets: a line with unit spacing (many equal link lengths), a
    lattice with 3 columns (lengths 1, sqrt2, 2, sqrt5, ...), points in
    general position (n <= 6: all lengths distinct, gaps > 0.05), a lattice
    with 4 columns, n equidistant points on a circle of radius 2 (chord
    length classes) and lattices numbered boustrophedon-wise (4, 7 columns)."""
    line = [(float(i), 0.0) for i in range(n)]
    lattice = [(float(i % 3), float(i // 3)) for i in range(n)]
    general = [(0.0, 0.0), (1.0, 0.13), (0.31, 1.17), (1.73, 1.41),
               (2.39, 0.29), (0.83, 2.57)][:n]
    lattice4 = [(float(i % 4), float(i // 4)) for i in range(n)]
    circle = [(2.0 * math.cos(2 * math.pi * i / n),
               2.0 * math.sin(2 * math.pi * i / n)) for i in range(n)]

    def snake(cols):
        # rows alternate in direction, so opposite sides of a lattice cell
        # are stored (small, large) in opposite geometric orientation
        return [(float(i % cols if (i // cols) % 2 == 0
                       else cols - 1 - i % cols), float(i // cols))
                for i in range(n)]
    return {"line": line, "lattice": lattice, "general": general,
            "lattice4": lattice4, "circle": circle, "snake4": snake(4),
            "snake7": snake(7)}


def euclid(points):
    n = len(points)
    D = np.zeros((n, n), dtype=np.float32)
    for i in range(n):
        for j in range(n):
            D[i, j] = math.sqrt(sum((a - b) ** 2 for a, b in
                                    zip(points[i], points[j])))
    return D
