"""By-definition recurrence matrices in exact arithmetic (C07 oracle).

Everything starts from the values *as the library stores them* (float32); all
alphabets used by the check are dyadic, so the stored values are exact
rationals and every comparison below is decided with `fractions.Fraction`.

Distances are represented by an order-preserving *key*:
  manhattan / supremum   key = the distance itself (a Fraction)
  euclidean              key = the squared distance (a Fraction)
so that "dist < eps" is `below(key, eps, metric)` without ever taking a
square root.  A state vector that holds a NaN has no distance to anything
(key None) and is never recurrent.

Conventions read off the docstrings / the one-line formula of
`RecurrencePlot.threshold_from_recurrence_rate`:
  * R[i,j] = 1  iff  dist(i,j) < eps  (strict), the diagonal included
    (dist(i,i) = 0, so R[i,i] = 1 iff eps > 0);
  * fixed recurrence rate rr: eps = the element with index int(rr*(S-1)) of
    the ascending list of all S entries of the distance matrix (diagonal
    included); local rate: the same per row;
  * delay embedding: state k = (x[k], x[k+tau], ..., x[k+(dim-1)tau]),
    k = 0 .. n-(dim-1)tau-1;
  * cross plot CR[i,j] = [dist(x_i, y_j) < eps], shape (N_x, N_y);
  * joint plot with lag L >= 0: JR[i,j] = Rx[i,j] * Ry[i+L,j+L],
    L < 0: JR[i,j] = Rx[i-L,j-L] * Ry[i,j]; size (N-|L|)^2;
  * inter-system matrix: [[Rx, CR], [CR^T, Ry]].
"""
import math
from fractions import Fraction

import numpy as np

METRICS = ("manhattan", "euclidean", "supremum")


def stored(v):
    """Value as stored by the library (float32) -> Fraction, NaN -> None."""
    f = float(np.float32(v))
    if f != f:
        return None
    return Fraction(f)


def states(series, dim=None, tau=None):
    """List of state vectors (tuples of Fraction/None).  `series` is a list
    of numbers (scalar series) or a list of equally long lists."""
    rows = [list(r) if isinstance(r, (list, tuple)) else [r] for r in series]
    rows = [tuple(stored(v) for v in r) for r in rows]
    if dim is None or tau is None:
        return rows
    assert all(len(r) == 1 for r in rows), "embedding needs a scalar series"
    x = [r[0] for r in rows]
    n = len(x) - (dim - 1) * tau
    return [tuple(x[k + j * tau] for j in range(dim)) for k in range(n)]


def has_nan(state):
    return any(v is None for v in state)


def key(u, v, metric):
    """Order-preserving distance key of two states, None if undefined."""
    if has_nan(u) or has_nan(v):
        return None
    diffs = [abs(a - b) for a, b in zip(u, v)]
    if metric == "manhattan":
        return sum(diffs, Fraction(0))
    if metric == "supremum":
        return max(diffs)
    if metric == "euclidean":
        return sum((d * d for d in diffs), Fraction(0))
    raise ValueError(metric)


def key_matrix(X, Y, metric):
    return [[key(u, v, metric) for v in Y] for u in X]


def key_float(k, metric):
    """The distance as a float (for comparing distance_matrix())."""
    if k is None:
        return float("nan")
    return math.sqrt(k) if metric == "euclidean" else float(k)


def is_rational_distance(k, metric):
    """True iff the distance belonging to key k is rational and exactly
    representable (so it can be used as a threshold at equality)."""
    if metric != "euclidean":
        return True
    n, d = k.numerator, k.denominator
    return math.isqrt(n) ** 2 == n and math.isqrt(d) ** 2 == d


def threshold_key(eps, metric):
    """Key of a threshold given as a number; None means 'below nothing'."""
    e = Fraction(float(eps))
    if e <= 0:
        return None
    return e * e if metric == "euclidean" else e


def boundary_key(eps, metric):
    """Key of the distance that equals eps exactly (None for eps < 0)."""
    e = Fraction(float(eps))
    if e < 0:
        return None
    return e * e if metric == "euclidean" else e


def below(k, tk):
    return k is not None and tk is not None and k < tk


def threshold_matrix(K, tk):
    return [[1 if below(k, tk) else 0 for k in row] for row in K]


def recurrence(X, Y, metric, eps):
    return threshold_matrix(key_matrix(X, Y, metric), threshold_key(eps, metric))


def quantile_index(rate, size):
    """int(rate * (size - 1)) evaluated exactly on the float `rate`."""
    return int(math.floor(Fraction(float(rate)) * (size - 1)))


def rate_matrix(K, rate):
    """Global fixed-rate variant; K must not contain None."""
    flat = sorted(k for row in K for k in row)
    tk = flat[quantile_index(rate, len(flat))]
    return [[1 if k < tk else 0 for k in row] for row in K]


def local_rate_matrix(K, rate):
    out = []
    for row in K:
        tk = sorted(row)[quantile_index(rate, len(row))]
        out.append([1 if k < tk else 0 for k in row])
    return out


def tie_free(row):
    return len(set(row)) == len(row)


def variance(series):
    """Population variance of all stored entries (Fraction); None with NaN."""
    vals = []
    for r in series:
        for v in (r if isinstance(r, (list, tuple)) else [r]):
            s = stored(v)
            if s is None:
                return None
            vals.append(s)
    m = sum(vals, Fraction(0)) / len(vals)
    return sum(((v - m) ** 2 for v in vals), Fraction(0)) / len(vals)


def std_threshold_sq(ts, var):
    """eps^2 for eps = ts * sqrt(var) (a Fraction); None means 'below
    nothing' (eps <= 0)."""
    t = Fraction(float(ts))
    if t <= 0 or var == 0:
        return None
    return t * t * var


def below_std(k, sq, metric):
    """dist < ts*std, decided on squares."""
    if k is None or sq is None:
        return False
    if metric == "euclidean":
        return k < sq
    return k * k < sq


def std_gap(k, sq, metric):
    """Relative gap between dist^2 and eps^2 (0 = exactly on the boundary)."""
    d2 = k if metric == "euclidean" else k * k
    return abs(d2 - sq) / sq


def is_square(q):
    n, d = q.numerator, q.denominator
    return math.isqrt(n) ** 2 == n and math.isqrt(d) ** 2 == d


def joint(Rx, Ry, lag):
    n = len(Rx)
    m = n - abs(lag)
    if lag >= 0:
        return [[Rx[i][j] * Ry[i + lag][j + lag] for j in range(m)]
                for i in range(m)]
    L = -lag
    return [[Rx[i + L][j + L] * Ry[i][j] for j in range(m)]
            for i in range(m)]


def inter_system(Rx, CR, Ry):
    nx, ny = len(Rx), len(Ry)
    n = nx + ny
    M = [[0] * n for _ in range(n)]
    for i in range(nx):
        for j in range(nx):
            M[i][j] = Rx[i][j]
        for j in range(ny):
            M[i][nx + j] = CR[i][j]
            M[nx + j][i] = CR[i][j]
    for i in range(ny):
        for j in range(ny):
            M[nx + i][nx + j] = Ry[i][j]
    return M


def no_diagonal(R):
    return [[0 if i == j else R[i][j] for j in range(len(R))]
            for i in range(len(R))]


def distinct_keys(K):
    return sorted({k for row in K for k in row if k is not None})


def threshold_menu(K, metric):
    """Thresholds (floats) that decide strictness: every realised rational
    distance, every midpoint between consecutive distinct distances, 0 and a
    large value.  Returns (list, number of irrational distances skipped)."""
    ds = distinct_keys(K)
    out, skipped = [0.0], 0
    fl = [key_float(k, metric) for k in ds]
    for k, f in zip(ds, fl):
        if f == 0.0:
            continue
        if is_rational_distance(k, metric):
            out.append(f)
        else:
            skipped += 1
    for a, b in zip(fl, fl[1:]):
        out.append((a + b) / 2.0)
    out.append(1024.0)
    seen, uniq = set(), []
    for t in out:
        if t not in seen:
            seen.add(t)
            uniq.append(t)
    return uniq, skipped


# ---------------------------------------------------------------------------
# Vectorised variant for the `scale` family (hundreds of state vectors).
#
# Same definitions as above, evaluated with numpy broadcasting on the values
# as stored (float32 -> float64).  All alphabets of the scale inputs are
# dyadic with few significant bits, so every difference, sum, maximum and
# square below is exact in float64 and the comparisons are exact; euclidean
# distances are again compared through their squares.  NaN marks "no
# distance" and compares False everywhere.

def np_states(series, dim=None, tau=None):
    """(n_states, d) float64 array of state vectors, NaN = missing."""
    a = np.asarray(series, dtype=np.float32).astype(np.float64)
    a = a.reshape(a.shape[0], -1)
    if dim is None or tau is None:
        return a
    assert a.shape[1] == 1
    x = a[:, 0]
    n = len(x) - (dim - 1) * tau
    return np.stack([x[j * tau:j * tau + n] for j in range(dim)], axis=1)


def np_keys(X, Y, metric):
    """Key matrix (distance, or squared distance for euclidean)."""
    d = np.abs(X[:, None, :] - Y[None, :, :])
    if metric == "manhattan":
        return d.sum(axis=2)
    if metric == "supremum":
        k = d.max(axis=2)
        k[np.isnan(d).any(axis=2)] = np.nan
        return k
    if metric == "euclidean":
        return (d * d).sum(axis=2)
    raise ValueError(metric)


def np_key_float(K, metric):
    return np.sqrt(K) if metric == "euclidean" else K


def np_threshold(K, eps, metric):
    eps = float(eps)
    if eps <= 0:
        return np.zeros(K.shape, dtype=int)
    tk = eps * eps if metric == "euclidean" else eps
    with np.errstate(invalid="ignore"):
        return (K < tk).astype(int)


def np_rate(K, rate):
    flat = np.sort(K, axis=None)
    tk = flat[quantile_index(rate, flat.size)]
    return (K < tk).astype(int)


def np_local_rate(K, rate):
    rows = np.sort(K, axis=1)
    tk = rows[:, quantile_index(rate, K.shape[1])]
    return (K < tk[:, None]).astype(int)


def np_tie_free_rows(K):
    rows = np.sort(K, axis=1)
    return np.nonzero((np.diff(rows, axis=1) != 0).all(axis=1))[0]


def np_std_sq(series, ts):
    """eps^2 for eps = ts * std(all stored entries), float64."""
    a = np.asarray(series, dtype=np.float32).astype(np.float64)
    return float(ts) ** 2 * float(a.var())


def np_below_sq(K, sq, metric):
    """dist < eps given eps^2; also returns the smallest relative gap between
    a squared distance and eps^2 (boundary analysis)."""
    D2 = K if metric == "euclidean" else K * K
    if sq <= 0:
        return np.zeros(K.shape, dtype=int), 1.0
    gap = float(np.nanmin(np.abs(D2 - sq))) / sq
    return (D2 < sq).astype(int), gap


def np_joint(Rx, Ry, lag):
    m = Rx.shape[0] - abs(lag)
    a, b = (0, lag) if lag >= 0 else (-lag, 0)
    i = np.arange(m)
    return Rx[np.ix_(i + a, i + a)] * Ry[np.ix_(i + b, i + b)]


def np_inter_system(Rx, CR, Ry):
    return np.block([[Rx, CR], [CR.T, Ry]])


def np_no_diagonal(R):
    R = np.array(R, dtype=int)
    R[np.arange(len(R)), np.arange(len(R))] = 0
    return R
