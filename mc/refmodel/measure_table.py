"""Hand-kept table  (owner class, method) -> how its output is indexed, how to
call it, and on which graph class it is defined.  Shared by C02 (node
splitting) and C04 (node renumbering); see DESIGN.md section 7.

Nothing here is computed from the library: the entries were read off the
docstrings / code of /repo/src/pyunicorn (commit 4420ab1).  A method that is
found by introspection but has no entry is *unclassified*: C04 holds it only
to multiset equality and lists it in the evidence, C02 lists it and demands
nothing.

kind
  global     scalar (or tuple/list of scalars): unchanged
  node       array [N] indexed by node
  pair       array [N, N] indexed by node on both axes (sparse is densified)
  node_x_k   array [N, k]: first axis is the node, the rest is not node-indexed
  histogram  depends on the multiset of node values only: unchanged under
             renumbering; *excluded* under node splitting (bin counts)
  operator   [N, N] matrix acting on node vectors: equivariant under
             renumbering like `pair`; under node splitting untouched columns
             are equal and the twin columns add up to the original column
  g1         array indexed by the position in the first node list argument
  g1xg2      array [len(list1), len(list2)]
  g1xg1      array [len(list1), len(list1)]
  edges      [E, 2] array of node ids (compared as a set of relabelled pairs)
  dict       {key: kind} - a dict of the above
  other      not a measure of the network (never compared)

patterns: list of keyword dicts the method is called with.  Placeholders:
  "$L1", "$L2"   first / second node group (lists)
  "$i", "$j"     every node in turn; the results are assembled into an array
                 [N] (only $i) or [N, N] ($i and $j) which then has `kind`
Link attribute name is always "w", the typical weight 2.0.

domain flags (read off docstrings / code)
  und    defined for undirected networks only
  conn   defined for connected networks only
  simple_ev  the leading eigenvector must be non-degenerate (ARPACK start
             vector is random): connected graphs, tolerance 1e-6; for
             N >= 21 eigsh no longer spans the whole space (ncv = 20 < N) and
             delivers the vector only to its convergence accuracy; with
             the library's shift sigma = N^2 (W^2) that accuracy degrades
             like sigma (measured against dense eigh: 3e-6 at N=21, 2e-5 at
             150, 5e-4 at 300) -> tolerance 4e-8 * max(N, W)^2
  f32    passes float32 storage or kernels: rtol 2e-5 / atol 2e-6
  cancel random-walk betweenness: sums of O(N^2) signed potential differences
         weighted by w_j*w_s*w_t; values that are exactly 0 in exact arithmetic
         come out as rounding noise proportional to W^3 (W = total node
         weight), so the absolute tolerance is 1e-12*max(1, W^3)
  floatbin  histogram of a float-valued node sequence `src` (a method name;
         called with the pattern minus n_bins): bin membership is
         discontinuous in the float values, so when the histograms differ
         although `src` agrees within the tolerance the case is
         ill-conditioned, not a verdict
"""

KINDS = ("global", "node", "pair", "node_x_k", "histogram", "operator",
         "g1", "g1xg2", "g1xg1", "edges", "dict", "other")

LA = "w"      # name of the link attribute used by both checks
TW = 2.0      # typical weight


class M(object):
    __slots__ = ("kind", "patterns", "flags", "sub", "src")

    def __init__(self, kind, patterns=None, flags=(), sub=None, src=None):
        assert kind in KINDS, kind
        self.kind = kind
        self.patterns = [dict(p) for p in (patterns or [{}])]
        # options are also explored TOGETHER: the union of all single-option
        # patterns (a later value for the same keyword wins) joins the list
        union = {}
        for p in self.patterns:
            union.update(p)
        if len(union) >= 2 and union not in self.patterns and \
                sum(1 for p in self.patterns if p) >= 2:
            self.patterns.append(union)
        self.flags = frozenset(flags)
        self.sub = sub          # for kind == "dict"
        self.src = src          # for "floatbin": the binned node sequence

    def has(self, flag):
        return flag in self.flags


_KEY = [{}, {"key": LA}]
_KEYTW = [{}, {"key": LA}, {"typical_weight": TW},
          {"key": LA, "typical_weight": TW}]
_TW = [{}, {"typical_weight": TW}]
_ATTR = [{}, {"link_attribute": LA}]
_G12 = [{"node_list1": "$L1", "node_list2": "$L2"}]
_G12A = [{"node_list1": "$L1", "node_list2": "$L2"},
         {"node_list1": "$L1", "node_list2": "$L2", "link_attribute": LA}]
_G1 = [{"node_list": "$L1"}]
_G1A = [{"node_list": "$L1"}, {"node_list": "$L1", "link_attribute": LA}]
_GC = [{}, {"geometry_corrected": True}]

TABLE = {}


def _add(owner, entries):
    for name, m in entries.items():
        TABLE[(owner, name)] = m


_add("Network", {
    # --- degrees -----------------------------------------------------------
    "degree": M("node", _KEY),
    "indegree": M("node", _KEY),
    "outdegree": M("node", _KEY),
    "bildegree": M("node", _KEY),
    "nsi_degree": M("node", _KEYTW),
    "nsi_indegree": M("node", _KEYTW),
    "nsi_outdegree": M("node", _KEYTW),
    # `assert key is None, "not implemented with key yet"`
    "nsi_bildegree": M("node", _TW),
    "degree_distribution": M("histogram"),
    "indegree_distribution": M("histogram"),
    "outdegree_distribution": M("histogram"),
    "degree_cdf": M("histogram"),
    "indegree_cdf": M("histogram"),
    "outdegree_cdf": M("histogram"),
    "nsi_degree_histogram": M("histogram", _TW, flags=("floatbin",),
                              src="nsi_degree"),
    "nsi_degree_cumulative_histogram": M("histogram", _TW,
                                         flags=("floatbin",),
                                         src="nsi_degree"),
    "average_neighbors_degree": M("node"),
    "max_neighbors_degree": M("node"),
    # "(not yet implemented for directed networks.)" -> NotImplementedError
    "nsi_average_neighbors_degree": M("node", flags=("und",)),
    "nsi_max_neighbors_degree": M("node", flags=("und",)),
    # --- clustering --------------------------------------------------------
    "local_clustering": M("node"),
    "global_clustering": M("global"),
    "transitivity": M("global"),
    # order 3 returns self.transitivity() (covered there)
    "higher_order_transitivity": M("global", [{"order": 4}]),
    "local_cliquishness": M("node", [{"order": 3}, {"order": 4},
                                     {"order": 5}], flags=("und",)),
    "local_cyclemotif_clustering": M("node", _KEY),
    "local_midmotif_clustering": M("node", _KEY),
    "local_inmotif_clustering": M("node", _KEY),
    "local_outmotif_clustering": M("node", _KEY),
    "nsi_local_cyclemotif_clustering": M("node", _KEYTW),
    "nsi_local_midmotif_clustering": M("node", _KEYTW),
    "nsi_local_inmotif_clustering": M("node", _KEYTW),
    "nsi_local_outmotif_clustering": M("node", _KEYTW),
    "nsi_local_clustering": M("node", _TW, flags=("und",)),
    "nsi_global_clustering": M("global", flags=("und",)),
    "nsi_transitivity": M("global", flags=("und",)),
    "nsi_local_soffer_clustering": M("node", flags=("und",)),
    "nsi_twinness": M("pair"),
    "assortativity": M("global"),
    "matching_index": M("pair"),
    # --- paths -------------------------------------------------------------
    "path_lengths": M("pair", _ATTR),
    "average_path_length": M("global", _ATTR),
    "nsi_average_path_length": M("global"),
    "diameter": M("global", [{}, {"directed": False},
                             {"only_connected": False}]),
    "closeness": M("node", _ATTR),
    "nsi_closeness": M("node"),
    "nsi_harmonic_closeness": M("node"),
    "nsi_exponential_closeness": M("node"),
    "global_efficiency": M("global", _ATTR),
    "nsi_global_efficiency": M("global"),
    "local_vulnerability": M("node", _ATTR),
    "distance_based_measures": M("dict", [{}, {"replace_inf_by": 7.5}], sub={
        "closeness": "node", "harmonic_closeness": "node",
        "exponential_closeness": "node", "average_path_length": "global",
        "global_efficiency": "global", "nsi_closeness": "node",
        "nsi_harmonic_closeness": "node",
        "nsi_exponential_closeness": "node",
        "nsi_average_path_length": "global",
        "nsi_global_efficiency": "global"}),
    # --- betweenness -------------------------------------------------------
    "betweenness": M("node"),
    "link_betweenness": M("pair"),
    "edge_betweenness": M("pair"),
    # goes through _nsi_betweenness (asserts a symmetric adjacency)
    "interregional_betweenness": M("node", [
        {}, {"sources": "$L1", "targets": "$L2"}], flags=("und",)),
    # `_nsi_betweenness` asserts k.sum() == 2 * n_links (symmetric adjacency)
    "nsi_betweenness": M("node", [{}, {"sources": "$L1", "targets": "$L2"}],
                         flags=("und",)),
    "nsi_interregional_betweenness": M(
        "node", [{"sources": "$L1", "targets": "$L2"}], flags=("und",)),
    # random-walk betweenness: components are rebuilt as undirected networks
    "arenas_betweenness": M("node", flags=("und", "cancel")),
    "newman_betweenness": M("node", flags=("und", "cancel")),
    "nsi_arenas_betweenness": M("node", [
        {}, {"exclude_neighbors": False}, {"stopping_mode": "twinness"}],
        flags=("und", "cancel")),
    "nsi_newman_betweenness": M("node", [{}, {"add_local_ends": True}],
                                flags=("und", "cancel")),
    # --- spectral ----------------------------------------------------------
    # eigsh (symmetric solver, random start vector) -> connected undirected
    "eigenvector_centrality": M("node", flags=("und", "simple_ev")),
    "nsi_eigenvector_centrality": M("node", flags=("und", "simple_ev")),
    "pagerank": M("node", [{}, {"link_attribute": LA},
                           {"use_directed": False}]),
    "msf_synchronizability": M("global", flags=("und",)),
    "spreading": M("node", [{}, {"alpha": 0.3}]),
    "nsi_spreading": M("node", [{}, {"alpha": 0.3}]),
    "coreness": M("node"),
    # --- matrices ----------------------------------------------------------
    "laplacian": M("operator", [{}, {"direction": "in"}]),
    # "(undirected networks only!)" -> NotImplementedError
    "nsi_laplacian": M("operator", flags=("und",)),
    "undirected_adjacency": M("pair"),
    "sp_Aplus": M("pair"),
    "sp_diag_w": M("pair"),
    "sp_diag_w_inv": M("pair"),
    "sp_diag_sqrt_w": M("pair"),
    "sp_nsi_diag_k": M("pair"),
    "sp_nsi_diag_k_inv": M("pair"),
    "edge_list": M("edges"),
    "link_attribute": M("pair", [{"attribute_name": LA}]),
    "average_link_attribute": M("node", [{"attribute_name": LA}]),
    "find_link_attribute": M("global", [{"attribute_name": LA}]),
})

_add("SpatialNetwork", {
    "distance": M("pair", flags=("f32",)),
    "average_link_distance": M("node", _GC, flags=("f32",)),
    "inaverage_link_distance": M("node", _GC, flags=("f32",)),
    "outaverage_link_distance": M("node", _GC, flags=("f32",)),
    "max_link_distance": M("node", flags=("f32",)),
    "average_distance_weighted_path_length": M("global", flags=("f32",)),
    "distance_weighted_closeness": M("node", flags=("f32",)),
    "local_distance_weighted_vulnerability": M("node", flags=("f32",)),
    "link_distance_distribution": M("histogram", [
        {"n_bins": 3}, {"n_bins": 3, "geometry_corrected": True}],
        flags=("f32",)),
})

# cos(lat) is taken from the grid's float32 latitude sequence
_add("GeoNetwork", {
    "area_weighted_connectivity": M("node", flags=("f32",)),
    "inarea_weighted_connectivity": M("node", flags=("f32",)),
    "outarea_weighted_connectivity": M("node", flags=("f32",)),
    "average_neighbor_area_weighted_connectivity": M("node", flags=("f32",)),
    "max_neighbor_area_weighted_connectivity": M("node", flags=("f32",)),
    "total_link_distance": M("node", _GC, flags=("f32",)),
    "intotal_link_distance": M("node", _GC, flags=("f32",)),
    "outtotal_link_distance": M("node", _GC, flags=("f32",)),
    "connectivity_weighted_distance": M("node", flags=("f32",)),
    "inconnectivity_weighted_distance": M("node", flags=("f32",)),
    "outconnectivity_weighted_distance": M("node", flags=("f32",)),
    "local_geographical_clustering": M("node", flags=("f32",)),
    "area_weighted_connectivity_distribution": M(
        "histogram", [{"n_bins": 3}], flags=("f32", "floatbin"),
        src="area_weighted_connectivity"),
    "inarea_weighted_connectivity_distribution": M(
        "histogram", [{"n_bins": 3}], flags=("f32", "floatbin"),
        src="inarea_weighted_connectivity"),
    "outarea_weighted_connectivity_distribution": M(
        "histogram", [{"n_bins": 3}], flags=("f32", "floatbin"),
        src="outarea_weighted_connectivity"),
    "area_weighted_connectivity_cumulative_distribution": M(
        "histogram", [{"n_bins": 3}], flags=("f32", "floatbin"),
        src="area_weighted_connectivity"),
    "inarea_weighted_connectivity_cumulative_distribution": M(
        "histogram", [{"n_bins": 3}], flags=("f32", "floatbin"),
        src="inarea_weighted_connectivity"),
    "outarea_weighted_connectivity_cumulative_distribution": M(
        "histogram", [{"n_bins": 3}], flags=("f32", "floatbin"),
        src="outarea_weighted_connectivity"),
})

_add("ResNetwork", {
    "get_admittance": M("pair"),
    "get_R": M("pair"),
    "admittance_lapacian": M("operator"),
    "admittive_degree": M("node"),
    "average_neighbors_admittive_degree": M("node"),
    "local_admittive_clustering": M("node"),
    "global_admittive_clustering": M("global"),
    "effective_resistance": M("pair", [{"a": "$i", "b": "$j"}]),
    "average_effective_resistance": M("global"),
    "diameter_effective_resistance": M("global"),
    "effective_resistance_closeness_centrality": M("node", [{"a": "$i"}]),
    "vertex_current_flow_betweenness": M("node", [{"i": "$i"}],
                                         flags=("f32",)),
    "edge_current_flow_betweenness": M("pair", flags=("f32",)),
})

_add("InteractingNetworks", {
    "internal_adjacency": M("g1xg1", _G1),
    "cross_adjacency": M("g1xg2", _G12),
    "cross_adjacency_sparse": M("g1xg2", _G12),
    "internal_link_attribute": M("g1xg1", [
        {"attribute_name": LA, "node_list": "$L1"}]),
    "cross_link_attribute": M("g1xg2", [
        {"attribute_name": LA, "node_list1": "$L1", "node_list2": "$L2"}]),
    "internal_path_lengths": M("g1xg1", _G1A),
    "cross_path_lengths": M("g1xg2", _G12A),
    "number_cross_links": M("global", _G12),
    "total_cross_degree": M("global", _G12),
    "number_internal_links": M("global", _G1),
    "cross_degree_density": M("g1", _G12),
    "cross_link_density": M("global", _G12),
    "internal_link_density": M("global", _G1),
    "internal_global_clustering": M("global", _G1),
    "cross_global_clustering": M("global", _G12),
    "cross_global_clustering_sparse": M("global", _G12),
    "cross_transitivity": M("global", _G12),
    "cross_transitivity_sparse": M("global", _G12),
    "cross_average_path_length": M("global", _G12A),
    "internal_average_path_length": M("global", _G1A),
    "average_cross_closeness": M("global", _G12A),
    "global_efficiency": M("global", _G12A),
    "cross_degree": M("g1", _G12A),
    "cross_indegree": M("g1", _G12A),
    "cross_outdegree": M("g1", _G12A),
    "internal_degree": M("g1", _G1A),
    "internal_indegree": M("g1", _G1A),
    "internal_outdegree": M("g1", _G1A),
    "cross_local_clustering": M("g1", _G12),
    "cross_local_clustering_sparse": M("g1", _G12),
    "cross_closeness": M("g1", _G12A),
    "internal_closeness": M("g1", _G1A),
    "cross_betweenness": M("node", _G12),
    "internal_betweenness": M("node", _G1),
    "local_efficiency": M("g1", _G12A),
    # "So far, most methods only give meaningful results for undirected
    # networks!" (class docstring)
    "nsi_cross_degree": M("g1", _G12, flags=("und",)),
    "nsi_cross_mean_degree": M("global", _G12, flags=("und",)),
    "nsi_internal_degree": M("g1", _G1, flags=("und",)),
    "nsi_cross_local_clustering": M("g1", _G12, flags=("und",)),
    "nsi_cross_closeness_centrality": M("g1", _G12, flags=("und",)),
    "nsi_internal_closeness_centrality": M("g1", _G1, flags=("und",)),
    "nsi_cross_global_clustering": M("global", _G12, flags=("und",)),
    "nsi_internal_local_clustering": M("g1", _G1, flags=("und",)),
    "nsi_cross_betweenness": M("node", _G12, flags=("und",)),
    "nsi_cross_edge_density": M("global", _G12, flags=("und",)),
    "nsi_cross_transitivity": M("global", _G12, flags=("und",)),
    "nsi_cross_average_path_length": M("global", _G12, flags=("und",)),
})

_add("RecurrencePlot", {
    "recurrence_matrix": M("pair"),
    "recurrence_rate": M("global"),
    "euclidean_distance_matrix": M("pair", flags=("f32",)),
    "manhattan_distance_matrix": M("pair", flags=("f32",)),
    "supremum_distance_matrix": M("pair", flags=("f32",)),
    "distance_matrix": M("pair", [{"metric": "supremum"}], flags=("f32",)),
})

_add("RecurrenceNetwork", {
    "transitivity_dim_single_scale": M("global"),
    "local_clustering_dim_single_scale": M("node"),
})

# n.s.i. cross/internal methods that only delegate to another method with
# (L, L): a failure of the delegate is attributed to the delegate's key.
DELEGATES = {
    "nsi_internal_degree": "nsi_cross_degree",
    "nsi_internal_closeness_centrality": "nsi_cross_closeness_centrality",
    "nsi_internal_local_clustering": "nsi_cross_local_clustering",
}

# Pure aliases: a failure is reported under the key of the aliased method.
ALIASES = {"edge_betweenness": "link_betweenness"}

# Public callables that are not measures of the (relabelled) network.
# name -> reason; matched on the method name in every class.
DENY = {
    "cache_clear": "cache management",
    "copy": "constructor (returns a network object)",
    "undirected_copy": "constructor (returns a network object)",
    "permuted_copy": "constructor (the operation under test)",
    "splitted_copy": "constructor (the operation under test)",
    "subnetwork": "constructor (returns a network object)",
    "save": "file output",
    "save_for_cgv": "file output",
    "randomly_rewire": "random output / mutator",
    "randomly_rewire_geomodel_I": "random output / mutator",
    "randomly_rewire_geomodel_II": "random output / mutator",
    "randomly_rewire_geomodel_III": "random output / mutator",
    "set_random_links_by_distance": "random output / mutator",
    "set_edge_list": "mutator",
    "set_link_attribute": "mutator",
    "set_node_attribute": "mutator",
    "del_link_attribute": "mutator",
    "del_node_attribute": "mutator",
    "node_attribute": "needs a node attribute (none is set)",
    "set_node_weight_type": "mutator",
    "hamming_distance_from": "binary relation between two networks",
    "geographical_distribution": "takes a caller-supplied node sequence",
    "geographical_cumulative_distribution":
        "takes a caller-supplied node sequence",
    "update_R": "mutator", "update_admittance": "mutator",
    "update_resistances": "mutator",
    # RecurrenceNetwork / RecurrencePlot: time-ordered by definition or random
    "set_fixed_threshold": "mutator", "set_fixed_threshold_std": "mutator",
    "set_fixed_recurrence_rate": "mutator",
    "set_fixed_local_recurrence_rate": "mutator",
    "set_adaptive_neighborhood_size": "mutator",
    "twin_surrogates": "random output",
    "twins": "time-ordered by definition (min_dist in time)",
    "resample_diagline_dist": "random output",
    "resample_vertline_dist": "random output",
    "diagline_dist": "time-ordered by definition",
    "vertline_dist": "time-ordered by definition",
    "white_vertline_dist": "time-ordered by definition",
    "determinism": "time-ordered by definition",
    "laminarity": "time-ordered by definition",
    "average_diaglength": "time-ordered by definition",
    "average_vertlength": "time-ordered by definition",
    "average_white_vertlength": "time-ordered by definition",
    "trapping_time": "time-ordered by definition",
    "mean_recurrence_time": "time-ordered by definition",
    "max_diaglength": "time-ordered by definition",
    "max_vertlength": "time-ordered by definition",
    "max_white_vertlength": "time-ordered by definition",
    "diag_entropy": "time-ordered by definition",
    "vert_entropy": "time-ordered by definition",
    "white_vert_entropy": "time-ordered by definition",
    "rqa_summary": "time-ordered by definition",
    "recurrence_probability": "time-ordered by definition",
    "complexity_entropy": "time-ordered by definition",
    "permutation_entropy": "time-ordered by definition",
    # VisibilityGraph: time-directed measures belong to C14
    "visibility_relations": "time-ordered by definition (C14)",
    "visibility_relations_horizontal": "time-ordered by definition (C14)",
    "visibility": "time-ordered by definition (C14)",
    "visibility_single": "time-ordered by definition (C14)",
    "retarded_degree": "time-directed by definition (C14)",
    "advanced_degree": "time-directed by definition (C14)",
    "retarded_local_clustering": "time-directed by definition (C14)",
    "advanced_local_clustering": "time-directed by definition (C14)",
    "retarded_closeness": "time-directed by definition (C14)",
    "advanced_closeness": "time-directed by definition (C14)",
    "retarded_betweenness": "time-directed by definition (C14)",
    "advanced_betweenness": "time-directed by definition (C14)",
    "trans_betweenness": "time-directed by definition (C14)",
    "boundary_corrected_degree": "time-directed by definition (C14)",
    "boundary_corrected_closeness": "time-directed by definition (C14)",
}


def owner_of(cls, name):
    for c in cls.__mro__:
        if name in c.__dict__:
            return c.__name__
    return None


def lookup(cls, name):
    """Table entry for `cls.name` (the entry of the class that defines the
    method, so an override with a different signature has its own entry)."""
    o = owner_of(cls, name)
    if o is None:
        return None
    return TABLE.get((o, name))


def dict_methods(cls):
    """Names of the public methods of `cls` whose table entry is a dict of
    named results (kind 'dict' with `sub` kinds)."""
    out = []
    for name, _, _ in discover(cls):
        m = lookup(cls, name)
        if m is not None and m.kind == "dict" and m.sub:
            out.append(name)
    return out


def discover(cls, prefix=None, stop_at=None):
    """Public instance methods of `cls` found by introspection, as
    [(name, owner, n_required_args)], in name order.  Static/class methods,
    properties and plain attributes are not methods of an instance's state.
    `stop_at`: only methods defined in classes up to (excluding) that base."""
    import inspect
    out = []
    for name in sorted(dir(cls)):
        if name.startswith("_"):
            continue
        if prefix is not None and not name.startswith(prefix):
            continue
        raw = inspect.getattr_static(cls, name)
        if isinstance(raw, (staticmethod, classmethod, property)):
            continue
        f = getattr(cls, name)
        if not callable(f):
            continue
        try:
            sig = inspect.signature(f)
        except (TypeError, ValueError):
            continue
        params = list(sig.parameters.values())[1:]
        req = [p for p in params if p.default is inspect.Parameter.empty and
               p.kind in (p.POSITIONAL_OR_KEYWORD, p.POSITIONAL_ONLY)]
        out.append((name, owner_of(cls, name), len(req)))
    return out


# ---------------------------------------------------------------------------
# Fixed larger structured inputs for the `scale` families of C02 and C04
# (beyond the exhaustive small-scope bound: component sizes 9/12/15/23,
# interleaved labels, isolated nodes, connected bipartite graphs with N >= 21,
# N just above 128 / 182 / 256).  Pure edge-list generators, no library code.


def _ring_chords(k, step=3):
    e = [(i, (i + 1) % k) for i in range(k)]
    e += [(i, (i + step) % k) for i in range(0, k, 3) if k > 2 * step]
    return k, e


def _tree(k):
    # deterministic irregular tree
    return k, [(i, (i - 1) // 2 if i % 2 == 0 else (i - 1) // 3)
               for i in range(1, k)]


def _path(k):
    return k, [(i, i + 1) for i in range(k - 1)]


def _star(k):
    return k, [(0, i) for i in range(1, k)]


def _grid(r, c):
    e = []
    for i in range(r):
        for j in range(c):
            if j + 1 < c:
                e.append((i * c + j, i * c + j + 1))
            if i + 1 < r:
                e.append((i * c + j, (i + 1) * c + j))
    return r * c, e


def _kbip(a, b):
    return a + b, [(i, a + j) for i in range(a) for j in range(b)]


def _union(parts, isolated=0):
    """Disjoint union with *interleaved* labels: the nodes of all parts (and
    the isolated nodes) are dealt round-robin, so no component occupies a
    contiguous label range and none starts at 0 except the first."""
    sizes = [p[0] for p in parts] + [1] * isolated
    order = []           # (part, local index) in global label order
    pos = [0] * len(sizes)
    while len(order) < sum(sizes):
        for q in range(len(sizes)):
            if pos[q] < sizes[q]:
                order.append((q, pos[q]))
                pos[q] += 1
    label = {pl: g for g, pl in enumerate(order)}
    e = []
    for q, (k, edges) in enumerate(parts):
        e += [(label[(q, a)], label[(q, b)]) for (a, b) in edges]
    return len(order), e


def _hub_ring(n):
    """Ring + chords + a hub at the highest-numbered node linked to every
    7th node and to n-2, n-3: links touch the largest flat indices i*N+j."""
    k, e = _ring_chords(n, 5)
    e += [(n - 1, i) for i in range(1, n - 3, 7)]
    e += [(n - 2, i) for i in range(0, n - 4, 11)]
    return n, e


def scale_graph(name):
    """(N, edge list, directed) of a named fixed input."""
    if name == "C9ch+K1":
        n, e = _union([_ring_chords(9)], 1)
    elif name == "T12+C9ch+2K1":
        n, e = _union([_tree(12), _ring_chords(9)], 2)
    elif name == "C15ch+T9+K1":
        n, e = _union([_ring_chords(15, 4), _tree(9)], 1)
    elif name == "C23ch+2K1":
        n, e = _union([_ring_chords(23, 5)], 2)
    elif name == "C12ch+C12ch+T15+3K1":
        n, e = _union([_ring_chords(12), _ring_chords(12, 4), _tree(15)], 3)
    elif name == "P21":
        n, e = _path(21)
    elif name == "P25":
        n, e = _path(25)
    elif name == "S21":
        n, e = _star(21)
    elif name == "S34":
        n, e = _star(34)
    elif name == "T25":
        n, e = _tree(25)
    elif name == "grid3x11":
        n, e = _grid(3, 11)
    elif name == "K7,14":
        n, e = _kbip(7, 14)
    elif name in ("R150", "R209", "R300"):
        n, e = _hub_ring(int(name[1:]))
    elif name == "D15ch+K1":           # directed ring with chords + isolated
        k, ee = _ring_chords(15, 4)
        n, e = _union([(k, ee + [(b, a) for (a, b) in ee[::4]])], 1)
        return n, sorted(set(e)), True
    elif name == "D24dense":
        n = 24
        e = [(i, j) for i in range(n) for j in range(n)
             if i != j and (i * 7 + j * 3) % 5 != 0]
        return n, e, True
    else:
        raise KeyError(name)
    e = sorted(set((min(a, b), max(a, b)) for (a, b) in e if a != b))
    return n, e, False


SCALE_MID = ["C9ch+K1", "T12+C9ch+2K1", "C15ch+T9+K1", "C23ch+2K1",
             "P21", "S21", "K7,14", "T25", "grid3x11",
             "D15ch+K1", "D24dense"]
SCALE_MID_THOROUGH = ["P25", "S34", "C12ch+C12ch+T15+3K1"]
SCALE_BIG = ["R150", "R209"]
SCALE_BIG_THOROUGH = ["R300"]


def scale_weights(n):
    """Unequal positive node weights (dyadic, so sums are exact)."""
    return [0.5 + 0.25 * ((i * 37) % 11) + 0.125 * (i % 3) for i in range(n)]


def scale_adjacency(n, edges, directed):
    A = [[0] * n for _ in range(n)]
    for (a, b) in edges:
        A[a][b] = 1
        if not directed:
            A[b][a] = 1
    return A
