"""Reference model of spatio-temporal data windows and climatological
anomalies (C13).

Written from the docstrings of ``pyunicorn.core.Data.set_window`` /
``set_global_window`` and ``pyunicorn.climate.ClimateData.phase_mean`` /
``anomaly`` / ``phase_indices`` / ``indices_selected_months`` and from the
property text; plain Python lists and ``fractions.Fraction``.

Conventions
-----------
* A window is ``{"time_min","time_max","lat_min","lat_max","lon_min",
  "lon_max"}``; a sample (time t, node with coordinates lat, lon) is exposed
  iff t, lat and lon lie inside the *closed* intervals.
* The grid keeps its coordinates in single precision; selection is judged on
  these stored values.  Window bounds must themselves be single precision
  numbers (the menus of the check are), so that no comparison depends on how
  a bound is rounded.
* Degenerate bounds.  Time: "If the temporal boundaries are equal, the data's
  full time range is selected."  Space: the property reads "the full range
  along any axis whose two bounds coincide" (`per-axis`), the docstring of
  ``set_window`` reads "If any of the two corresponding spatial boundaries are
  equal, the data's full spatial extension is included" (`whole-space`).  The
  two readings differ only when exactly one spatial axis is degenerate and
  the other one restricts; `select` returns both and the check judges only
  where they agree.
* The global window is the all-zero window, i.e. all three axes degenerate.
* ``window()`` reports the boundaries of the selected samples (min/max of the
  selected coordinates), not the requested bounds.
* Phases: phase i of a cycle of length c consists of the windowed time steps
  i, i+c, i+2c, ...; ``phase_mean[i]`` is their mean per node (undefined for a
  phase without samples), ``anomaly = observable - phase mean of its phase``;
  ``phase_indices`` has shape (c, floor(T/c)) with entry [i, y] = i + y*c
  ("just includes measurements from years for which complete data exists").
"""
import struct
from fractions import Fraction

AXES = ("time", "lat", "lon")
GLOBAL = {"time_min": 0.0, "time_max": 0.0, "lat_min": 0.0, "lat_max": 0.0,
          "lon_min": 0.0, "lon_max": 0.0}


def f32(x):
    return struct.unpack("f", struct.pack("f", float(x)))[0]


def stored(seq):
    return [f32(v) for v in seq]


def _inside(v, lo, hi):
    return lo <= v <= hi


def select(time, lat, lon, window):
    """(time indices, node indices per-axis reading, node indices whole-space
    reading) for coordinates as stored (single precision values)."""
    # A bound that is not a single-precision number is accepted only when it
    # is the position of a sample as the caller gave it (its single-precision
    # value is a stored coordinate of that axis): the sample lies ON the
    # bound of the closed window and the bound is read as the stored value.
    # Any other such bound would make "inside" depend on a rounding the
    # property does not define.
    window = dict(window)
    axis_vals = {"time": time, "lat": lat, "lon": lon}
    for k, v in list(window.items()):
        if f32(v) != float(v):
            if f32(v) in axis_vals[k.split("_")[0]]:
                window[k] = f32(v)
                continue
            raise ValueError("window bound %s=%r is not a float32 number"
                             % (k, v))
    tmin, tmax = window["time_min"], window["time_max"]
    if tmin == tmax:
        tidx = list(range(len(time)))
    else:
        tidx = [i for i, t in enumerate(time) if _inside(t, tmin, tmax)]
    la0, la1 = window["lat_min"], window["lat_max"]
    lo0, lo1 = window["lon_min"], window["lon_max"]
    lat_all, lon_all = la0 == la1, lo0 == lo1
    n = len(lat)
    per_axis = [j for j in range(n)
                if (lat_all or _inside(lat[j], la0, la1)) and
                (lon_all or _inside(lon[j], lo0, lo1))]
    if lat_all or lon_all:
        whole = list(range(n))
    else:
        whole = per_axis
    return tidx, per_axis, whole


def view(X, tidx, nidx):
    return [[X[t][j] for j in nidx] for t in tidx]


def boundaries(time, lat, lon, tidx, nidx):
    """Boundaries of the selected samples; None when the selection is empty
    along some axis."""
    if not tidx or not nidx:
        return None
    ts = [time[i] for i in tidx]
    las = [lat[j] for j in nidx]
    los = [lon[j] for j in nidx]
    return {"time_min": min(ts), "time_max": max(ts),
            "lat_min": min(las), "lat_max": max(las),
            "lon_min": min(los), "lon_max": max(los)}


def phase_mean(Xw, c):
    """c x N list; entries are Fractions, or None for a phase without
    samples."""
    T = len(Xw)
    N = len(Xw[0]) if T else 0
    out = []
    for i in range(c):
        rows = Xw[i::c]
        if not rows:
            out.append([None] * N)
        else:
            out.append([sum(Fraction(r[j]) for r in rows) / len(rows)
                        for j in range(N)])
    return out


def anomaly(Xw, c):
    pm = phase_mean(Xw, c)
    return [[Fraction(Xw[t][j]) - pm[t % c][j] for j in range(len(Xw[t]))]
            for t in range(len(Xw))]


def phase_indices(T, c):
    years = T // c
    return [[i + y * c for y in range(years)] for i in range(c)]


def indices_selected_phases(T, c, phases):
    pi = phase_indices(T, c)
    return sorted(x for p in phases for x in pi[p])


class Model:
    """State machine: the state is the current selection (time indices, node
    indices) over a fixed full data set."""

    def __init__(self, X, time, lat, lon):
        self.X = X
        self.time, self.lat, self.lon = stored(time), stored(lat), stored(lon)
        self.apply(GLOBAL)

    def apply(self, window):
        """Returns 'ok', 'ambiguous' (the two readings of a degenerate spatial
        axis differ) or 'empty' (nothing selected along some axis).  The state
        is only advanced on 'ok'."""
        tidx, per_axis, whole = select(self.time, self.lat, self.lon, window)
        if per_axis != whole:
            self.alt = (tidx, per_axis, whole)
            return "ambiguous"
        if not tidx or not per_axis:
            return "empty"
        self.tidx, self.nidx = tidx, per_axis
        return "ok"

    def state(self):
        return (tuple(self.tidx), tuple(self.nidx))

    def observable(self):
        return view(self.X, self.tidx, self.nidx)

    def grid(self):
        return {"time": [self.time[i] for i in self.tidx],
                "lat": [self.lat[j] for j in self.nidx],
                "lon": [self.lon[j] for j in self.nidx]}

    def window(self):
        return boundaries(self.time, self.lat, self.lon, self.tidx, self.nidx)
