"""Counting rules of event synchronisation (ES) and event coincidence analysis
(ECA), evaluated by loops in exact rational arithmetic (C16 oracle).

Conventions, read off the docstrings / source comments of
``pyunicorn.eventseries.EventSeries`` and re-established on the pinned tree:

ES (Quiroga et al. 2002 in the form of Odenweller & Donner 2020)
  * event times t^x_1 < ... < t^x_lx and t^y_1 < ... < t^y_ly; the second
    series is shifted by ``lag`` (t^y + lag);
  * only *interior* events l = 2..lx-1, m = 2..ly-1 take part (the dynamical
    delay needs both neighbours):
        tau_lm = 1/2 min(t^x_{l+1}-t^x_l, t^x_l-t^x_{l-1},
                         t^y_{m+1}-t^y_m, t^y_m-t^y_{m-1}),  capped by taumax;
  * J_lm(x|y) = 1 if 0 < t^x_l - t^y_m <= tau_lm, 1/2 if the times are equal;
  * a coincidence (l,m) counted for x|y is a *double count* if event l or
    event m also takes part in a coincidence counted for y|x; half of the
    double counts is subtracted;
  * ES(x|y) = c(x|y) / sqrt((lx-2)(ly-2)); undefined unless lx, ly >= 3.

ECA (Odenweller & Donner 2020; docstring of ``event_series_analysis``)
  * precursor rate of X given Y: fraction of X events that have at least one
    Y event with  DeltaT1 <= t^X_i - (t^Y_j + lag) <= DeltaT2  where
    [DeltaT1, DeltaT2] = [0, taumax];  trigger rate: fraction of Y events
    followed by at least one X event in the same sense; window type
    'symmetric' uses [-taumax, taumax];
  * events that cannot be coincided because of lag and window are left out of
    numerator and denominator: for precursor rates the events of the series
    not later than (first event + lag + taumax), for trigger rates those not
    earlier than (last event - lag - taumax); the symmetric window leaves out
    both ends.  (None are left out for lag = taumax = 0.)
  * undefined when a series has no events or the denominator is zero.

All functions return Fractions (or None for "undefined").
"""
from fractions import Fraction as F

INF = None     # taumax = None means "unbounded"


def _times(series, ts):
    return [F(ts[i]) for i in range(len(series)) if series[i]]


def es_counts(x, y, ts, taumax=INF, lag=0):
    """(c(x|y), c(y|x), (lx-2)*(ly-2)) or None when ES is undefined."""
    ex = _times(x, ts)
    ey = [t + F(lag) for t in _times(y, ts)]
    lx, ly = len(ex), len(ey)
    if lx < 3 or ly < 3:
        return None
    axy, ayx = set(), set()
    eq = 0
    for l in range(1, lx - 1):
        for m in range(1, ly - 1):
            d = ex[l] - ey[m]
            tau = min(ex[l + 1] - ex[l], ex[l] - ex[l - 1],
                      ey[m + 1] - ey[m], ey[m] - ey[m - 1]) / 2
            if taumax is not INF:
                tau = min(tau, F(taumax))
            if d == 0:
                eq += 1
            elif 0 < d <= tau:
                axy.add((l, m))
            elif -tau <= d < 0:
                ayx.add((l, m))

    def doubles(a, b):
        rows = {l for (l, _) in b}
        cols = {m for (_, m) in b}
        return sum(1 for (l, m) in a if l in rows or m in cols)

    cxy = len(axy) + F(eq, 2) - F(doubles(axy, ayx), 2)
    cyx = len(ayx) + F(eq, 2) - F(doubles(ayx, axy), 2)
    return cxy, cyx, (lx - 2) * (ly - 2)


def es_values(x, y, ts, taumax=INF, lag=0):
    """Floats (ES(x|y), ES(y|x)) or None."""
    r = es_counts(x, y, ts, taumax, lag)
    if r is None:
        return None
    cxy, cyx, n2 = r
    return float(cxy) / n2 ** 0.5, float(cyx) / n2 ** 0.5


def _rate(events, others, lo, hi, lag, sign, skip_start, skip_end):
    """Fraction of `events` (after dropping skip_start leading and skip_end
    trailing ones) that have a partner o in `others` with
    lo <= sign*(e - o) - lag <= hi.  None if no event is left."""
    sel = events[skip_start:len(events) - skip_end]
    if not sel:
        return None
    hits = 0
    for e in sel:
        for o in others:
            d = sign * (e - o) - lag
            if lo <= d <= hi:
                hits += 1
                break
    return F(hits, len(sel))


def _n_start(e, lag, taumax):
    return sum(1 for t in e if t <= e[0] + lag + taumax)


def _n_end(e, lag, taumax):
    return sum(1 for t in e if t >= e[-1] - lag - taumax)


def eca(x, y, ts, taumax, lag=0):
    """(precursor XY, trigger XY, precursor YX, trigger YX); entries None
    where the rate is undefined; None altogether if a series has no events."""
    e1, e2 = _times(x, ts), _times(y, ts)
    if not e1 or not e2:
        return None
    lag, taumax = F(lag), F(taumax)
    if lag == 0 and taumax == 0:
        n11 = n12 = n21 = n22 = 0
    else:
        n11, n12 = _n_start(e1, lag, taumax), _n_end(e1, lag, taumax)
        n21, n22 = _n_start(e2, lag, taumax), _n_end(e2, lag, taumax)
    # precursor XY: X events preceded by a Y event
    p12 = _rate(e1, e2, 0, taumax, lag, 1, n11, 0)
    # trigger XY: Y events followed by an X event
    t12 = _rate(e2, e1, 0, taumax, lag, -1, 0, n22)
    p21 = _rate(e2, e1, 0, taumax, lag, 1, n21, 0)
    t21 = _rate(e1, e2, 0, taumax, lag, -1, 0, n12)
    return p12, t12, p21, t21


def eca_window(x, y, ts, taumax, lag, window_type):
    """Pair of rates (entry [i,j], entry [j,i]) of the analysis matrix for
    series i = x, j = y and the given window type."""
    if window_type in ("advanced", "retarded"):
        r = eca(x, y, ts, taumax, lag)
        if r is None:
            return None
        return (r[0], r[2]) if window_type == "advanced" else (r[1], r[3])
    assert window_type == "symmetric"
    e1, e2 = _times(x, ts), _times(y, ts)
    if not e1 or not e2:
        return None
    lag, taumax = F(lag), F(taumax)
    if lag == 0 and taumax == 0:
        n11 = n12 = n21 = n22 = 0
    else:
        n11, n12 = _n_start(e1, lag, taumax), _n_end(e1, lag, taumax)
        n21, n22 = _n_start(e2, lag, taumax), _n_end(e2, lag, taumax)
    c12 = _rate(e1, e2, -taumax, taumax, lag, 1, n11, n12)
    c21 = _rate(e2, e1, -taumax, taumax, lag, 1, n21, n22)
    return c12, c21


def symmetrise(M, option):
    """M: square list of lists of floats (nan allowed)."""
    n = len(M)
    nan = float("nan")

    def isnan(v):
        return v != v

    def f(a, b):
        if option == "directed":
            return a
        if option == "symmetric":
            return a + b
        if option == "antisym":
            return a - b
        if option == "mean":
            return (a + b) / 2
        if option in ("max", "min"):
            if isnan(a) or isnan(b):
                return nan
            return max(a, b) if option == "max" else min(a, b)
        raise ValueError(option)
    return [[f(M[i][j], M[j][i]) for j in range(n)] for i in range(n)]


def quantile_linear(values, q):
    """Linear-interpolation sample quantile (the default of numpy.quantile)
    in exact arithmetic."""
    v = sorted(F(a) for a in values)
    pos = F(q) * (len(v) - 1)
    lo = int(pos)          # floor for pos >= 0
    hi = min(lo + 1, len(v) - 1)
    return v[lo] + (v[hi] - v[lo]) * (pos - lo)


def median(values):
    return quantile_linear(values, F(1, 2))


def threshold_events(column, method, value, ttype):
    """Event column by the stated rule.  Returns (events, used_type) or the
    string 'out-of-range' when a 'value' threshold lies outside the data
    range (the library documents an error for that)."""
    col = [F(a) for a in column]
    if method == "quantile":
        q = F(1, 2) if value is None else F(value)
        thr = quantile_linear(col, q)
        if ttype is None:
            ttype = "above" if q >= F(1, 2) else "below"
    else:
        if value is None:
            thr = median(col)
        else:
            thr = F(value)
            if max(col) < thr or min(col) > thr:
                return "out-of-range"
        if ttype is None:
            ttype = "above" if thr >= median(col) else "below"
    if ttype == "above":
        ev = [1 if a > thr else 0 for a in col]
    else:
        ev = [1 if a < thr else 0 for a in col]
    return ev, ttype
