"""By-definition visibility graphs and their time-directed measures (C14
oracle), in exact rational arithmetic on the values *as stored* by the library
(float32; the alphabets of the check are small integers / dyadics, hence
exact).

Criterion ([Lacasa2008], docstring of VisibilityGraph): samples i < j are
linked in the natural graph iff every intermediate sample k satisfies
    x_k < x_i + (x_j - x_i) (t_k - t_i) / (t_j - t_i),
in the horizontal graph iff every intermediate x_k < min(x_i, x_j).
Neighbouring samples are always linked.  A missing sample is linked to nothing
and nothing is linked across it ("handled as infinite values").

Time-directed measures (docstrings of the retarded_* / advanced_* methods):
past(i) = {0..i-1}, future(i) = {i+1..N-1};
  degree        number of neighbours in the past / future
  clustering    fraction of pairs of past (future) neighbours that are linked
  closeness     1 / mean shortest-path length to the past (future) nodes
  betweenness   sum over ordered pairs (s,t), s != t, both in the past
                (future) of sigma_st(i) / sigma_st  [the normalisation of
                Network.nsi_betweenness(sources, targets) with unit weights,
                established on the path graph 0-1-2: trans_betweenness of the
                middle node is 1]
"""
from fractions import Fraction

import numpy as np


def stored(v):
    f = float(np.float32(v))
    if f != f:
        return None
    return Fraction(f)


def _prep(x, t=None):
    xs = [None if v is None else stored(v) for v in x]
    if t is None:
        ts = [Fraction(i) for i in range(len(x))]
    else:
        ts = [stored(v) for v in t]
    return xs, ts


def natural(x, t=None):
    """Adjacency (list of lists of 0/1).  None / NaN in x = missing."""
    xs, ts = _prep(x, t)
    n = len(xs)
    A = [[0] * n for _ in range(n)]
    for i in range(n):
        for j in range(i + 1, n):
            if xs[i] is None or xs[j] is None:
                continue
            ok = True
            for k in range(i + 1, j):
                if xs[k] is None:
                    ok = False
                    break
                line = xs[i] + (xs[j] - xs[i]) * (ts[k] - ts[i]) / \
                    (ts[j] - ts[i])
                if not xs[k] < line:
                    ok = False
                    break
            if ok:
                A[i][j] = A[j][i] = 1
    return A


def horizontal(x):
    xs, _ = _prep(x)
    n = len(xs)
    A = [[0] * n for _ in range(n)]
    for i in range(n):
        for j in range(i + 1, n):
            if xs[i] is None or xs[j] is None:
                continue
            lim = min(xs[i], xs[j])
            if all(xs[k] is not None and xs[k] < lim
                   for k in range(i + 1, j)):
                A[i][j] = A[j][i] = 1
    return A


def clean_pairs(x):
    """Pairs (i,j), i<j, whose closed index range holds no missing sample."""
    n = len(x)
    miss = [v is None or v != v for v in x]
    return [(i, j) for i in range(n) for j in range(i + 1, n)
            if not any(miss[i:j + 1])]


# -- time-directed measures on a given adjacency ---------------------------

def _side(i, n, side):
    return range(0, i) if side == "retarded" else range(i + 1, n)


def directed_degree(A, side):
    n = len(A)
    return [sum(A[i][j] for j in _side(i, n, side)) for i in range(n)]


def directed_clustering(A, side):
    """Fraction per node, None where fewer than two neighbours on that side
    (probability undefined)."""
    n = len(A)
    out = []
    for i in range(n):
        nb = [j for j in _side(i, n, side) if A[i][j]]
        k = len(nb)
        if k < 2:
            out.append(None)
            continue
        links = sum(1 for a in range(k) for b in range(a + 1, k)
                    if A[nb[a]][nb[b]])
        out.append(Fraction(links, k * (k - 1) // 2))
    return out


def bfs(A, s):
    """(dist, sigma): shortest-path lengths (None = unreachable) and numbers
    of shortest paths from s."""
    n = len(A)
    dist = [None] * n
    sigma = [0] * n
    dist[s], sigma[s] = 0, 1
    frontier = [s]
    while frontier:
        nxt = []
        for v in frontier:
            for w in range(n):
                if not A[v][w]:
                    continue
                if dist[w] is None:
                    dist[w] = dist[v] + 1
                    nxt.append(w)
                if dist[w] == dist[v] + 1:
                    sigma[w] += sigma[v]
        frontier = nxt
    return dist, sigma


def directed_closeness(A, side):
    """Fraction per node; None where undefined (no node on that side, or one
    of them unreachable)."""
    n = len(A)
    out = []
    for i in range(n):
        nodes = list(_side(i, n, side))
        dist, _ = bfs(A, i)
        if not nodes or any(dist[j] is None for j in nodes):
            out.append(None)
            continue
        out.append(Fraction(len(nodes), sum(dist[j] for j in nodes)))
    return out


def pair_betweenness(A, i, sources, targets):
    """sum_{s in sources, t in targets, s != t, s,t != i} sigma_st(i)/sigma_st."""
    di, si = bfs(A, i)
    total = Fraction(0)
    cache = {}
    for s in sources:
        if s == i:
            continue
        if s not in cache:
            cache[s] = bfs(A, s)
        ds, ss = cache[s]
        for t in targets:
            if t == i or t == s or ds[t] is None:
                continue
            if ds[i] is None or di[t] is None:
                continue
            if ds[i] + di[t] == ds[t]:
                total += Fraction(ss[i] * si[t], ss[t])
    return total


def directed_betweenness(A, side):
    n = len(A)
    out = []
    for i in range(n):
        nodes = list(_side(i, n, side))
        out.append(pair_betweenness(A, i, nodes, nodes))
    return out


def trans_betweenness(A):
    n = len(A)
    return [pair_betweenness(A, i, list(range(0, i)), list(range(i + 1, n)))
            for i in range(n)]


def mirror(A):
    n = len(A)
    return [[A[n - 1 - i][n - 1 - j] for j in range(n)] for i in range(n)]


# ---------------------------------------------------------------------------
# Variant for the `scale` family (hundreds of samples).  Inputs are integer
# values and integer timings, so every comparison is exact integer
# arithmetic.  The criterion "every intermediate sample lies strictly below
# the line i-j" is evaluated as "the largest slope from i to an intermediate
# sample is strictly smaller than the slope from i to j" (slopes compared by
# cross-multiplication, timings increase), horizontally as "the largest
# intermediate value is strictly below min(x_i, x_j)".

def fast_natural(x, t, missing):
    n = len(x)
    A = np.zeros((n, n), dtype=int)
    for i in range(n):
        if missing[i]:
            continue
        best = None
        xi, ti = int(x[i]), int(t[i])
        for j in range(i + 1, n):
            if missing[j]:
                break                      # nothing is seen across it
            dx, dt = int(x[j]) - xi, int(t[j]) - ti
            if best is None or best[0] * dt < dx * best[1]:
                A[i, j] = A[j, i] = 1
            if best is None or dx * best[1] > best[0] * dt:
                best = (dx, dt)
    return A


def fast_horizontal(x, missing):
    n = len(x)
    A = np.zeros((n, n), dtype=int)
    for i in range(n):
        if missing[i]:
            continue
        top = None
        for j in range(i + 1, n):
            if missing[j]:
                break
            if top is None or top < min(int(x[i]), int(x[j])):
                A[i, j] = A[j, i] = 1
            top = int(x[j]) if top is None else max(top, int(x[j]))
    return A


def np_apsp(A):
    """All-pairs shortest path lengths (inf = unreachable) and numbers of
    shortest paths (float64), by breadth-first search over neighbour lists."""
    A = np.asarray(A)
    n = len(A)
    nb = [np.nonzero(A[i])[0].tolist() for i in range(n)]
    D = np.full((n, n), np.inf)
    S = np.zeros((n, n))
    for s in range(n):
        dist = [-1] * n
        sig = [0.0] * n
        dist[s], sig[s] = 0, 1.0
        frontier = [s]
        while frontier:
            nxt = []
            for v in frontier:
                for w in nb[v]:
                    if dist[w] < 0:
                        dist[w] = dist[v] + 1
                        nxt.append(w)
                    if dist[w] == dist[v] + 1:
                        sig[w] += sig[v]
            frontier = nxt
        for v in range(n):
            if dist[v] >= 0:
                D[s, v] = dist[v]
                S[s, v] = sig[v]
    return D, S


def np_side(i, n, side):
    return np.arange(0, i) if side == "retarded" else np.arange(i + 1, n)


def np_directed_degree(A, side):
    A = np.asarray(A)
    n = len(A)
    return [int(A[i, np_side(i, n, side)].sum()) for i in range(n)]


def np_directed_clustering(A, side):
    A = np.asarray(A)
    n = len(A)
    out = []
    for i in range(n):
        s = np_side(i, n, side)
        nb = s[A[i, s] == 1]
        k = len(nb)
        if k < 2:
            out.append(None)
            continue
        links = int(A[np.ix_(nb, nb)].sum()) // 2
        out.append(links / (k * (k - 1) / 2))
    return out


def np_directed_closeness(D, side):
    n = len(D)
    out = []
    for i in range(n):
        s = np_side(i, n, side)
        if len(s) == 0 or not np.isfinite(D[i, s]).all():
            out.append(None)
            continue
        out.append(len(s) / float(D[i, s].sum()))
    return out


def np_pair_betweenness(D, S, i, src, tgt):
    if len(src) == 0 or len(tgt) == 0:
        return 0.0
    dst = D[np.ix_(src, tgt)]
    on = (D[src, i][:, None] + D[i, tgt][None, :] == dst) & np.isfinite(dst)
    on &= (src[:, None] != tgt[None, :])
    num = S[src, i][:, None] * S[i, tgt][None, :]
    with np.errstate(divide="ignore", invalid="ignore"):
        frac = np.where(on, num / S[np.ix_(src, tgt)], 0.0)
    return float(frac.sum())


def np_directed_betweenness(D, S, side):
    n = len(D)
    return [np_pair_betweenness(D, S, i, np_side(i, n, side),
                                np_side(i, n, side)) for i in range(n)]


def np_trans_betweenness(D, S):
    n = len(D)
    return [np_pair_betweenness(D, S, i, np.arange(0, i),
                                np.arange(i + 1, n)) for i in range(n)]
