"""Exact reference model of linear resistor networks (C18 oracle).

Everything is computed over an exact field: ``fractions.Fraction`` for real
resistances and the Gaussian rationals ``CQ`` for complex impedances.  No
numpy, no pseudo-inverse, no code shared with pyunicorn.  (Only `np_model` at
the end - the float64 reference of the `scale` family for networks too large
for rational elimination - uses numpy; it solves the grounded Laplacian and
is held to the rational model by `selfcheck_np`.)

Conventions read off the docstrings of ``ResNetwork`` (each reproduced once on
the docstring example, see ``selfcheck``):

* admittance ``Y_ij = 1/r_ij`` on links, 0 elsewhere; admittive degree
  ``ad_i = sum_j Y_ij``;
* effective resistance = potential difference between a and b when a unit
  current enters at a and leaves at b;
* ``VCFB_i = 2/(N(N-1)) * sum_{s<t, i not in {s,t}} 1/2 sum_j Y_ij |v_i-v_j|``
  with the potentials v of a unit current s->t (the docstring example 0.389 /
  0.044 fixes that the end-point terms are *not* added);
* ``ECFB_ij = 2/(N(N-1)) * sum_{s<t} Y_ij |v_i-v_j|``;
* admittive clustering ``ac_i = sum_{j,k} Y_ij Y_ik Y_jk / (ad_i (d_i-1))``,
  0 for ``d_i = 1``; global = arithmetic mean;
* average neighbours admittive degree ``sum_j A_ij ad_j / ad_i`` (docstring
  example 2.25 = 1.125/0.5).
"""
from fractions import Fraction
import itertools


class CQ:
    """Gaussian rational a + b i with Fraction parts."""
    __slots__ = ("re", "im")

    def __init__(self, re=0, im=0):
        self.re, self.im = Fraction(re), Fraction(im)

    @staticmethod
    def of(x):
        if isinstance(x, CQ):
            return x
        if isinstance(x, complex):
            return CQ(Fraction(x.real), Fraction(x.imag))
        return CQ(Fraction(x), 0)

    def __add__(self, o):
        o = CQ.of(o)
        return CQ(self.re + o.re, self.im + o.im)
    __radd__ = __add__

    def __neg__(self):
        return CQ(-self.re, -self.im)

    def __sub__(self, o):
        return self + (-CQ.of(o))

    def __rsub__(self, o):
        return CQ.of(o) - self

    def __mul__(self, o):
        o = CQ.of(o)
        return CQ(self.re * o.re - self.im * o.im,
                  self.re * o.im + self.im * o.re)
    __rmul__ = __mul__

    def inv(self):
        d = self.re * self.re + self.im * self.im
        return CQ(self.re / d, -self.im / d)

    def __truediv__(self, o):
        return self * CQ.of(o).inv()

    def __rtruediv__(self, o):
        return CQ.of(o) * self.inv()

    def __eq__(self, o):
        o = CQ.of(o)
        return self.re == o.re and self.im == o.im

    def __hash__(self):
        return hash((self.re, self.im))

    def __bool__(self):
        return bool(self.re) or bool(self.im)

    def __complex__(self):
        return complex(float(self.re), float(self.im))

    def __repr__(self):
        return "CQ(%s,%s)" % (self.re, self.im)


def num(x):
    """float / complex value of an exact field element."""
    return complex(x) if isinstance(x, CQ) else float(x)


def field(values):
    """(zero, one, convert) of the smallest exact field holding `values`."""
    if any(isinstance(v, (complex, CQ)) for v in values):
        return CQ(0), CQ(1), CQ.of
    return Fraction(0), Fraction(1), Fraction


def links_of(n, rmat):
    """{(i,j): r} with i<j from a full symmetric matrix given as nested
    lists; entries equal to 0 mean 'no link'."""
    out = {}
    for i in range(n):
        for j in range(i + 1, n):
            if rmat[i][j] != 0:
                out[(i, j)] = rmat[i][j]
    return out


def admittance(n, links):
    zero, one, conv = field(list(links.values()))
    Y = [[zero for _ in range(n)] for _ in range(n)]
    for (i, j), r in links.items():
        y = one / conv(r)
        Y[i][j] = y
        Y[j][i] = y
    return Y


def _inverse(M, zero, one):
    """Gauss-Jordan inverse over an exact field."""
    m = len(M)
    A = [list(row) + [one if i == k else zero for k in range(m)]
         for i, row in enumerate(M)]
    for c in range(m):
        p = None
        for r in range(c, m):
            if A[r][c]:
                p = r
                break
        if p is None:
            raise ZeroDivisionError("singular Laplacian minor (disconnected "
                                    "or resonant network)")
        A[c], A[p] = A[p], A[c]
        piv = A[c][c]
        A[c] = [x / piv for x in A[c]]
        for r in range(m):
            if r != c and A[r][c]:
                f = A[r][c]
                A[r] = [x - f * y for x, y in zip(A[r], A[c])]
    return [row[m:] for row in A]


def green(n, links):
    """Grounded Green's function G (n x n, last node grounded: its row and
    column are 0): the potentials of a unit current entering at s and leaving
    at the ground are G[:, s]."""
    Y = admittance(n, links)
    zero, one, _ = field(list(links.values()))
    L = [[(sum((Y[i][k] for k in range(n)), zero) if i == j else zero)
          - (Y[i][j] if i != j else zero)
          for j in range(n - 1)] for i in range(n - 1)]
    Gm = _inverse(L, zero, one) if n > 1 else []
    G = [[zero for _ in range(n)] for _ in range(n)]
    for i in range(n - 1):
        for j in range(n - 1):
            G[i][j] = Gm[i][j]
    return G


def effective_resistance_matrix(n, links):
    G = green(n, links)
    return [[G[a][a] + G[b][b] - G[a][b] - G[b][a] for b in range(n)]
            for a in range(n)]


def effective_resistance_direct(n, links, a, b):
    """Independent route: ground b, inject a unit current at a, read the
    potential of a (used only to self-check `effective_resistance_matrix`)."""
    if a == b:
        return field(list(links.values()))[0]
    order = [x for x in range(n) if x != b] + [b]
    pos = {v: k for k, v in enumerate(order)}
    rel = {}
    for (i, j), r in links.items():
        p, q = sorted((pos[i], pos[j]))
        rel[(p, q)] = r
    G = green(n, rel)
    return G[pos[a]][pos[a]]


def potentials(G, s, t):
    """Potentials (up to a constant) of a unit current s -> t."""
    n = len(G)
    return [G[i][s] - G[i][t] for i in range(n)]


def _absx(x):
    if isinstance(x, CQ):
        raise TypeError("current-flow betweenness is defined for real "
                        "networks only")
    return abs(x)


def vertex_cfb(n, links):
    Y = admittance(n, links)
    G = green(n, links)
    out = []
    for i in range(n):
        tot = Fraction(0)
        for t in range(n):
            for s in range(t):
                if i in (s, t):
                    continue
                v = potentials(G, s, t)
                tot += sum((Y[i][j] * _absx(v[i] - v[j]) for j in range(n)),
                           Fraction(0)) / 2
        out.append(2 * tot / (n * (n - 1)))
    return out


def edge_cfb(n, links):
    Y = admittance(n, links)
    G = green(n, links)
    E = [[Fraction(0)] * n for _ in range(n)]
    for t in range(n):
        for s in range(t):
            v = potentials(G, s, t)
            for i in range(n):
                for j in range(n):
                    if Y[i][j]:
                        E[i][j] += Y[i][j] * _absx(v[i] - v[j])
    return [[2 * E[i][j] / (n * (n - 1)) for j in range(n)] for i in range(n)]


def admittive_degree(n, links):
    Y = admittance(n, links)
    zero = field(list(links.values()))[0]
    return [sum((Y[i][j] for j in range(n)), zero) for i in range(n)]


def degree(n, links):
    d = [0] * n
    for (i, j) in links:
        d[i] += 1
        d[j] += 1
    return d


def avg_neighbours_admittive_degree(n, links):
    ad = admittive_degree(n, links)
    zero = field(list(links.values()))[0]
    out = []
    for i in range(n):
        s = zero
        for (a, b) in links:
            if a == i:
                s = s + ad[b]
            elif b == i:
                s = s + ad[a]
        out.append(s / ad[i])
    return out


def local_admittive_clustering(n, links):
    Y = admittance(n, links)
    ad = admittive_degree(n, links)
    d = degree(n, links)
    zero = field(list(links.values()))[0]
    out = []
    for i in range(n):
        if d[i] == 1:
            out.append(zero)
            continue
        s = zero
        for j in range(n):
            for k in range(n):
                s = s + Y[i][j] * Y[i][k] * Y[j][k]
        out.append(s / (ad[i] * (d[i] - 1)))
    return out


def simple_path_resistances(n, links, a, b):
    """Resistances of all simple paths a..b (real networks)."""
    nb = {i: [] for i in range(n)}
    for (i, j), r in links.items():
        nb[i].append((j, Fraction(r)))
        nb[j].append((i, Fraction(r)))
    out = []

    def rec(v, seen, acc):
        if v == b:
            out.append(acc)
            return
        for w, r in nb[v]:
            if w not in seen:
                rec(w, seen | {w}, acc + r)
    rec(a, {a}, Fraction(0))
    return out


def foster_sum(n, links, er=None):
    er = er or effective_resistance_matrix(n, links)
    _, one, conv = field(list(links.values()))
    tot = field(list(links.values()))[0]
    for (i, j), r in links.items():
        tot = tot + er[i][j] * (one / conv(r))
    return tot


# ---------------------------------------------------------------------------
# structured families


def chain(n):
    """Series chain of n nodes with unit resistors."""
    return series([1] * (n - 1))


def series(rs):
    """Chain 0-1-...-k with resistances rs."""
    return len(rs) + 1, {(i, i + 1): r for i, r in enumerate(rs)}


def parallel(branches, direct=None):
    """Nodes 0 and 1 joined by two-link branches (ra, rb) through one middle
    node each, plus an optional direct link."""
    links = {}
    for k, (ra, rb) in enumerate(branches):
        m = 2 + k
        links[(0, m)] = ra
        links[(1, m)] = rb
    if direct is not None:
        links[(0, 1)] = direct
    return 2 + len(branches), links


def parallel_law(branches, direct=None):
    g = sum((1 / (Fraction(a) + Fraction(b)) for a, b in branches),
            Fraction(0))
    if direct is not None:
        g += 1 / Fraction(direct)
    return 1 / g


def ladder(k, rail=1, rung=1, special=None):
    """2 x k ladder: nodes 2c (top) and 2c+1 (bottom) of column c.  `special`
    = (link index, resistance) overrides one link (links in sorted order)."""
    links = {}
    for c in range(k):
        links[(2 * c, 2 * c + 1)] = rung
        if c + 1 < k:
            links[(2 * c, 2 * c + 2)] = rail
            links[(2 * c + 1, 2 * c + 3)] = rail
    if special is not None:
        key = sorted(links)[special[0]]
        links[key] = special[1]
    return 2 * k, links


def matrix_of(n, links):
    """Full symmetric resistance matrix (nested lists of Python numbers)."""
    cplx = any(isinstance(r, complex) for r in links.values())
    M = [[(0j if cplx else 0.0) for _ in range(n)] for _ in range(n)]
    for (i, j), r in links.items():
        v = complex(r) if cplx else float(r)
        M[i][j] = v
        M[j][i] = v
    return M


def relabel(n, links, perm):
    out = {}
    for (i, j), r in links.items():
        a, b = sorted((perm[i], perm[j]))
        out[(a, b)] = r
    return out


# ---------------------------------------------------------------------------


def selfcheck():
    """The reference is checked against the circuit laws themselves and
    against the library's docstring example before it judges anything."""
    F = Fraction
    # docstring example of ResNetwork.SmallTestNetwork
    links = {(0, 1): 2, (1, 2): 8, (1, 3): 2, (2, 3): 8, (3, 4): 10}
    er = effective_resistance_matrix(5, links)
    assert er[1][2] == F(40, 9), er[1][2]                  # 4.444
    assert max(max(r) for r in er) == F(130, 9)            # 14.444
    assert sum(er[i][j] for i in range(5) for j in range(i)) * 2 / 20 \
        == F(328, 45)                                      # 7.28889
    v = vertex_cfb(5, links)
    assert v[1] == F(7, 18) and v[2] == F(2, 45) and v[0] == 0, v  # .389 .044
    e = edge_cfb(5, links)
    assert e[0][1] == F(2, 5) and e[1][2] == F(11, 45) and \
        e[1][3] == F(8, 15), e
    assert admittive_degree(5, links) == [F(1, 2), F(9, 8), F(1, 4),
                                          F(29, 40), F(1, 10)]
    assert avg_neighbours_admittive_degree(5, links)[0] == F(9, 4)
    assert avg_neighbours_admittive_degree(5, links)[2] == F(37, 5)
    ac = local_admittive_clustering(5, links)
    assert ac[0] == 0 and ac[1] == F(1, 144) and ac[2] == F(1, 16), ac
    # complex docstring example: admittance 0.1-0.2i for 2+4i
    cl = {(0, 1): 2 + 4j, (1, 2): 8 + 8j, (1, 3): 2 + 2j, (2, 3): 8 + 8j,
          (3, 4): 10 + 10j}
    Y = admittance(5, cl)
    assert Y[0][1] == CQ(F(1, 10), F(-1, 5))
    # circuit laws on the oracle, over a few weighted circuits
    circuits = [series([F(1, 2), 1, 2, 3]),
                parallel([(1, 2), (F(1, 2), F(1, 2)), (2, 2)], direct=1),
                ladder(3), ladder(4, special=(2, F(1, 2))),
                (5, links), (5, cl),
                (4, {(0, 1): 1, (0, 2): 2, (0, 3): F(1, 2), (1, 2): 1,
                     (1, 3): 2, (2, 3): 1})]
    for n, lk in circuits:
        er = effective_resistance_matrix(n, lk)
        zero, one, conv = field(list(lk.values()))
        cplx = isinstance(zero, CQ)
        assert foster_sum(n, lk, er) == n - 1
        for a in range(n):
            assert er[a][a] == zero
            for b in range(n):
                assert er[a][b] == er[b][a]
                assert er[a][b] == effective_resistance_direct(n, lk, a, b)
                if cplx:
                    continue
                if a != b:
                    assert er[a][b] > 0
                    assert er[a][b] <= min(simple_path_resistances(
                        n, lk, a, b))
                for c in range(n):
                    assert er[a][c] <= er[a][b] + er[b][c]
        # linear scaling
        lk3 = {k: conv(r) * 3 for k, r in lk.items()}
        er3 = effective_resistance_matrix(n, lk3)
        assert all(er3[a][b] == 3 * er[a][b]
                   for a in range(n) for b in range(n))
    n, lk = series([F(1, 2), 1, 2, 3])
    er = effective_resistance_matrix(n, lk)
    assert er[0][4] == F(13, 2) and er[1][3] == 3
    br = [(1, 2), (F(1, 2), F(1, 2)), (2, 2)]
    n, lk = parallel(br, direct=1)
    assert effective_resistance_matrix(n, lk)[0][1] == parallel_law(br, 1)
    # two equal resistors in parallel halve, in series add
    assert parallel_law([(1, 1), (1, 1)]) == 1
    # relabelling is a symmetry of the model
    n, lk = ladder(3, special=(1, 2))
    er = effective_resistance_matrix(n, lk)
    for perm in itertools.islice(itertools.permutations(range(n)), 0, 720,
                                 97):
        erp = effective_resistance_matrix(n, relabel(n, lk, perm))
        assert all(erp[perm[a]][perm[b]] == er[a][b]
                   for a in range(n) for b in range(n))
    return True


# ---------------------------------------------------------------------------
# larger structured networks (the `scale` family) and a float64 reference for
# sizes where the rational solver gets slow.  numpy is used only below; the
# float64 reference solves the *grounded* Laplacian with numpy.linalg.solve
# (the library takes the pseudo-inverse of the full one) and is held to the
# rational model on every network <= 23 nodes it is used on.


def _pattern(pairs_):
    vals = [Fraction(1, 2), Fraction(1), Fraction(2)]
    return {(i, j): vals[(i + 2 * j) % 3] for (i, j) in pairs_}


def ring_chords(n):
    """Ring 0-1-...-(n-1)-0 plus chords i -- i+n//3 for every third i and
    two links touching the highest-numbered nodes."""
    pr = set()
    for i in range(n):
        pr.add(tuple(sorted((i, (i + 1) % n))))
    for i in range(0, n, 3):
        pr.add(tuple(sorted((i, (i + n // 3) % n))))
    pr.add(tuple(sorted((n - 1, n // 2))))
    pr.add(tuple(sorted((n - 2, 1))))
    pr = {p for p in pr if p[0] != p[1]}
    return n, _pattern(sorted(pr))


def heap_tree(n):
    """Binary tree in heap order (bipartite, many leaves)."""
    return n, _pattern([((i - 1) // 2, i) for i in range(1, n)])


def ladder_tail(n):
    """2 x (n//2) ladder; an odd n hangs one more node on the last one."""
    k = n // 2
    m, links = ladder(k)
    pr = sorted(links)
    if n % 2:
        pr.append((2 * k - 1, 2 * k))
    return n, _pattern(pr)


def np_model(n, links):
    """float64 reference: effective resistances, centred Green's function
    magnitude, vertex / edge current flow betweenness, admittive measures."""
    import numpy as np
    Y = np.zeros((n, n))
    for (i, j), r in links.items():
        Y[i, j] = Y[j, i] = 1.0 / float(r)
    L = np.diag(Y.sum(axis=1)) - Y
    G = np.zeros((n, n))
    G[:n - 1, :n - 1] = np.linalg.solve(L[:n - 1, :n - 1], np.eye(n - 1))
    d = np.diag(G)
    ER = d[:, None] + d[None, :] - G - G.T
    Gc = G - G.mean(axis=0, keepdims=True) - G.mean(axis=1, keepdims=True) \
        + G.mean()
    E = np.zeros((n, n))
    vc = np.zeros(n)
    for t in range(n):
        for s in range(t):
            v = G[:, s] - G[:, t]
            F = Y * np.abs(v[:, None] - v[None, :])
            E += F
            cur = F.sum(axis=1) / 2.0
            cur[s] = cur[t] = 0.0
            vc += cur
    norm = 2.0 / (n * (n - 1))
    ad = Y.sum(axis=1)
    A = (Y != 0).astype(float)
    deg = A.sum(axis=1)
    tri = np.einsum("ij,ik,jk->i", Y, Y, Y)
    lac = np.where(deg > 1, tri / (ad * np.maximum(deg - 1, 1)), 0.0)
    return {"ER": ER, "rmax": float(np.max(np.abs(Gc))), "Y": Y, "pinv": Gc,
            "vcfb": vc * norm, "ecfb": E * norm, "ad": ad,
            "anad": (A @ ad) / ad, "lac": lac}


def selfcheck_np():
    import numpy as np
    for n, lk in (ring_chords(9), heap_tree(12), ladder_tail(9),
                  ring_chords(12)):
        m = np_model(n, lk)
        er = effective_resistance_matrix(n, lk)
        assert np.allclose(m["ER"], [[float(x) for x in r] for r in er],
                           rtol=1e-11, atol=1e-12)
        assert np.allclose(m["vcfb"], [float(x) for x in vertex_cfb(n, lk)],
                           rtol=1e-10, atol=1e-12)
        assert np.allclose(m["ecfb"], [[float(x) for x in r]
                                       for r in edge_cfb(n, lk)],
                           rtol=1e-10, atol=1e-12)
        assert np.allclose(m["lac"], [float(x) for x in
                                      local_admittive_clustering(n, lk)])
        assert np.allclose(m["anad"], [float(x) for x in
                                       avg_neighbours_admittive_degree(n, lk)])
        assert foster_sum(n, lk, er) == n - 1
        # the centred Green's function is the Moore-Penrose inverse of L
        Lp = np.diag(m["Y"].sum(axis=1)) - m["Y"]
        P = m["pinv"]
        assert np.allclose(Lp @ P @ Lp, Lp, atol=1e-10)
        assert np.allclose(P @ Lp @ P, P, atol=1e-10)
        assert np.allclose(P, P.T, atol=1e-12)
        assert np.allclose(P.sum(axis=0), 0, atol=1e-10)
    return True


# ---------------------------------------------------------------------------
# wide-range networks (resistances spanning many decades) and long chains


def dumbbell(bridge):
    """Two 6-node rings with one chord each (resistances in {1/2,1,2}),
    joined by a single bridge 2 -- 8."""
    vals = [Fraction(1, 2), Fraction(1), Fraction(2)]
    links = {}
    for off in (0, 6):
        for i in range(6):
            a, b = sorted((off + i, off + (i + 1) % 6))
            links[(a, b)] = vals[i % 3]
        links[(off, off + 3)] = Fraction(2)
    links[(2, 8)] = Fraction(bridge)
    return 12, links


def wide_chain3():
    return 3, {(0, 1): Fraction(1), (1, 2): Fraction(10 ** 7)}


def wide_chain4():
    return 4, {(0, 1): Fraction(1, 1000), (1, 2): Fraction(1),
               (2, 3): Fraction(10 ** 7)}


def wide_star():
    rs = [Fraction(1, 1000), Fraction(1, 100), 1, 10, 100, 10 ** 4, 10 ** 5,
          10 ** 6]
    return 9, {(0, k + 1): Fraction(r) for k, r in enumerate(rs)}


def pinv_exact(n, links):
    """Moore-Penrose inverse of the admittance Laplacian, exactly: the
    doubly centred grounded Green's function."""
    G = green(n, links)
    row = [sum(G[i], Fraction(0)) / n for i in range(n)]
    col = [sum((G[i][j] for i in range(n)), Fraction(0)) / n
           for j in range(n)]
    tot = sum(row, Fraction(0)) / n
    return [[G[i][j] - row[i] - col[j] + tot for j in range(n)]
            for i in range(n)]


def chain_vcfb(n, i):
    """Unit chain: every pair s < i < t sends its whole unit current through
    node i."""
    return Fraction(2 * i * (n - 1 - i), n * (n - 1))


def chain_ecfb(n, i):
    """Link (i, i+1) of a unit chain carries the current of every pair
    s <= i < t."""
    return Fraction(2 * (i + 1) * (n - 1 - i), n * (n - 1))


def selfcheck_wide():
    n, lk = chain(7)
    assert vertex_cfb(n, lk) == [chain_vcfb(n, i) for i in range(n)]
    e = edge_cfb(n, lk)
    assert all(e[i][i + 1] == chain_ecfb(n, i) for i in range(n - 1))
    for n, lk in (dumbbell(10 ** 6), wide_chain4(), wide_star()):
        P = pinv_exact(n, lk)
        Y = admittance(n, lk)
        L = [[(sum(Y[i], Fraction(0)) if i == j else 0) - Y[i][j]
              for j in range(n)] for i in range(n)]

        def mm(A, B):
            return [[sum((A[i][k] * B[k][j] for k in range(n)), Fraction(0))
                     for j in range(n)] for i in range(n)]
        assert mm(mm(L, P), L) == L and mm(mm(P, L), P) == P
        assert all(P[i][j] == P[j][i] for i in range(n) for j in range(n))
        er = effective_resistance_matrix(n, lk)
        assert all(er[a][b] == P[a][a] + P[b][b] - 2 * P[a][b]
                   for a in range(n) for b in range(n))
        assert foster_sum(n, lk, er) == n - 1
    n, lk = dumbbell(10 ** 7)
    er = effective_resistance_matrix(n, lk)
    assert er[2][8] == 10 ** 7          # a bridge is in series with the rest
    assert edge_cfb(n, lk)[2][8] == Fraction(2 * 36, 12 * 11)
    return True
