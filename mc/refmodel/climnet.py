"""Reference model of a thresholded similarity ("climate") network (C09).

Everything here is written from the documentation of
``pyunicorn.climate.ClimateNetwork`` and from the property text; plain Python
floats, lists and ``fractions.Fraction`` - no numpy, no library code.

Documented behaviour that the model encodes
-------------------------------------------
* The similarity matrix is stored as the absolute value of its single
  precision image (``ClimateNetwork.__init__``: "taking the absolute value by
  default"; float32 storage is a sandbox fact of AUTHORING.md).  All oracles
  start from these stored values (`stored`).
* ``threshold``: "the threshold of similarity measure, *above* which two nodes
  are linked" -> strict ``>``;  "self-loops ... are not allowed" -> zero
  diagonal.
* ``non_local``: "links between spatially close nodes should be suppressed";
  ``_calculate_non_local_adjacency`` documents the smooth distance weight
  ``0.5 * (tanh(a * (d - d_min)) + 1)`` with ``a = 20`` ("steepness") and
  ``d_min = 0.05`` rad ("minimum distance above which links can be included"),
  d the angular great-circle distance of the grid; the weighted similarity is
  thresholded.
* ``threshold_from_link_density(rho)``: the similarities are sorted and the
  entry number ``int((1 - rho) * P)`` (P = N^2 - N ordered node pairs) is the
  threshold, "exclud[ing] the entries on the main diagonal ..., since they
  will not be included in the network anyways" -> the order statistic is
  taken among the *off-diagonal* entries (`quantile_index`,
  `quantile_thresholds`).  For ``rho = 0`` the index runs past the last
  off-diagonal entry: then only "no link" is demanded.
* ``link_density`` of a network is (number of non-zero adjacency entries) /
  (N (N-1)) for directed and undirected networks alike; ``n_links`` counts
  ordered entries for a directed and unordered pairs for an undirected
  network (``Network.adjacency`` setter).

Consequences used as oracles (property C09)
-------------------------------------------
With P ordered pairs, k = floor((1-rho) P) and tau the k-th smallest
off-diagonal similarity:  #{s <= tau} >= k+1  and  #{s < tau} <= k, hence

    rho P - ties(tau)  <=  #links  <=  rho P,

ties(tau) = number of off-diagonal ordered entries equal to tau
(`density_bounds`).  The upper bound survives the distance weight (weights are
<= 1), the lower one does not (pairs can be removed by the weight), so it is
only demanded for local networks.

Three-valued comparison
-----------------------
The library evaluates ``|S| * w`` and the comparison in single precision
(numpy keeps float32 when a Python float is the other operand).  A pair is
*decided exactly* when no rounding can interfere: the weight is exactly 1 (or
weights are not applied) and the threshold is itself a float32 number.
Otherwise a pair whose weighted similarity lies within the float32 tolerance
of AUTHORING.md (rtol 2e-5, atol 2e-6) of the threshold is *undecided* and
excluded from the verdict (counted).
"""
import math
import struct
from fractions import Fraction

A_STEEP = 20.0
D_MIN = 0.05
RTOL32 = 2e-5
ATOL32 = 2e-6


def f32(x):
    """Nearest single precision number, as a Python float."""
    return struct.unpack("f", struct.pack("f", float(x)))[0]


def is_f32(x):
    x = float(x)
    return math.isfinite(x) and f32(x) == x


def stored(S):
    """|float32(S)| as a list of lists of Python floats."""
    return [[abs(f32(v)) for v in row] for row in S]


def is_symmetric(M):
    n = len(M)
    return all(M[i][j] == M[j][i] for i in range(n) for j in range(i))


def distance_weight(d):
    """0.5 (tanh(a (d - d_min)) + 1), a = 20, d_min = 0.05 rad."""
    return 0.5 * (math.tanh(A_STEEP * (float(d) - D_MIN)) + 1.0)


def great_circle(lat, lon):
    """float64 great-circle angles (radians) between points in degrees,
    atan2(|a x b|, a . b) on the unit vectors.  Only used for a coarse sanity
    bound on the distances the library reports (their accuracy is C12)."""
    pts = []
    for la, lo in zip(lat, lon):
        la, lo = math.radians(la), math.radians(lo)
        pts.append((math.cos(la) * math.cos(lo), math.cos(la) * math.sin(lo),
                    math.sin(la)))
    n = len(pts)
    D = [[0.0] * n for _ in range(n)]
    for i in range(n):
        for j in range(n):
            a, b = pts[i], pts[j]
            cx = (a[1] * b[2] - a[2] * b[1], a[2] * b[0] - a[0] * b[2],
                  a[0] * b[1] - a[1] * b[0])
            D[i][j] = math.atan2(math.sqrt(sum(c * c for c in cx)),
                                 sum(x * y for x, y in zip(a, b)))
    return D


def weighted(Sabs, D, non_local):
    """(V, exact): V[i][j] = |S|[i][j] * w(d_ij) (w = 1 for a local network);
    exact[i][j] tells whether V is free of rounding differences between a
    single and a double precision evaluation (weight exactly 1)."""
    n = len(Sabs)
    V = [[0.0] * n for _ in range(n)]
    X = [[True] * n for _ in range(n)]
    for i in range(n):
        for j in range(n):
            if non_local:
                w = distance_weight(D[i][j])
                V[i][j] = Sabs[i][j] * w
                X[i][j] = (w == 1.0)
            else:
                V[i][j] = Sabs[i][j]
    return V, X


def adjacency(V, X, tau):
    """Three-valued adjacency.  Returns (A, U): A[i][j] in {0,1} the
    by-definition adjacency ``V > tau`` off the diagonal, U[i][j] True where
    the decision is within single precision rounding of the threshold and is
    therefore not judged."""
    n = len(V)
    tau = float(tau)
    tau_exact = is_f32(tau)
    A = [[0] * n for _ in range(n)]
    U = [[False] * n for _ in range(n)]
    for i in range(n):
        for j in range(n):
            if i == j:
                continue
            v = V[i][j]
            A[i][j] = 1 if v > tau else 0
            if not (X[i][j] and tau_exact):
                if abs(v - tau) <= ATOL32 + RTOL32 * abs(tau):
                    U[i][j] = True
    return A, U


def offdiag_sorted(Sabs):
    n = len(Sabs)
    return sorted(Sabs[i][j] for i in range(n) for j in range(n) if i != j)


def quantile_index(rho, P):
    """Accepted indices k = floor((1 - rho) P).  rho is a binary float; when
    it is meant as a simple fraction (1/6, 2/3, ...) the exact and the
    intended value of (1-rho)P can fall on different sides of an integer, so
    both readings are accepted (they coincide for every density used in the
    check)."""
    r = Fraction(float(rho))
    ks = {math.floor((1 - r) * P),
          math.floor((1 - r.limit_denominator(1000)) * P)}
    return sorted(ks)


def quantile_thresholds(Sabs, rho):
    """The accepted thresholds for a requested density: the k-th smallest
    off-diagonal stored similarity for each accepted k; ``None`` in the list
    stands for k = P (rho = 0: any threshold that leaves no link)."""
    offs = offdiag_sorted(Sabs)
    P = len(offs)
    out = []
    for k in quantile_index(rho, P):
        out.append(offs[k] if k < P else None)
    return out


def ties(Sabs, tau):
    n = len(Sabs)
    return sum(1 for i in range(n) for j in range(n)
               if i != j and Sabs[i][j] == tau)


def density_bounds(Sabs, rho, tau):
    """(lo, hi) bounds on the number of non-zero adjacency entries after a
    density request rho that selected threshold tau (lo only meaningful for a
    local network)."""
    n = len(Sabs)
    P = n * (n - 1)
    hi = Fraction(float(rho)).limit_denominator(10 ** 6) * P
    lo = hi - ties(Sabs, tau)
    return lo, hi


def diagonal_is_maximal(Sabs):
    n = len(Sabs)
    dmin = min(Sabs[i][i] for i in range(n))
    offs = offdiag_sorted(Sabs)
    return (not offs) or dmin >= offs[-1]


def all_sorted(Sabs):
    return sorted(v for row in Sabs for v in row)


class Model:
    """The reference state machine: state = (threshold, non_local) over fixed
    (stored similarity, distances, directed)."""

    def __init__(self, Sabs, D, directed, tau, non_local=False):
        self.S, self.D, self.directed = Sabs, D, bool(directed)
        self.tau, self.non_local = tau, bool(non_local)
        self.n = len(Sabs)

    def state(self):
        return (self.tau, self.non_local)

    # -- derived facts about the stored similarity (cached; overridden with
    #    numpy in NpModel) --------------------------------------------------
    def _memo(self, name, f):
        c = self.__dict__.setdefault("_memo_", {})
        if name not in c:
            c[name] = f()
        return c[name]

    def offs(self):
        return self._memo("offs", lambda: offdiag_sorted(self.S))

    def allv(self):
        return self._memo("allv", lambda: all_sorted(self.S))

    def diag_max(self):
        return self._memo("dmax", lambda: diagonal_is_maximal(self.S))

    def symmetric(self):
        return self._memo("sym", lambda: is_symmetric(self.S))

    def bounds(self, rho, tau):
        return density_bounds(self.S, rho, tau)

    def thresholds_for(self, rho):
        offs = self.offs()
        P = len(offs)
        return [float(offs[k]) if k < P else None
                for k in quantile_index(rho, P)]

    def at_or_above(self, tau):
        """The matrix (|S| w >= tau) off the diagonal - only used to name the
        closed form of a wrong adjacency."""
        self.expected()
        V, _ = self._w[self.non_local]
        n = self.n
        return [[1 if (i != j and V[i][j] >= tau) else 0 for j in range(n)]
                for i in range(n)]

    def apply(self, op):
        """op = ["thr", t] | ["dens", rho] | ["nl", b].  For "dens" the new
        threshold is one of `quantile_thresholds`; the model keeps the list in
        ``self.accepted`` and the caller synchronises ``tau`` with the value
        the implementation reports (after judging it)."""
        kind, arg = op
        self.accepted = None
        if kind == "thr":
            self.tau = arg
        elif kind == "dens":
            self.accepted = self.thresholds_for(arg)
            self.tau = self.accepted[0]
        elif kind == "nl":
            self.non_local = bool(arg)
        else:
            raise ValueError(op)

    def expected(self, tau=None):
        if not hasattr(self, "_w"):
            self._w = {}
        if self.non_local not in self._w:
            self._w[self.non_local] = weighted(self.S, self.D, self.non_local)
        V, X = self._w[self.non_local]
        return adjacency(V, X, self.tau if tau is None else tau)


class NpModel(Model):
    """The same reference model evaluated with numpy arrays (for networks of
    a few hundred nodes, where the plain loops above are too slow).  Still
    nothing but the documented formulas: elementwise ``|S| * w > tau``,
    a sort of the off-diagonal entries, counts.  `Sabs` and `D` are float64
    arrays (the single precision values as stored / as the grid reports
    them)."""

    def __init__(self, Sabs, D, directed, tau, non_local=False):
        import numpy as np
        self.np = np
        Model.__init__(self, np.asarray(Sabs, dtype=float),
                       np.asarray(D, dtype=float), directed, tau, non_local)
        self.off = ~np.eye(self.n, dtype=bool)

    def offs(self):
        return self._memo("offs", lambda: self.np.sort(self.S[self.off]))

    def allv(self):
        return self._memo("allv", lambda: self.np.sort(self.S.ravel()))

    def diag_max(self):
        return self._memo("dmax", lambda: bool(
            self.S.diagonal().min() >= self.offs()[-1]))

    def symmetric(self):
        return self._memo("sym", lambda: bool(
            self.np.array_equal(self.S, self.S.T)))

    def bounds(self, rho, tau):
        P = self.n * (self.n - 1)
        hi = Fraction(float(rho)).limit_denominator(10 ** 6) * P
        t = int(self.np.count_nonzero(self.S[self.off] == tau))
        return hi - t, hi

    def _weighted(self):
        np = self.np
        if not hasattr(self, "_w"):
            self._w = {}
        if self.non_local not in self._w:
            if self.non_local:
                W = 0.5 * (np.tanh(A_STEEP * (self.D - D_MIN)) + 1.0)
                self._w[True] = (self.S * W, W == 1.0)
            else:
                self._w[False] = (self.S, np.ones_like(self.S, dtype=bool))
        return self._w[self.non_local]

    def expected(self, tau=None):
        np = self.np
        tau = float(self.tau if tau is None else tau)
        V, X = self._weighted()
        A = ((V > tau) & self.off).astype(int)
        if is_f32(tau):
            loose = ~X
        else:
            loose = np.ones_like(X)
        U = loose & self.off & (np.abs(V - tau) <= ATOL32 + RTOL32 * abs(tau))
        return A, U

    def at_or_above(self, tau):
        V, _ = self._weighted()
        return ((V >= tau) & self.off).astype(int)


def reachable_states(Sabs, ops, tau0):
    """All (tau, non_local) states of the model reachable from (tau0, False)
    with the given operations (breadth first; tau None = 'no link')."""
    start = (tau0, False)
    seen, todo = {start}, [start]
    while todo:
        tau, nl = todo.pop()
        for kind, arg in ops:
            if kind == "thr":
                nxt = (arg, nl)
            elif kind == "dens":
                nxt = (quantile_thresholds(Sabs, arg)[0], nl)
            else:
                nxt = (tau, bool(arg))
            if nxt not in seen:
                seen.add(nxt)
                todo.append(nxt)
    return seen
