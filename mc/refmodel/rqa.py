"""By-definition run-length statistics of a binary matrix (C08 oracle).

Conventions (read off the docstrings of RecurrencePlot): histogram entry l-1
counts lines of length l; the diagonal histogram covers both triangles and
never the main diagonal; "vertical" lines run along the second index with the
first index fixed (on the symmetric matrices of the property this is the same
as the transposed reading); a line is a maximal run.  With missing-value
handling a run is dropped when it contains or is directly adjacent (along its
own scan line) to a cell whose row or column sample is missing.
"""
import math


def _runs(cells, colour, missing=None):
    """cells: list of (value, is_missing).  Returns lengths of maximal runs of
    `colour` among non-missing cells, dropping runs adjacent to a missing
    cell when `missing` handling is on."""
    out = []
    n = len(cells)
    i = 0
    while i < n:
        v, m = cells[i]
        if m or v != colour:
            i += 1
            continue
        j = i
        while j < n and (not cells[j][1]) and cells[j][0] == colour:
            j += 1
        touch = (i > 0 and cells[i - 1][1]) or (j < n and cells[j][1])
        if not touch:
            out.append(j - i)
        i = j
    return out


def _hist(lengths, n):
    h = [0] * n
    for L in lengths:
        h[L - 1] += 1
    return h


def diag_hist(R, mv=None):
    n = len(R)
    mv = mv or [False] * n
    lengths = []
    for off in range(1, n):
        for sign in (1, -1):
            cells = []
            for k in range(n - off):
                i, j = (k + off, k) if sign == 1 else (k, k + off)
                cells.append((1 if R[i][j] else 0, bool(mv[i] or mv[j])))
            lengths += _runs(cells, 1)
    return _hist(lengths, n)


def vert_hist(R, mv=None, colour=1):
    n = len(R)
    mv = mv or [False] * n
    lengths = []
    for i in range(n):
        cells = [(1 if R[i][j] else 0, bool(mv[i] or mv[j]))
                 for j in range(n)]
        lengths += _runs(cells, colour)
    return _hist(lengths, n)


def white_hist(R, mv=None):
    return vert_hist(R, mv, colour=0)


EPS = 1e-8


def ratio_measure(h, lmin):
    """(sum_{l>=lmin} l h_l) / (sum_l l h_l + eps): DET / LAM."""
    n = len(h)
    part = sum((l + 1) * h[l] for l in range(lmin - 1, n))
    full = sum((l + 1) * h[l] for l in range(n))
    return part / (full + EPS)


def mean_length(h, lmin):
    n = len(h)
    part = sum((l + 1) * h[l] for l in range(lmin - 1, n))
    num = sum(h[l] for l in range(lmin - 1, n))
    return part / (num + EPS)


def entropy(h, lmin):
    hh = [x for x in h[lmin - 1:] if x != 0]
    tot = sum(hh) + EPS
    return -sum((x / tot) * math.log(x / tot) for x in hh) + 0.0


def max_length(h):
    nz = [l + 1 for l, x in enumerate(h) if x]
    return max(nz) if nz else 0
