"""By-definition evaluation of the cross/internal measures of interacting
networks on the sub-blocks of a full network (C11 oracle).

Everything is plain Python on lists: ``A`` the 0/1 adjacency (list of lists),
``w`` node weights, ``W`` a link-attribute matrix, ``D`` the shortest-path
matrix of the FULL network (paths may leave the groups, as every docstring of
the class says), ``L1``/``L2``/``L`` node lists *in the order given by the
caller*: entry i of every per-node result belongs to node ``L1[i]``.

Conventions read off the docstrings / docstring examples of
``pyunicorn.core.InteractingNetworks`` (reproduced by `selftest()` on the
6-node example network, none of them computed with the library):

* block matrices are ``M[L1][:, L2]`` in list order;
* cross degree of a directed network = in + out, undirected = row sum;
* ``total_cross_degree`` is the MEAN cross degree of the first group (the
  pinned tests; the two docstring example outputs are interchanged);
* densities: cross = links/(N1*N2), internal = links/(N(N-1)/2) resp.
  /(N(N-1)) when directed;
* ``internal_global_clustering`` = mean over the group of the local clustering
  of the WHOLE network (stated in the docstring), cross local clustering of v
  = linked pairs among the neighbours of v in group 2 / (k(k-1)/2), 0 if k<2;
  transitivity = sum of triangles / sum of triples, 0 without triples;
* average path lengths: mean over the pairs "for which a path exists"
  (internal: i != j);
* closeness: (number of other nodes) / (sum of distances); pairs without a
  path enter with the "maximum possible path length" n-1 where n is the size
  of the whole network (cross) resp. of the group (internal) - the convention
  of the source comment, applied here and counted by the check;
* ``local_efficiency`` = mean_j 1/d_ij, ``global_efficiency`` = 1 / mean of the
  local efficiencies (docstring example 1.7143);
* betweenness: sum over ordered (source in L1, target in L2, s != t) pairs of
  the fraction of shortest s-t paths that contain v as an inner node (so
  L1 = L2 = all nodes gives twice the usual betweenness, docstring example);
* n.s.i. measures (Wiedermann et al. 2013): A+ = A + 1, d*_vv = 1,
  k*_v = sum_{q in L2} A+_vq w_q,  C*_v = sum_{p,q in L2} A+_vp w_p A+_pq w_q
  A+_qv / k*_v^2,  global clustering / mean degree = w-weighted mean over L1,
  T* = sum_v w_v (numerator of C*_v) / sum_v w_v k*_v^2,  edge density =
  sum_v w_v k*_v / (W1 W2),  closeness = W2 / sum_q w_q d*_vq (no path:
  N-1), average path length = sum_{v,q} w_v w_q d*_vq / (W1 W2),
  betweenness = (1/w_v) sum_{s,t} w_s w_t P_st(v)/P_st with P the sum over
  shortest paths of the product of all node weights on the path.
"""
import math

INF = float("inf")


# ---------------------------------------------------------------------------
# full-network path structure


def distances(A, length=None):
    """All-pairs shortest path lengths (Floyd-Warshall); D[i][j] is the
    length of the shortest directed path i -> j, inf without a path."""
    n = len(A)
    D = [[0.0 if i == j else
          ((length[i][j] if length is not None else 1.0) if A[i][j] else INF)
          for j in range(n)] for i in range(n)]
    for k in range(n):
        Dk = D[k]
        for i in range(n):
            dik = D[i][k]
            if dik == INF:
                continue
            Di = D[i]
            for j in range(n):
                v = dik + Dk[j]
                if v < Di[j]:
                    Di[j] = v
    return D


def distances_np(A, length=None):
    """The same Floyd-Warshall recursion with one numpy update per pivot
    (scale family; returns a list of lists like `distances`)."""
    import numpy as np
    Aa = np.asarray(A)
    n = len(Aa)
    D = np.where(Aa != 0, 1.0 if length is None
                 else np.asarray(length, dtype=float), INF)
    np.fill_diagonal(D, 0.0)
    for k in range(n):
        D = np.minimum(D, D[:, k, None] + D[None, k, :])
    return D.tolist()


def betweenness_counts(A, D, L1, L2, w=None):
    """Inter-group betweenness of an UNDIRECTED network without enumerating
    paths: with P_s(x) the sum over shortest s-x paths of the product of the
    node weights on the path (unweighted: the number of paths), a node v lies
    on a shortest s-t path iff d(s,v)+d(v,t)=d(s,t), and the paths through v
    contribute P_s(v) P_t(v) / w_v.  Must agree with `betweenness` (checked in
    selftest and on every scale input small enough to enumerate)."""
    import numpy as np
    Aa = np.asarray(A, dtype=float)
    Da = np.asarray(D, dtype=float)
    n = len(Aa)
    ww = np.ones(n) if w is None else np.asarray(w, dtype=float)
    P = {}
    for s in sorted(set(L1) | set(L2)):
        p = np.zeros(n)
        p[s] = ww[s]
        ds = Da[s]
        fin = ds[np.isfinite(ds)]
        for d in range(1, int(fin.max()) + 1):
            layer = ds == d
            prev = np.where(ds == d - 1, p, 0.0)
            p[layer] = ww[layer] * (prev @ Aa)[layer]
        P[s] = p
    B = np.zeros(n)
    for s in L1:
        for t in L2:
            if s == t or Da[s][t] == INF:
                continue
            on = (Da[s] + Da[t]) == Da[s][t]
            on[s] = on[t] = False
            B[on] += ww[s] * ww[t] * (P[s][on] * P[t][on] / ww[on]) / P[s][t]
    if w is not None:
        B = B / ww
    return B.tolist()


def shortest_paths(A, D, s, t):
    """All shortest (hop-count) paths s -> t as node lists; D = distances(A)."""
    if D[s][t] == INF:
        return []
    if s == t:
        return [[s]]
    out = []
    n = len(A)

    def grow(path):
        u = path[-1]
        if u == t:
            out.append(list(path))
            return
        for x in range(n):
            if A[u][x] and D[s][x] == D[s][u] + 1 and \
                    D[x][t] == D[u][t] - 1:
                path.append(x)
                grow(path)
                path.pop()
    grow([s])
    return out


# ---------------------------------------------------------------------------
# blocks


def block(M, L1, L2):
    return [[M[i][j] for j in L2] for i in L1]


def transpose(B):
    if not B:
        return []
    return [[B[i][j] for i in range(len(B))] for j in range(len(B[0]))]


# ---------------------------------------------------------------------------
# counts, degrees, densities


def number_cross_links(A, L1, L2):
    return sum(A[i][j] for i in L1 for j in L2)


def number_internal_links(A, L, directed):
    tot = sum(A[i][j] for i in L for j in L if i != j)
    return tot if directed else tot // 2


def cross_outdegree(M, L1, L2):
    return [sum(M[i][j] for j in L2) for i in L1]


def cross_indegree(M, L1, L2):
    return [sum(M[j][i] for j in L2) for i in L1]


def cross_degree(M, L1, L2, directed):
    o = cross_outdegree(M, L1, L2)
    if not directed:
        return o
    return [a + b for a, b in zip(o, cross_indegree(M, L1, L2))]


def mean(xs):
    return sum(xs) / len(xs)


def cross_link_density(A, L1, L2):
    return number_cross_links(A, L1, L2) / (len(L1) * len(L2))


def internal_link_density(A, L, directed):
    n = len(L)
    pairs = n * (n - 1) if directed else n * (n - 1) / 2
    return number_internal_links(A, L, directed) / pairs


# ---------------------------------------------------------------------------
# clustering (undirected)


def local_clustering_full(A):
    n = len(A)
    out = []
    for v in range(n):
        nb = [x for x in range(n) if A[v][x]]
        k = len(nb)
        if k < 2:
            out.append(0.0)
            continue
        tri = sum(1 for a in range(k) for b in range(a)
                  if A[nb[a]][nb[b]])
        out.append(tri / (k * (k - 1) / 2))
    return out


def cross_triples(A, v, L2):
    """(#pairs of neighbours of v in L2, #linked pairs among them)."""
    nb = [q for q in L2 if A[v][q] and q != v]
    k = len(nb)
    tri = sum(1 for a in range(k) for b in range(a) if A[nb[a]][nb[b]])
    return k * (k - 1) // 2, tri


def cross_local_clustering(A, L1, L2):
    out = []
    for v in L1:
        trp, tri = cross_triples(A, v, L2)
        out.append(tri / trp if trp else 0.0)
    return out


def cross_transitivity(A, L1, L2):
    T = t = 0
    for v in L1:
        trp, tri = cross_triples(A, v, L2)
        T += trp
        t += tri
    return t / T if T else 0.0


# ---------------------------------------------------------------------------
# path based


def average_path_length(D, L1, L2, internal):
    """Mean finite distance; None when no pair is connected."""
    tot, cnt = 0.0, 0
    for a, i in enumerate(L1):
        for b, j in enumerate(L2):
            if internal and a == b:
                continue
            if D[i][j] != INF:
                tot += D[i][j]
                cnt += 1
    return tot / cnt if cnt else None


def closeness(D, L1, L2, internal, n_total):
    """Returns (values, number of no-path pairs that were replaced)."""
    repl = (len(L1) - 1) if internal else (n_total - 1)
    norm = (len(L2) - 1) if internal else len(L2)
    out, nrep = [], 0
    for i in L1:
        s = 0.0
        for j in L2:
            d = D[i][j]
            if d == INF:
                d = repl
                nrep += 1
            s += d
        out.append(norm / s if s != 0 else 0.0)
    return out, nrep


def local_efficiency(D, L1, L2):
    """None for a node at distance 0 from a member of L2 (1/0)."""
    out = []
    for i in L1:
        if any(D[i][j] == 0 for j in L2):
            out.append(None)
            continue
        out.append(mean([0.0 if D[i][j] == INF else 1.0 / D[i][j]
                         for j in L2]))
    return out


def betweenness(A, D, L1, L2, w=None):
    """Inter-group shortest-path betweenness of every node of the network by
    explicit path enumeration; with w the n.s.i. version."""
    n = len(A)
    B = [0.0] * n
    for s in L1:
        for t in L2:
            if s == t:
                continue
            paths = shortest_paths(A, D, s, t)
            if not paths:
                continue
            if w is None:
                tot = float(len(paths))
                pw = [1.0] * len(paths)
                pair = 1.0
            else:
                pw = [math.prod(w[x] for x in p) for p in paths]
                tot = sum(pw)
                pair = w[s] * w[t]
            for p, q in zip(paths, pw):
                for v in p[1:-1]:
                    B[v] += pair * q / tot
    if w is not None:
        B = [b / w[v] for v, b in enumerate(B)]
    return B


# ---------------------------------------------------------------------------
# n.s.i.


def aplus(A):
    n = len(A)
    return [[1 if i == j else A[i][j] for j in range(n)] for i in range(n)]


def nsi_cross_degree(A, w, L1, L2):
    Ap = aplus(A)
    return [sum(Ap[v][q] * w[q] for q in L2) for v in L1]


def nsi_triangle_weight(A, w, v, L2):
    Ap = aplus(A)
    return sum(Ap[v][p] * w[p] * Ap[p][q] * w[q] * Ap[q][v]
               for p in L2 for q in L2)


def nsi_cross_local_clustering(A, w, L1, L2):
    k = nsi_cross_degree(A, w, L1, L2)
    out = []
    for a, v in enumerate(L1):
        out.append(nsi_triangle_weight(A, w, v, L2) / k[a] ** 2
                   if k[a] != 0 else 0.0)
    return out


def wmean(xs, L, w):
    return sum(w[v] * x for v, x in zip(L, xs)) / sum(w[v] for v in L)


def nsi_cross_transitivity(A, w, L1, L2):
    """None when no weighted triple exists."""
    k = nsi_cross_degree(A, w, L1, L2)
    num = sum(w[v] * nsi_triangle_weight(A, w, v, L2) for v in L1)
    den = sum(w[v] * k[a] ** 2 for a, v in enumerate(L1))
    return num / den if den != 0 else None


def nsi_cross_edge_density(A, w, L1, L2):
    k = nsi_cross_degree(A, w, L1, L2)
    return sum(w[v] * k[a] for a, v in enumerate(L1)) / (
        sum(w[v] for v in L1) * sum(w[q] for q in L2))


def nsi_dist(D, i, j, n_total, count=None):
    d = 1.0 if i == j else D[i][j]
    if d == INF:
        if count is not None:
            count[0] += 1
        return float(n_total - 1)
    return d


def nsi_cross_closeness(D, w, L1, L2, n_total):
    cnt = [0]
    W2 = sum(w[q] for q in L2)
    out = [W2 / sum(w[q] * nsi_dist(D, v, q, n_total, cnt) for q in L2)
           for v in L1]
    return out, cnt[0]


def nsi_cross_average_path_length(D, w, L1, L2):
    """None when some pair has no path (no convention is documented)."""
    if any(D[v][q] == INF for v in L1 for q in L2):
        return None
    W1 = sum(w[v] for v in L1)
    W2 = sum(w[q] for q in L2)
    return sum(w[v] * w[q] * (1.0 if v == q else D[v][q])
               for v in L1 for q in L2) / (W1 * W2)


# ---------------------------------------------------------------------------
# self test: the docstring examples of InteractingNetworks, typed in by hand


def _close(a, b, tol=6e-5):
    if isinstance(a, (list, tuple)):
        return len(a) == len(b) and all(_close(x, y, tol)
                                        for x, y in zip(a, b))
    return abs(a - b) <= tol


def selftest():
    A = [[0, 0, 0, 1, 1, 1], [0, 0, 1, 1, 1, 0], [0, 1, 0, 0, 1, 0],
         [1, 1, 0, 0, 0, 0], [1, 1, 1, 0, 0, 0], [1, 0, 0, 0, 0, 0]]
    w = [0.6, 0.8, 1.0, 1.2, 1.4, 1.6]
    D = distances(A)
    n = 6
    allv = list(range(6))
    checks = [
        (block(A, [1, 2, 4], [0, 3, 5]), [[0, 1, 0], [0, 0, 0], [1, 0, 0]]),
        (block(A, [0, 3, 5], [0, 3, 5]), [[0, 1, 1], [1, 0, 0], [1, 0, 0]]),
        (block(D, [0, 3, 5], [1, 2, 4]), [[2, 2, 1], [1, 2, 2], [3, 3, 2]]),
        (number_cross_links(A, [0, 5], [1, 2, 3, 4]), 2),
        (number_internal_links(A, [1, 2, 4], False), 3),
        (mean(cross_degree(A, [0, 3, 5], [1, 2, 4], False)), 0.6667),
        (mean(cross_degree(A, [0, 5], [1, 2, 3, 4], False)), 1.0),
        (cross_link_density(A, [0, 3, 5], [1, 2, 4]), 0.2222),
        (internal_link_density(A, [1, 2, 3, 4], False), 0.6667),
        (mean([local_clustering_full(A)[v] for v in [1, 2, 4]]), 0.5556),
        (mean(cross_local_clustering(A, [3, 4], [1, 2])), 0.5),
        (cross_local_clustering(A, [3, 4], [1, 2]), [0.0, 1.0]),
        (cross_transitivity(A, [3, 4], [1, 2]), 1.0),
        (cross_transitivity(A, [2], [1, 3, 4]), 1.0),
        (average_path_length(D, [0, 3, 5], [1, 2, 4], False), 2.0),
        (average_path_length(D, [0, 3, 5], [0, 3, 5], True), 1.3333),
        (closeness(D, [0, 3, 5], [1, 2, 4], False, n)[0], [.6, .6, .375]),
        (closeness(D, [0, 3, 5], [0, 3, 5], True, n)[0], [1, .66667, .66667]),
        (mean(closeness(D, [0, 5], [1, 2, 3, 4], False, n)[0]), 0.5333),
        (local_efficiency(D, [0, 5], [1, 2, 3, 4]), [0.75, 0.41666667]),
        (1 / mean(local_efficiency(D, [0, 5], [1, 2, 3, 4])), 1.7143),
        (betweenness(A, D, [2], [3, 5]), [1, 1, 0, 0, 1, 0]),
        (betweenness(A, D, allv, allv), [9, 3, 0, 2, 6, 0]),
        (nsi_cross_degree(A, w, [0, 1, 2], [3, 4, 5]), [4.2, 2.6, 1.4]),
        (nsi_cross_degree(A, w, [0, 3, 5], [0, 3, 5]), [3.4, 1.8, 2.2]),
        (wmean(nsi_cross_degree(A, w, [0, 2, 5], [1, 4]), [0, 2, 5], w), .95),
        (nsi_cross_local_clustering(A, w, [0, 1, 2], [3, 4, 5]),
         [0.33786848, 0.50295858, 1.0]),
        (nsi_cross_local_clustering(A, w, [1, 2, 3, 5], [1, 2, 3, 5]),
         [0.73333333, 1.0, 1.0, 1.0]),
        (wmean(nsi_cross_local_clustering(A, w, [0, 1, 2], [3, 4, 5]),
               [0, 1, 2], w), 0.6688),
        (nsi_cross_closeness(D, w, [0, 1, 2], [3, 4, 5], n)[0],
         [1.0, 0.56756757, 0.48837209]),
        (nsi_cross_closeness(D, w, [0, 1, 3, 5], [0, 1, 3, 5], n)[0],
         [0.84, 0.525, 0.72413793, 0.6]),
        (betweenness(A, D, [0, 4, 5], [1, 3], w),
         [6.5333, 1.2, 0.0, 0.6769, 0.6769, 0.0]),
        (betweenness(A, D, [0, 1], [2, 3, 4, 5], w),
         [2.1333, 0.0, 0.0, 0.4923, 0.9209, 0.0]),
        (nsi_cross_edge_density(A, w, [1, 2, 3], [0, 5]), 0.1091),
        (nsi_cross_edge_density(A, w, [0], [1, 4, 5]), 0.7895),
        (nsi_cross_transitivity(A, w, [1, 2], [0, 3, 4, 5]), 0.6352),
        (nsi_cross_transitivity(A, w, [0, 2, 3], [1]), 1.0),
        # the docstring pins 3.3306 = sum/(W1*W1); by definition sum/(W1*W2)
        (nsi_cross_average_path_length(D, w, [0, 5], [1, 2, 4]) * 3.2 / 2.2,
         3.3306),
    ]
    checks += [
        (betweenness_counts(A, D, [0, 4, 5], [1, 3], w),
         betweenness(A, D, [0, 4, 5], [1, 3], w)),
        (betweenness_counts(A, D, allv, allv), betweenness(A, D, allv, allv)),
        (betweenness_counts(A, D, [2], [3, 5]), [1, 1, 0, 0, 1, 0]),
        (distances_np(A), D),
    ]
    bad = [(i, got, exp) for i, (got, exp) in enumerate(checks)
           if not _close(got, exp)]
    assert not bad, "reference model disagrees with docstring examples: %r" \
        % bad
    return len(checks)


if __name__ == "__main__":
    print("docstring examples reproduced:", selftest())
