"""Craft a multi-dimensional series whose supremum-metric recurrence matrix at
threshold 0.75 is a prescribed symmetric 0/1 matrix with unit diagonal:
a unit-cube intersection representation with coordinates in multiples of 0.5
(adjacent <=> sup distance <= 0.5, non-adjacent <=> sup distance >= 1.0), so
neither strictness at equality nor float32 rounding can matter."""
import functools
import itertools

import numpy as np

THRESHOLD = 0.75
_PTS = None


def _points(dim, side):
    return list(itertools.product(range(side), repeat=dim))


def _adjacent(p, q):
    return all(abs(a - b) <= 1 for a, b in zip(p, q))


@functools.lru_cache(maxsize=None)
def realise(n, mask):
    """Return an (n, dim) float array or None."""
    from ..domains import adj
    A = adj(n, False, mask)
    for dim, side in ((1, 4), (2, 4), (3, 4), (3, 5), (4, 4)):
        pts = _points(dim, side)
        sol = []

        def rec(k):
            if k == n:
                return True
            for p in pts:
                if all(_adjacent(p, sol[j]) == bool(A[j, k])
                       for j in range(k)):
                    sol.append(p)
                    if rec(k + 1):
                        return True
                    sol.pop()
            return False
        if rec(0):
            return 0.5 * np.array(sol, dtype=float).reshape(n, dim)
    return None
