"""Finite domains enumerated by the checks (DESIGN.md section 2).

Graphs are passed around as JSON-friendly tuples ``(n, directed, mask)`` where
bit k of ``mask`` is the k-th node pair in the fixed order of `pairs(n,
directed)`.
"""
import itertools
import functools

import numpy as np


def pairs(n, directed=False):
    if directed:
        return [(i, j) for i in range(n) for j in range(n) if i != j]
    return [(i, j) for i in range(n) for j in range(i + 1, n)]


def adj(n, directed, mask):
    A = np.zeros((n, n), dtype=np.int8)
    for k, (i, j) in enumerate(pairs(n, directed)):
        if mask >> k & 1:
            A[i, j] = 1
            if not directed:
                A[j, i] = 1
    return A


def mask_of(A, directed):
    n = len(A)
    m = 0
    for k, (i, j) in enumerate(pairs(n, directed)):
        if A[i][j]:
            m |= 1 << k
    return m


def all_graphs(n, directed=False):
    """All labelled simple graphs on exactly n nodes, as (n, directed, mask),
    ordered by number of links then mask (simplest first)."""
    P = len(pairs(n, directed))
    ms = sorted(range(1 << P), key=lambda m: (bin(m).count("1"), m))
    return [(n, directed, m) for m in ms]


def graphs_upto(nmax, directed=False, nmin=1):
    out = []
    for n in range(nmin, nmax + 1):
        out += all_graphs(n, directed)
    return out


@functools.lru_cache(maxsize=None)
def _perm_tables(n, directed):
    P = pairs(n, directed)
    index = {p: k for k, p in enumerate(P)}
    tabs = []
    for perm in itertools.permutations(range(n)):
        t = []
        for (i, j) in P:
            a, b = perm[i], perm[j]
            if not directed and a > b:
                a, b = b, a
            t.append(index[(a, b)])
        tabs.append(t)
    return tabs


def canon(n, directed, mask):
    best = None
    bits = [k for k in range(len(pairs(n, directed))) if mask >> k & 1]
    for t in _perm_tables(n, directed):
        m = 0
        for k in bits:
            m |= 1 << t[k]
        if best is None or m < best:
            best = m
    return best


@functools.lru_cache(maxsize=None)
def iso(n, directed=False):
    """One representative (the labelled graph with the smallest mask) per
    isomorphism class on exactly n nodes."""
    seen = {}
    for (_, _, m) in all_graphs(n, directed):
        c = canon(n, directed, m)
        if c not in seen:
            seen[c] = m
    reps = sorted(seen, key=lambda m: (bin(m).count("1"), m))
    return [(n, directed, m) for m in reps]


def iso_upto(nmax, directed=False, nmin=1):
    out = []
    for n in range(nmin, nmax + 1):
        out += iso(n, directed)
    return out


def is_connected(A):
    A = np.asarray(A)
    n = len(A)
    if n == 0:
        return True
    U = (A + A.T) > 0
    seen = {0}
    stack = [0]
    while stack:
        v = stack.pop()
        for w in np.nonzero(U[v])[0]:
            if int(w) not in seen:
                seen.add(int(w))
                stack.append(int(w))
    return len(seen) == n


WEIGHTS = [
    None,
    [1.5, 0.7, 2.2, 1.1, 0.4, 3.1, 0.9, 1.3],
    [0.25, 0.5, 1.0, 2.0, 4.0, 8.0, 0.125, 16.0],
]


def weights(n, k):
    w = WEIGHTS[k]
    return None if w is None else list(w[:n])


def link_attr(A, variant=1):
    """A deterministic symmetric positive link-attribute matrix on A's links
    (dyadic values so that sums are exact)."""
    A = np.asarray(A)
    n = len(A)
    W = np.zeros((n, n))
    vals = [0.5, 1.0, 2.0, 1.5, 0.25, 3.0]
    for i in range(n):
        for j in range(n):
            if A[i, j]:
                a, b = min(i, j), max(i, j)
                W[i, j] = vals[(a * 3 + b * 5 + variant) % len(vals)]
    return W


def ordered_group_pairs(n, allow_partial=True):
    """All ordered pairs (L1, L2) of disjoint non-empty subsets of range(n)
    (sorted lists).  With allow_partial=False only bipartitions."""
    out = []
    for code in itertools.product((0, 1, 2), repeat=n):
        if not allow_partial and 0 in code:
            continue
        L1 = [i for i in range(n) if code[i] == 1]
        L2 = [i for i in range(n) if code[i] == 2]
        if L1 and L2:
            out.append((L1, L2))
    return out


def compositions(n):
    """All ways to cut range(n) into contiguous non-empty chunks, as lists of
    (start, end)."""
    out = []
    for cuts in range(1 << (n - 1)):
        b = [0] + [k + 1 for k in range(n - 1) if cuts >> k & 1] + [n]
        out.append([(b[i], b[i + 1]) for i in range(len(b) - 1)])
    return out


def sequences(alphabet, lmin, lmax):
    out = []
    for L in range(lmin, lmax + 1):
        out += [list(s) for s in itertools.product(alphabet, repeat=L)]
    return out


def sym_matrices(n):
    """All symmetric 0/1 matrices with unit diagonal (= graphs + identity)."""
    return [(n, False, m) for (_, _, m) in all_graphs(n, False)]


def perms_sample(n, full=True):
    allp = list(itertools.permutations(range(n)))
    if full or n <= 3:
        return allp
    chosen = [tuple(range(n)), tuple(reversed(range(n)))]
    for i in range(n - 1):
        p = list(range(n))
        p[i], p[n - 1] = p[n - 1], p[i]
        chosen.append(tuple(p))
    chosen.append(tuple((i + 1) % n for i in range(n)))
    chosen.append(tuple((i * 2 + 1) % n if n % 2 else (i + 2) % n
                        for i in range(n)))
    out = []
    for p in chosen:
        if sorted(p) == list(range(n)) and p not in out:
            out.append(p)
    return out
