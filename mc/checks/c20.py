"""C20  Compiled kernels never touch memory outside their arrays.

Bounded-exhaustive enumeration of shapes x dtypes x parameters over the public
entry points that reach the compiled kernels (mc/checks/c20_entries.py),
executed on an AddressSanitizer + UndefinedBehaviorSanitizer build of the
extensions made from /repo's working tree.  Every case runs in its own forked
child of a sanitiser-preloaded interpreter; exit by return or Python exception
= pass, sanitiser report / fatal signal = violation (only reports with a frame
inside pyunicorn's own translation units are charged).
"""
import atexit
import itertools
import json
import os
import re
import shutil
import subprocess
import tempfile

from ..core import V
from .. import build

LEVEL = "exploration"

_CHILD = None
_LOGDIR = None


def _start_child():
    global _CHILD, _LOGDIR
    src = build.ensure(asan=True, verbose=False)
    _LOGDIR = tempfile.mkdtemp(prefix="asanlog.", dir=os.getcwd())
    env = dict(os.environ)
    env.update(build.asan_env())
    env["VERIF_ASAN_SRC"] = src
    env["VERIF_ASAN_LOGDIR"] = _LOGDIR
    env["VERIF_HOME"] = os.path.dirname(os.path.dirname(
        os.path.dirname(os.path.abspath(__file__))))
    env.pop("PYTHONPATH", None)
    _CHILD = subprocess.Popen(
        [build.PY, "-W", "ignore", os.path.join(env["VERIF_HOME"], "mc",
                                                "asan_worker.py")],
        stdin=subprocess.PIPE, stdout=subprocess.PIPE,
        stderr=subprocess.DEVNULL, env=env, text=True, bufsize=1)
    atexit.register(_stop_child)


def _stop_child():
    global _CHILD
    if _CHILD is not None:
        try:
            _CHILD.stdin.close()
            _CHILD.wait(timeout=10)
        except Exception:   # noqa
            _CHILD.kill()
        _CHILD = None
    if _LOGDIR:
        shutil.rmtree(_LOGDIR, ignore_errors=True)


def _ask(case):
    if _CHILD is None or _CHILD.poll() is not None:
        _start_child()
    _CHILD.stdin.write(json.dumps(case) + "\n")
    _CHILD.stdin.flush()
    line = _CHILD.stdout.readline()
    if not line:
        raise RuntimeError("sanitiser worker died (exit %s)" % _CHILD.poll())
    return json.loads(line)


OWN = re.compile(r"(src_numerics\.c|pyunicorn[\w/.]*numerics\.(c|pyx|cpython))")
KIND = re.compile(r"(ERROR: AddressSanitizer: [\w-]+|runtime error: [^\n]{0,80}"
                  r"|SUMMARY: \w+Sanitizer: [\w-]+)")
FUNC = re.compile(r"#\d+ 0x[0-9a-f]+ in (\w+) [^\n]*(src_numerics\.c|numerics\.c)")


def classify(res):
    """-> (verdict, kind, function)  verdict in pass|pyexc|own|foreign|crash"""
    rep = res.get("report") or ""
    if rep:
        k = KIND.search(rep)
        kind = k.group(1) if k else "sanitizer-report"
        kind = re.sub(r"^ERROR: AddressSanitizer: ", "asan:", kind)
        kind = re.sub(r"^runtime error: ", "ubsan:", kind)
        kind = re.sub(r"\b0x[0-9a-f]+\b|\b\d+\b", "N", kind)[:60].strip()
        f = FUNC.search(rep)
        if OWN.search(rep):
            return "own", kind, (f.group(1) if f else "?")
        return "foreign", kind, "?"
    if res.get("signal") in (24, 9):     # SIGXCPU / SIGKILL of the CPU cap
        return "timeout", "cpu-limit", ""
    if res.get("signal"):
        return "crash", "signal %d" % res["signal"], "?"
    if res.get("exit") == 0:
        return "pass", "", ""
    if res.get("exit") == 3:
        return "pyexc", res.get("exc", "")[:60], ""
    return "crash", "exit %s" % res.get("exit"), "?"


def fam_asan(case):
    res = _ask(case)
    verdict, kind, func = classify(res)
    viol, stats, excl = [], {verdict: 1}, {}
    if verdict == "own":
        viol.append(V("%s:%s:%s" % (case[0], kind, func),
                      "sanitiser report inside pyunicorn's compiled code",
                      res["report"][:1500], "no report"))
    elif verdict == "crash":
        viol.append(V("%s:crash:%s" % (case[0], kind),
                      "the process died without a Python exception",
                      res, "return or Python exception"))
    elif verdict == "timeout":
        excl["case exceeded its CPU cap (endless retry loop); no verdict"] = 1
    elif verdict == "foreign":
        excl["sanitiser report outside pyunicorn (%s)" % kind] = 1
    sig = (case[0], verdict, kind if verdict != "pyexc" else
           kind.split(":")[0])
    return {"viol": viol, "sig": sig, "stats": stats, "excluded": excl,
            "trivial": False}


def fam_control(case):
    """Negative control: a deliberately wrong C helper built with the same
    flags must produce a report, else the check is broken."""
    res = _ask(case)
    verdict, kind, func = classify(res)
    if not (res.get("report") and "heap-buffer-overflow" in res["report"]):
        raise RuntimeError("sanitiser negative control produced no report: "
                           "%r" % (res,))
    return {"sig": ("control", kind), "stats": {"control_ok": 1},
            "trivial": True}


FAMILIES = {"asan": fam_asan, "control": fam_control}

CONTROL_C = r"""
#include <stdlib.h>
unsigned oob_read(int n) {
    volatile unsigned char *p = (unsigned char*) calloc(n, 1);
    unsigned s = 0;
    for (int i = 0; i <= n; i++) s += p[i];   /* reads one past the end */
    free((void*) p);
    return s;
}
"""


def _build_control():
    d = os.getcwd()
    c = os.path.join(d, "control.c")
    so = os.path.join(d, "libcontrol.so")
    open(c, "w").write(CONTROL_C)
    subprocess.run(["gcc", "-shared", "-fPIC", "-O1", "-g",
                    "-fsanitize=address,undefined", c, "-o", so], check=True)
    return so


def grid(**axes):
    keys = list(axes)
    return [dict(zip(keys, vals))
            for vals in itertools.product(*[axes[k] for k in keys])]


def cases(thorough):
    S = [0, 1, 2, 3] + ([5] if thorough else [])
    Sp = [1, 2, 3, 5]
    out = []
    kinds = ["path", "complete", "empty", "mixed", "star", "cycle"]
    for p in grid(n=[1, 2, 3, 5] + ([7] if thorough else []),
                  kind=["path", "cycle", "complete", "star"],
                  complex=[False, True]):
        out.append(["res", p])
    for which in ("pearson", "mi"):
        for p in grid(N=Sp, T=[1, 2, 3, 5, 7], dtype=["float64", "float32",
                                                      "int64"],
                      order=["C", "F"]):
            out.append(["sur_test", dict(p, which=which)])
        for p in grid(N=[2, 3], T=[3, 5], noncontig=[True]):
            out.append(["sur_test", dict(p, which=which)])
        for p in grid(N=[2, 3], T=[3, 4], N2=[1, 2, 4], T2=[2, 3, 5]):
            out.append(["sur_test", dict(p, which=which)])
        if which == "mi":
            for p in grid(N=[2, 3], T=[1, 3, 6], bins=[1, 2, 7]):
                out.append(["sur_test", dict(p, which=which)])
        for p in grid(N=[2, 4], T_first=[3, 40], T=[41, 300, 2000],
                      bins=[4, 7]):
            out.append(["sur_test", dict(p, which=which)])
    for p in grid(N=[1, 2, 3], T=[1, 2, 3, 4, 5, 8, 9], dim=[1, 2, 3],
                  tau=[1, 2, 4], md=[0, 1, 9]):
        out.append(["sur_gen", p])
    for p in grid(T=[1, 2, 3, 5, 9, 4, 7], N=[1, 2, 3, 5, 9],
                  bins=[1, 2, 4, 32]):
        out.append(["clim_mi", p])
    for p in grid(T=[1, 2, 3, 5, 9, 4, 7], N=[1, 2, 3, 5, 9],
                  ev=[[0, 1], [0.5, 1], [0, 0.2]]):
        out.append(["clim_rain", p])
    for which in ("tsonis", "spearman", "partial", "havlin", "hilbert"):
        for p in grid(T=[2, 3, 5, 8], N=[1, 2, 3, 5], delay=[1, 3, 9]
                      if which == "havlin" else [1]):
            out.append(["clim_other", dict(p, which=which)])
    for p in grid(L=S + [8], d=[1, 2], metric=["supremum", "euclidean",
                                                "manhattan"],
                  mode=["threshold", "recurrence_rate",
                        "local_recurrence_rate"], nan=[0, 1]):
        out.append(["rp", p])
    for p in grid(L=S + [8], mode=["adaptive_neighborhood_size"],
                  val=[0, 1, 2, 7, 8, 20]):
        out.append(["rp", p])
    for p in grid(L=S + [8], mode=["threshold"], sparse=[1], nan=[0, 1],
                  md=[0, 1, 9]):
        out.append(["rp", p])
    for p in grid(L=[2, 3, 5, 8], dim=[2, 3], tau=[1, 2, 4], md=[0, 9],
                  mode=["threshold", "threshold_std"]):
        out.append(["rp", p])
    for p in grid(L=S + [8], dim=[1, 2, 3, 9], tau=[0, 1, 2, 4, 9], M=[0, 1,
                                                                        5]):
        out.append(["rp_static", p])
    for p in grid(Lx=S, Ly=S + [7], metric=["supremum", "euclidean",
                                             "manhattan"],
                  mode=["threshold", "recurrence_rate"]):
        out.append(["crp", p])
    # unequal lengths in more than one dimension: multi-component series
    # and delay embeddings (both orders of the lengths)
    for p in grid(Lx=[3, 6, 9], Ly=[3, 6, 9], d=[2, 3],
                  metric=["supremum", "euclidean", "manhattan"]):
        out.append(["crp", dict(p, mode="threshold")])
        if p["metric"] == "supremum":
            out.append(["isrn", dict(p, mode="threshold")])
    for p in grid(Lx=[5, 9], Ly=[5, 8, 11], dim=[2, 3], tau=[1, 2],
                  metric=["supremum", "euclidean", "manhattan"]):
        out.append(["crp", dict(p, mode="threshold")])
        if p["metric"] == "supremum":
            out.append(["isrn", dict(p, mode="recurrence_rate", val=0.3,
                                     tau2=3 - p["tau"])])
    # chunk kernels on row blocks (connected graphs on 3..5 nodes)
    from ..domains import iso as _iso, adj as _adj, is_connected as _conn
    for n_ in (3, 4, 5):
        k_ = 0
        for (_, _, m_) in _iso(n_, False):
            if _conn(_adj(n_, False, m_)):
                k_ += 1
                if n_ < 5 or k_ % 4 == 0:
                    out.append(["mpi_chunks", {"n": n_, "mask": m_, "wk": 1}])
    for p in grid(L=S + [7], lag=[-9, -2, -1, 0, 1, 2, 9],
                  mode=["threshold", "recurrence_rate", "threshold_std"]):
        out.append(["jrp", p])
    for p in grid(Lx=S, Ly=S + [7], mode=["threshold", "recurrence_rate"]):
        out.append(["isrn", p])
    for p in grid(L=S + [8], mode=["threshold", "recurrence_rate",
                                   "local_recurrence_rate",
                                   "adaptive_neighborhood_size"],
                  val=[0.5, 2]):
        out.append(["rn", p])
    for p in grid(L=S + [5, 8], horizontal=[0, 1], nan=[0, 1]):
        out.append(["vg", p])
    for p in grid(T=[1, 2, 3, 5, 9], N=[1, 2, 3, 5], tau_max=[0, 1, 2, 5,
                                                               9],
                  dtype=["float64", "float32"]):
        out.append(["coupling", dict(p, which="cc")])
    for est, extra in (("binning", dict(bins=[1, 2, 6])),
                       ("gauss", dict(bins=[2])),
                       ("knn", dict(knn=[1, 3, 8]))):
        for p in grid(T=[2, 3, 5, 9], N=[1, 2, 3], tau_max=[0, 1, 4],
                      **extra):
            out.append(["coupling", dict(p, which="mi", est=est)])
    for est, extra in (("gauss", dict(knn=[2])), ("knn", dict(knn=[1, 4]))):
        for p in grid(T=[3, 5, 9, 12], N=[2, 3], tau_max=[1, 2, 5],
                      past=[1, 2], **extra):
            out.append(["coupling", dict(p, which="it", est=est)])
    for p in grid(n=[1, 2, 3, 5] + ([6] if thorough else []), kind=kinds,
                  directed=[0, 1], w=[0, 1]):
        out.append(["network", p])
    for p in grid(n=[1, 2, 3, 5, 8], m=[1, 2, 3]):
        out.append(["models", p])
    for p in grid(n=[2, 3, 4, 5, 6], kind=kinds, k=[1, 2], swaps=[0.5, 2],
                  ncl=[0, 1, 50]):
        if p["k"] < p["n"]:
            out.append(["interacting", p])
    for p in grid(n=[1, 2, 3, 5], kind=kinds, dims=[1, 2, 3], it=[1, 3],
                  eps=[0, 1e9]):
        out.append(["spatial", p])
    for p in grid(n=[0, 1, 2, 3, 5], dims=[1, 2, 4], dtype=["float64",
                                                            "float32"],
                  a=[0, 1, 3], b=[1, 2]):
        out.append(["grid", p])
    for p in grid(T=[1, 2, 3, 5, 8], N=[1, 2, 3]):
        out.append(["data", p])
    # scale: sizes just above internal block sizes / narrow integer limits
    # (quick: the 129 row only, the rest in the thorough tier)
    for L in ((129, 257, 300) if thorough else (129,)):
        for p in grid(L=[L], mode=["threshold", "local_recurrence_rate",
                                   "adaptive_neighborhood_size"],
                      val=[0.5], nan=[0, 1]):
            out.append(["rp", p])
        out.append(["rp", dict(L=L, mode="threshold", sparse=1, md=3)])
        out.append(["vg", dict(L=L, horizontal=0, nan=1)])
        out.append(["crp", dict(Lx=L, Ly=131, mode="threshold")])
    big = thorough
    for p in grid(N=[3, 17], T=[129, 257] if big else [129],
                  which=["pearson", "mi"], bins=[32]):
        out.append(["sur_test", p])
    for p in grid(T=[130, 300] if big else [130], N=[17, 33] if big else [17],
                  bins=[17, 32]):
        out.append(["clim_mi", p])
    for p in grid(T=[130, 300] if big else [130], N=[17, 33] if big else
                  [17]):
        out.append(["clim_rain", p])
    for p in grid(T=[130, 300] if big else [130], N=[4], tau_max=[5],
                  est=["binning"], bins=[17, 32]):
        out.append(["coupling", dict(p, which="mi")])
    for p in grid(T=[130], N=[4], tau_max=[5]):
        out.append(["coupling", dict(p, which="cc")])
    for p in grid(n=[12, 23, 40] if big else [12], kind=["mixed", "cycle",
                                                         "star"],
                  directed=[0], w=[1]):
        out.append(["network", p])
    #  link-sized work arrays shorter than node-sized ones (2 n_links < N)
    for p in grid(n=[12, 40, 150] if big else [12, 40],
                  kind=["empty", "forest"], directed=[0, 1], w=[1]):
        out.append(["network", p])
    for p in grid(n=[10, 12, 17] + ([33, 40] if big else []),
                  kind=["cycle", "star", "complete"], complex=[False]):
        out.append(["res", p])
    for p in grid(n=[182, 200] if big else [182], kind=["cycle"]):
        out.append(["grid", dict(n=p["n"], dims=2)])
    return out


def run(ctx):
    thorough = ctx.tier == "thorough"
    ctx.rule = (
        "every entry point of c20_entries.py x its grid of shapes (each "
        "dimension in {0,1,2,3,5,...}, N != T both ways), dtypes, memory "
        "orders and loop-bound parameters, one forked child of an ASan+UBSan "
        "preloaded interpreter per case.  distinct = distinct (entry, "
        "verdict, exception type / report kind).")
    so = _build_control()
    ctx.explore("control", [["control", {"lib": so, "n": 4}]], chunk=1)
    cs = cases(thorough)
    ctx.explore("asan", cs, desc="forked sanitised executions")
    ctx.notes["entries"] = sorted(set(c[0] for c in cs))
    if ctx.stats.get("control_ok", 0) < 1:
        # (a harness failure, never a verdict: exit 2 through mc/cli.py)
        raise RuntimeError("C20: negative control missing - check broken")
    ctx.assumptions += [
        "AddressSanitizer/UBSan (gcc) on an -O1 build of the four extension "
        "modules; uninstrumented numpy/scipy/igraph are trusted",
        "Cython bounds checks are enabled in the library's own build flags "
        "and kept as they are"]
