"""C18  Resistive-network quantities obey circuit laws.

Bounded-exhaustive exploration of the real ``pyunicorn.core.ResNetwork``:

  circuit   every connected graph on 2..5 nodes (one representative per
            isomorphism class x every relabelling for n<=4, representatives
            for n=5) x every assignment of resistances over {1/2, 1, 2} (graphs
            with <=6 links; unit + one perturbed link beyond): library value
            vs the exact rational oracle, the circuit laws on the LIBRARY
            values (metric, linear scaling, path bound, Foster), derived
            quantities and the current-flow / admittive measures by their
            defining sums
  laws      series chains, parallel bundles and ladders up to 8 nodes:
            series law, parallel law, exact oracle
  complex   the 5-node fixture topology x every assignment over three
            impedances with positive real part
  history   every sequence of <=2 update_resistances(r) over 3 assignments,
            with every block of <=2 average/diameter queries before, between
            and after them; after every transition all queries are compared
            with a freshly constructed network of the current resistances
"""
import itertools
import math
from fractions import Fraction

import numpy as np

from ..core import V
from ..domains import adj, iso, is_connected, pairs
from ..refmodel import circuits as C

LEVEL = "model_checking"

ALPHA = [Fraction(1, 2), Fraction(1), Fraction(2)]
CALPHA = [1 + 0j, 1 + 1j, 2 - 1j]
FIXTURE = [(0, 1), (1, 2), (1, 3), (2, 3), (3, 4)]
SCALE = 3
RT, AT = 1e-9, 1e-12            # float64 (pinv) path
EPS32 = 2.0 ** -23


def _close(a, b, rtol=RT, atol=AT):
    return bool(np.allclose(a, b, rtol=rtol, atol=atol, equal_nan=False))


def _mk(n, links):
    from pyunicorn.core import ResNetwork
    return ResNetwork(np.array(C.matrix_of(n, links)), silence_level=3)


def _er_matrix(net, n):
    return [[net.effective_resistance(a, b) for b in range(n)]
            for a in range(n)]


def _tag(links):
    vals = set(links.values())
    if any(isinstance(v, complex) for v in vals):
        return "complex"
    return "unit" if vals == {1} else ("uniform" if len(vals) == 1
                                       else "mixed")


# ---------------------------------------------------------------------------
# judging one network against the exact model


def judge_real(n, links, viol, what=""):
    """All input-level checks for a real network.  Returns (signature, evals,
    excluded)."""
    ev = 0
    try:
        net = _mk(n, links)
        L = np.array(_er_matrix(net, n), dtype=float)
    except Exception as ex:   # the property promises applicability
        viol.append(V("ResNetwork.effective_resistance:raises:connected",
                      "%s %r" % (what, ex), repr(ex), "a value"))
        return ("raises",), 1, {}
    ER = C.effective_resistance_matrix(n, links)
    E = np.array([[float(x) for x in row] for row in ER])
    ev += n * n
    if not _close(L, E):
        viol.append(V("ResNetwork.effective_resistance:value:real",
                      what + " differs from exact rational solution", L, E))
    # --- circuit laws on the library values
    scale = max(1.0, float(np.max(np.abs(L))))
    tol = 1e-9 * scale
    if np.any(np.diag(L) != 0):
        viol.append(V("ResNetwork.effective_resistance:law:zero-self",
                      what, np.diag(L), 0))
    off = L[~np.eye(n, dtype=bool)]
    if np.any(off <= 0) or not np.all(np.isfinite(L)):
        viol.append(V("ResNetwork.effective_resistance:law:positivity",
                      what + " non-positive between distinct nodes", L, E))
    if np.max(np.abs(L - L.T)) > tol:
        viol.append(V("ResNetwork.effective_resistance:law:symmetry", what,
                      L, E))
    for a in range(n):
        for b in range(n):
            for c in range(n):
                ev += 1
                if L[a, c] > L[a, b] + L[b, c] + tol:
                    viol.append(V(
                        "ResNetwork.effective_resistance:law:triangle",
                        "%s (a,b,c)=%s" % (what, (a, b, c)),
                        [L[a, c], L[a, b], L[b, c]], "R_ac <= R_ab + R_bc"))
    for a in range(n):
        for b in range(a + 1, n):
            ev += 1
            pmin = float(min(C.simple_path_resistances(n, links, a, b)))
            if L[a, b] > pmin * (1 + 1e-9):
                viol.append(V("ResNetwork.effective_resistance:law:path-bound",
                              "%s pair %s" % (what, (a, b)), L[a, b], pmin))
    foster = sum(L[i, j] / float(r) for (i, j), r in links.items())
    ev += 1
    if not _close(foster, n - 1):
        viol.append(V("ResNetwork.effective_resistance:law:foster", what,
                      foster, n - 1))
    try:
        L3 = np.array(_er_matrix(_mk(n, {k: SCALE * r
                                         for k, r in links.items()}), n))
        ev += n * n
        if not _close(L3, SCALE * L):
            viol.append(V("ResNetwork.effective_resistance:law:scaling",
                          "%s all resistances x%d" % (what, SCALE), L3,
                          SCALE * L))
        # units are arbitrary: nano-ohms and giga-ohms scale like any other
        # factor (powers of two: exact in floating point)
        for c in (2.0 ** -30, 2.0 ** -40, 2.0 ** 30):
            Lc = np.array(_er_matrix(_mk(n, {k: c * float(r)
                                             for k, r in links.items()}),
                                     n))
            ev += n * n
            if not np.allclose(Lc, c * L, rtol=1e-9, atol=0):
                viol.append(V("ResNetwork.effective_resistance:law:scaling:"
                              "extreme-units", "%s all resistances x%g" % (
                                  what, c), Lc, c * L))
                break
    except Exception as ex:
        viol.append(V("ResNetwork.effective_resistance:raises:connected",
                      "%s scaled %r" % (what, ex), repr(ex), "a value"))
    # --- derived quantities, held to the library's own pair values
    low = [L[i, j] for i in range(n) for j in range(i)]
    derived = [
        ("average_effective_resistance", (),
         2 * sum(low) / (n * (n - 1))),
        ("diameter_effective_resistance", (), max(low))]
    for a in range(n):
        derived.append(("effective_resistance_closeness_centrality", (a,),
                        (n - 1) / sum(L[a, i] for i in range(n))))
    # average before diameter and diameter first on a second object
    for name, args, exp in derived:
        ev += 1
        _cmp(viol, net, name, args, exp, what, RT, AT)
    try:
        net2 = _mk(n, links)
        d = net2.diameter_effective_resistance()
        a_ = net2.average_effective_resistance()
        ev += 2
        if not _close(d, max(low)):
            viol.append(V("ResNetwork.diameter_effective_resistance:value:"
                          "first-query", what, d, max(low)))
        if not _close(a_, 2 * sum(low) / (n * (n - 1))):
            viol.append(V("ResNetwork.average_effective_resistance:value:"
                          "after-diameter", what, a_,
                          2 * sum(low) / (n * (n - 1))))
    except Exception as ex:
        viol.append(V("ResNetwork.diameter_effective_resistance:raises:"
                      "first-query", "%s %r" % (what, ex), repr(ex), max(low)))
    # --- admittance based measures (float64)
    fl = lambda xs: [float(x) for x in xs]            # noqa
    ad = fl(C.admittive_degree(n, links))
    _cmp(viol, net, "admittive_degree", (), ad, what, RT, AT)
    _cmp(viol, net, "average_neighbors_admittive_degree", (),
         fl(C.avg_neighbours_admittive_degree(n, links)), what, RT, AT)
    lac = fl(C.local_admittive_clustering(n, links))
    got = _cmp(viol, net, "local_admittive_clustering", (), lac, what, RT, AT)
    # the global coefficient is held to the library's own local values
    _cmp(viol, net, "global_admittive_clustering", (),
         sum(lac) / n if got is None else float(np.sum(got)) / n, what,
         RT, AT)
    ev += 4
    Yexp = [fl(r) for r in C.admittance(n, links)]
    _cmp(viol, net, "get_admittance", (), Yexp, what, RT, AT)
    # --- current flow betweenness (float32 copies of Y and R enter the
    # compiled sums: |dR| <= 2^-24 |R| per entry, four entries per potential
    # difference)
    try:
        rmax = float(np.max(np.abs(net.get_R())))
    except Exception:
        rmax = scale
    vc = fl(C.vertex_cfb(n, links))
    for i in range(n):
        ev += 1
        _cmp(viol, net, "vertex_current_flow_betweenness", (i,), vc[i], what,
             2e-5, 2e-6 + 4 * EPS32 * rmax * ad[i])
    ec = np.array([fl(r) for r in C.edge_cfb(n, links)])
    ev += 1
    try:
        got = np.asarray(net.edge_current_flow_betweenness(), dtype=float)
        atol = 2e-6 + 4 * EPS32 * rmax * np.array(Yexp)
        if got.shape != ec.shape or np.any(
                np.abs(got - ec) > atol + 2e-5 * np.abs(ec)) or \
                not np.all(np.isfinite(got)):
            viol.append(V("ResNetwork.edge_current_flow_betweenness:value:"
                          + _tag(links), what, got, ec))
    except Exception as ex:
        viol.append(V("ResNetwork.edge_current_flow_betweenness:raises:"
                      + _tag(links), "%s %r" % (what, ex), repr(ex), ec))
    sig = (n, tuple(sorted((k, str(Fraction(v))) for k, v in links.items())),
           tuple(np.round(L[0], 9)), round(vc[0], 9))
    return sig, ev, {}


def _cmp(viol, net, name, args, exp, what, rtol, atol):
    try:
        got = getattr(net, name)(*args)
    except Exception as ex:
        viol.append(V("ResNetwork.%s:raises:connected" % name,
                      "%s %r" % (what, ex), repr(ex), exp))
        return None
    try:
        g = np.asarray(got)
        e = np.asarray(exp)
        ok = g.shape == e.shape and bool(np.all(np.isfinite(g))) and \
            bool(np.all(np.abs(g - e) <= atol + rtol * np.abs(e)))
    except Exception:
        ok = False
    if not ok:
        viol.append(V("ResNetwork.%s:value:%s" % (
            name, "complex" if np.iscomplexobj(exp) else "real"),
            "%s args=%s" % (what, list(args)), got, exp))
    return got


# ---------------------------------------------------------------------------
# families


def _links_from(n, mask, assign, perm=None, alpha=ALPHA):
    P = [p for k, p in enumerate(pairs(n)) if mask >> k & 1]
    links = {p: alpha[a] for p, a in zip(P, assign)}
    if perm is not None:
        links = C.relabel(n, links, perm)
    return links


def fam_circuit(case):
    n, mask, perm, assign = case
    links = _links_from(n, mask, assign, perm)
    viol = []
    what = "%d nodes, resistances %s:" % (n, {
        "%d-%d" % k: str(v) for k, v in sorted(links.items())})
    sig, ev, exc = judge_real(n, links, viol, what)
    return {"viol": viol, "evals": ev, "sig": sig, "excluded": exc,
            "trivial": False}


def fam_laws(case):
    kind, spec = case
    viol = []
    F = Fraction
    if kind == "series":
        rs = [ALPHA[a] for a in spec]
        n, links = C.series(rs)
        what = "series chain"
    elif kind == "parallel":
        br, direct = spec
        br = [(ALPHA[a], ALPHA[b]) for a, b in br]
        direct = None if direct is None else ALPHA[direct]
        n, links = C.parallel(br, direct)
        what = "parallel bundle"
    else:
        k, special = spec
        n, links = C.ladder(k, special=None if special is None else
                            (special[0], ALPHA[special[1]]))
        what = "ladder"
    ev = 0
    try:
        net = _mk(n, links)
        L = np.array(_er_matrix(net, n), dtype=float)
    except Exception as ex:
        return {"viol": [V("ResNetwork.effective_resistance:raises:connected",
                           "%s %r" % (what, ex), repr(ex), "a value")],
                "evals": 1, "sig": "raises"}
    if kind == "series":
        for a in range(n):
            for b in range(a + 1, n):
                ev += 1
                exp = float(sum(rs[a:b], F(0)))
                if not _close(L[a, b], exp):
                    viol.append(V("ResNetwork.effective_resistance:law:series",
                                  "nodes %d..%d of a chain" % (a, b),
                                  L[a, b], exp))
    elif kind == "parallel":
        ev += 1
        exp = float(C.parallel_law(br, direct))
        if not _close(L[0, 1], exp):
            viol.append(V("ResNetwork.effective_resistance:law:parallel",
                          "terminals of %d two-link branches%s" % (
                              len(br), "" if direct is None else " + direct"),
                          L[0, 1], exp))
    E = np.array([[float(x) for x in r]
                  for r in C.effective_resistance_matrix(n, links)])
    ev += n * n
    if not _close(L, E):
        viol.append(V("ResNetwork.effective_resistance:value:real",
                      what + " differs from exact rational solution", L, E))
    foster = sum(L[i, j] / float(r) for (i, j), r in links.items())
    ev += 1
    if not _close(foster, n - 1):
        viol.append(V("ResNetwork.effective_resistance:law:foster", what,
                      foster, n - 1))
    if kind == "ladder" or n >= 7:
        # the compiled sums on the larger structured networks as well
        ad = [float(x) for x in C.admittive_degree(n, links)]
        rmax = float(np.max(np.abs(net.get_R())))
        vc = C.vertex_cfb(n, links)
        for i in (0, n // 2, n - 1):
            ev += 1
            _cmp(viol, net, "vertex_current_flow_betweenness", (i,),
                 float(vc[i]), what, 2e-5, 2e-6 + 4 * EPS32 * rmax * ad[i])
    return {"viol": viol, "evals": ev, "trivial": n <= 2,
            "sig": (kind, str(spec), tuple(np.round(L[0], 9)))}


def fam_complex(case):
    perm, assign = case
    links = {p: CALPHA[a] for p, a in zip(FIXTURE, assign)}
    links = C.relabel(5, links, perm)
    n = 5
    viol, exc, ev = [], {}, 0
    what = "fixture topology, complex impedances"
    try:
        net = _mk(n, links)
        L = np.array(_er_matrix(net, n))
    except Exception as ex:
        return {"viol": [V("ResNetwork.effective_resistance:raises:complex",
                           repr(ex), repr(ex), "a value")], "evals": 1,
                "sig": "raises"}
    if not net.flagComplex:
        viol.append(V("ResNetwork.flagComplex:value:complex", what,
                      net.flagComplex, True))
    ER = C.effective_resistance_matrix(n, links)
    E = np.array([[complex(x) for x in r] for r in ER])
    ev += n * n
    if not _close(L, E):
        viol.append(V("ResNetwork.effective_resistance:value:complex",
                      what, L, E))
    if np.any(np.diag(L) != 0):
        viol.append(V("ResNetwork.effective_resistance:law:zero-self",
                      what, np.diag(L), 0))
    if np.max(np.abs(L - L.T)) > 1e-9 * max(1, np.max(np.abs(L))):
        viol.append(V("ResNetwork.effective_resistance:law:symmetry",
                      what, L, E))
    foster = sum(L[i, j] / r for (i, j), r in links.items())
    ev += 1
    if not _close(foster, n - 1):
        viol.append(V("ResNetwork.effective_resistance:law:foster", what,
                      foster, n - 1))
    fac = 1 + 2j
    L3 = np.array(_er_matrix(_mk(n, {k: fac * r for k, r in links.items()}),
                             n))
    ev += n * n
    if not _close(L3, fac * L):
        viol.append(V("ResNetwork.effective_resistance:law:scaling",
                      what + " all impedances x(1+2i)", L3, fac * L))
    low = [L[i, j] for i in range(n) for j in range(i)]
    _cmp(viol, net, "average_effective_resistance", (),
         2 * sum(low) / (n * (n - 1)), what, RT, AT)
    exc["diameter of complex effective resistances (no order defined)"] = 1
    cx = lambda xs: [complex(x) for x in xs]           # noqa
    _cmp(viol, net, "admittive_degree", (),
         cx(C.admittive_degree(n, links)), what, RT, AT)
    lac = cx(C.local_admittive_clustering(n, links))
    got = _cmp(viol, net, "local_admittive_clustering", (), lac, what, RT, AT)
    _cmp(viol, net, "global_admittive_clustering", (),
         sum(lac) / n if got is None else complex(np.sum(got)) / n, what,
         RT, AT)
    _cmp(viol, net, "get_admittance", (),
         [cx(r) for r in C.admittance(n, links)], what, RT, AT)
    ev += 5
    exc["average_neighbors_admittive_degree: complex convention "
        "undocumented"] = 1
    for name, args in (("vertex_current_flow_betweenness", (1,)),
                       ("edge_current_flow_betweenness", ())):
        try:
            getattr(net, name)(*args)
            exc["%s accepts complex input (value not judged)" % name] = 1
        except TypeError:
            exc["%s not supported for complex impedances" % name] = 1
    return {"viol": viol, "evals": ev, "excluded": exc,
            "sig": (tuple(assign), tuple(np.round(L[0], 9)))}


# --- histories ---------------------------------------------------------------

BLOCKS = [(), ("A",), ("D",), ("A", "A"), ("A", "D"), ("D", "A"), ("D", "D")]
MAXIMAL = [b for b in BLOCKS if len(b) == 2]
HIST_ASSIGN = [lambda k: 1, lambda k: (0, 2, 1)[k % 3],
               lambda k: (2, 1, 0, 0)[k % 4]]


def _hist_assignments(nlinks, variant=0):
    out = []
    for f in HIST_ASSIGN:
        out.append([f(k + variant) for k in range(nlinks)])
    return out


def _stateless(net, n):
    """Every query that has no memo of its own."""
    out = {"effective_resistance": _er_matrix(net, n),
           "admittive_degree": net.admittive_degree(),
           "average_neighbors_admittive_degree":
               net.average_neighbors_admittive_degree(),
           "local_admittive_clustering": net.local_admittive_clustering(),
           "global_admittive_clustering": net.global_admittive_clustering(),
           "edge_current_flow_betweenness":
               net.edge_current_flow_betweenness(),
           "vertex_current_flow_betweenness":
               [net.vertex_current_flow_betweenness(i) for i in range(n)],
           "effective_resistance_closeness_centrality":
               [net.effective_resistance_closeness_centrality(i)
                for i in range(n)],
           "get_admittance": net.get_admittance(),
           "get_R": net.get_R()}
    return {k: np.asarray(v, dtype=float) for k, v in out.items()}


def fam_history(case):
    n, mask, variant, updates = case
    nl = bin(mask).count("1")
    assigns = _hist_assignments(nl, variant)
    linksets = [_links_from(n, mask, a) for a in assigns]
    k = len(updates)
    plans = [list(pre) + [last]
             for pre in itertools.product(BLOCKS, repeat=k)
             for last in MAXIMAL]
    # states of the history tree owned by this case: the prefixes that
    # contain all k updates (shorter prefixes belong to the case of the
    # shorter update sequence) = choices of the k inner blocks x the 7
    # prefixes of the final block
    return _history(n, linksets, updates, plans, len(BLOCKS) ** (k + 1),
                    (n, mask))


def _history(n, linksets, updates, plans, states, ident, er_rtol=RT):
    mats = [np.array(C.matrix_of(n, lk)) for lk in linksets]
    viol, stats = [], {}
    # twins: a fresh network per assignment, itself held to the exact model
    twins = []
    for lk in linksets:
        t = _mk(n, lk)
        ref = _stateless(t, n)
        E = np.array([[float(x) for x in r]
                      for r in C.effective_resistance_matrix(n, lk)])
        if not _close(ref["effective_resistance"], E, rtol=er_rtol):
            viol.append(V("ResNetwork.effective_resistance:value:real",
                          "fresh twin differs from exact rational solution",
                          ref["effective_resistance"], E))
        low = [E[i, j] for i in range(n) for j in range(i)]
        ref["A"] = 2 * sum(low) / (n * (n - 1))
        ref["D"] = max(low)
        twins.append(ref)
    k = len(updates)
    seen_abs = set()
    ev = transitions = traces = 0
    obs = []

    R_DERIVED = ("effective_resistance",
                 "effective_resistance_closeness_centrality",
                 "vertex_current_flow_betweenness",
                 "edge_current_flow_betweenness")

    def check_stateless(net, cur, after):
        """Every memo-free query against the fresh twin.  One root cause,
        one key: a stale admittance matrix hides everything else, a stale
        pseudo-inverse hides what is computed from it."""
        nonlocal ev
        got = _stateless(net, n)
        skip = ()
        for name in ["get_admittance", "get_R"] + [
                k_ for k_ in got if k_ not in ("get_admittance", "get_R")]:
            if name in skip:
                continue
            val = got[name]
            ev += 1
            if val.shape != twins[cur][name].shape or not _close(
                    val, twins[cur][name]):
                viol.append(V("ResNetwork.%s:stale-after:%s" % (name, after),
                              "differs from a freshly constructed network of "
                              "the current resistances", val,
                              twins[cur][name]))
                if name == "get_admittance":
                    return got
                if name == "get_R":
                    skip = R_DERIVED
        return got

    for blocks in plans:
        if True:
            try:
                net = _mk(n, linksets[0])
            except Exception as ex:
                viol.append(V("ResNetwork.__init__:raises:connected",
                              repr(ex), repr(ex), "an object"))
                continue
            cur, memo, last_mut = 0, None, "queries-only"
            traces += 1
            trace = []
            for slot in range(k + 1):
                for op in blocks[slot]:
                    transitions += 1
                    trace.append(op)
                    try:
                        got = (net.average_effective_resistance() if op == "A"
                               else net.diameter_effective_resistance())
                    except Exception as ex:
                        viol.append(V("ResNetwork.%s:raises:history" % (
                            "average_effective_resistance" if op == "A" else
                            "diameter_effective_resistance"),
                            "trace %s: %r" % (trace, ex), repr(ex),
                            twins[cur][op]))
                        continue
                    if op == "A" or memo is None:
                        model_memo = cur
                    else:
                        model_memo = memo
                    ev += 1
                    # held to the pair values the library reports *now*
                    Lnow = np.array(_er_matrix(net, n), dtype=float)
                    lown = [Lnow[i, j] for i in range(n) for j in range(i)]
                    exp = (2 * sum(lown) / (n * (n - 1)) if op == "A"
                           else max(lown))
                    if not _close(got, exp):
                        name = ("average_effective_resistance" if op == "A"
                                else "diameter_effective_resistance")
                        if op == "D" and memo is not None and memo != cur \
                                and _close(got, twins[memo]["D"]):
                            key = ("ResNetwork.%s:stale-after:"
                                   "update_resistances=memo-of-last-average"
                                   % name)
                        else:
                            key = "ResNetwork.%s:value:history" % name
                        viol.append(V(key, "trace %s (U<k> = update_"
                                      "resistances(assignment k))" % trace,
                                      got, exp))
                    memo = model_memo
                    seen_abs.add((cur, memo))
                    obs.append(round(float(got), 9))
                    check_stateless(net, cur, last_mut)
                if slot < k:
                    u = updates[slot]
                    transitions += 1
                    trace.append("U%d" % u)
                    try:
                        net.update_resistances(mats[u].copy())
                    except Exception as ex:
                        viol.append(V("ResNetwork.update_resistances:raises:"
                                      "history", "trace %s: %r" % (trace, ex),
                                      repr(ex), None))
                        break
                    cur, last_mut = u, "update_resistances"
                    seen_abs.add((cur, memo))
                    check_stateless(net, cur, last_mut)
    stats["abstract_states_(current,memo)"] = len(seen_abs)
    stats["operations_executed_incl_replayed_prefixes"] = transitions
    return {"viol": viol, "evals": ev, "stats": stats,
            "sig": (ident, tuple(updates), tuple(sorted(set(obs)))),
            "trivial": False, "states": states,
            "transitions": states - (1 if k == 0 else 0),
            "traces": traces,
            "excluded": {}}


# --- scale -------------------------------------------------------------------

BUILDERS = {"ring": C.ring_chords, "tree": C.heap_tree,
            "ladder": C.ladder_tail, "chain": C.chain}
UNIFORM = [(), ("A",), ("D",), ("A", "D"), ("D", "A")]
EXACT_MAX = 25
LG = "large"


def _scale_net(builder, n):
    nn, links = BUILDERS[builder](n)
    what = "%s network, %d nodes, %d links" % (builder, n, len(links))
    viol = []
    ref = C.np_model(n, links)
    E = ref["ER"]
    if n <= EXACT_MAX:
        ER = C.effective_resistance_matrix(n, links)
        Ex = np.array([[float(x) for x in r] for r in ER])
        assert np.allclose(E, Ex, rtol=1e-10, atol=1e-12), \
            "float64 reference disagrees with the rational model"
        assert C.foster_sum(n, links, ER) == n - 1
        E, rt = Ex, 1e-9
    else:
        rt = 1e-8
    full = n <= 64
    rows = list(range(n)) if full else sorted(
        set([0, 1, 2, n // 2, n - 3, n - 2, n - 1]) | set(range(0, n, 17)))
    net = _mk(n, links)
    ev = 1
    exc = {}
    # --- root of everything else: the pseudo-inverse the object keeps
    Rlib = np.asarray(net.get_R(), dtype=float)
    P = ref["pinv"]
    if Rlib.shape != (n, n) or not np.all(
            np.abs(Rlib - P) <= 1e-8 * (1 + ref["rmax"])):
        c = float(np.mean(Rlib - P)) if Rlib.shape == (n, n) else 0.0
        if not abs(c) > 1e6 * (1 + ref["rmax"]):
            viol.append(V("ResNetwork.get_R:value:real:" + LG, what,
                          float(np.max(np.abs(Rlib))), ref["rmax"]))
            return {"viol": viol, "evals": ev, "sig": (builder, n, "R")}
        # recognised form: the null space of the Laplacian was inverted
        # (a constant of order 1/(N*eps) added to every entry).  The
        # consequences on the unmodified object go into the message; they
        # are explained by this root cause as long as they stay within the
        # rounding of numbers of that magnitude.
        slack = 64 * 2.0 ** -53 * abs(c)
        i, j = sorted(links)[len(links) // 2]
        er = net.effective_resistance(i, j)
        fo = sum(net.effective_resistance(a, b) / float(r)
                 for (a, b), r in links.items())
        m = n // 2
        vc = net.vertex_current_flow_betweenness(m)
        viol.append(V(
            "ResNetwork.get_R:value:null-space-inverted", "%s: max|R| = %.3g "
            "instead of %.3g (pinv with the default cut-off inverts the zero "
            "singular value); on this object effective_resistance(%d,%d) = "
            "%.12g (exact %.12g), Foster sum = %.12g (exact %d), "
            "vertex_current_flow_betweenness(%d) = %.6g (exact %.6g)" % (
                what, np.max(np.abs(Rlib)), ref["rmax"], i, j, er, E[i, j],
                fo, n - 1, m, vc, ref["vcfb"][m]),
            float(np.max(np.abs(Rlib))), ref["rmax"]))
        if not abs(er - E[i, j]) <= slack + rt * E[i, j] or \
                not abs(fo - (n - 1)) <= slack * sum(
                    1 / float(r) for r in links.values()) + rt * n:
            viol.append(V("ResNetwork.effective_resistance:value:real:" + LG,
                          "%s: beyond the rounding explained by the "
                          "ill-conditioned pseudo-inverse" % what,
                          [er, fo], [E[i, j], n - 1]))
        # everything derived is then judged on the exact pseudo-inverse
        from scipy import sparse
        net.sparse_R = sparse.lil_matrix(P)
        what += " (object's pseudo-inverse replaced by the exact one)"
        exc["derived measures judged after replacing an ill-conditioned "
            "pseudo-inverse"] = 1
    L = np.full((n, n), np.nan)
    for a in rows:
        for b in range(n):
            L[a, b] = net.effective_resistance(a, b)
            if not full:
                L[b, a] = net.effective_resistance(b, a)
    for (i, j) in links:
        if np.isnan(L[i, j]):
            L[i, j] = net.effective_resistance(i, j)
            L[j, i] = net.effective_resistance(j, i)
    known = ~np.isnan(L)
    ev += int(known.sum())
    bad = known & ~(np.abs(L - E) <= rt * np.abs(E) + 1e-12)
    if np.any(bad):
        a, b = np.argwhere(bad)[0]
        viol.append(V("ResNetwork.effective_resistance:value:real:" + LG,
                      "%s pair (%d,%d)" % (what, a, b), L[a, b], E[a, b]))
    tol = 1e-9 * max(1.0, float(np.nanmax(np.abs(L))))
    both = known & known.T
    if np.any(np.abs(np.where(both, L - L.T, 0)) > tol):
        viol.append(V("ResNetwork.effective_resistance:law:symmetry:" + LG,
                      what, None, None))
    if np.any(np.diag(L)[rows] != 0):
        viol.append(V("ResNetwork.effective_resistance:law:zero-self:" + LG,
                      what, None, 0))
    off = known & ~np.eye(n, dtype=bool)
    if np.any(L[off] <= 0):
        viol.append(V("ResNetwork.effective_resistance:law:positivity:" + LG,
                      what, float(np.min(L[off])), "> 0"))
    foster = sum(L[i, j] / float(r) for (i, j), r in links.items())
    ev += 1
    if not _close(foster, n - 1, rtol=rt):
        viol.append(V("ResNetwork.effective_resistance:law:foster:" + LG,
                      what, foster, n - 1))
    for (i, j), r in links.items():
        if L[i, j] > float(r) * (1 + 1e-9):
            viol.append(V("ResNetwork.effective_resistance:law:path-bound:"
                          + LG, "%s link (%d,%d)" % (what, i, j), L[i, j],
                          float(r)))
            break
    if full:
        for b in range(n):
            ev += n * n
            if np.any(L > L[:, [b]] + L[[b], :] + tol):
                viol.append(V("ResNetwork.effective_resistance:law:triangle:"
                              + LG, what, None, "R_ac <= R_ab + R_bc"))
                break
        low = [L[i, j] for i in range(n) for j in range(i)]
        _cmp(viol, net, "average_effective_resistance", (),
             2 * sum(low) / (n * (n - 1)), what, RT, AT)
        _cmp(viol, net, "diameter_effective_resistance", (), max(low), what,
             RT, AT)
        for a in (0, n - 1):
            _cmp(viol, net, "effective_resistance_closeness_centrality",
                 (a,), (n - 1) / sum(L[a, i] for i in range(n)), what, RT, AT)
        ev += 4
    nv = len(viol)
    _cmp(viol, net, "get_admittance", (), ref["Y"], what, RT, AT)
    _cmp(viol, net, "admittive_degree", (), ref["ad"], what, RT, AT)
    _cmp(viol, net, "average_neighbors_admittive_degree", (), ref["anad"],
         what, RT, AT)
    _cmp(viol, net, "local_admittive_clustering", (), ref["lac"], what, RT,
         AT)
    ev += 4
    rmax, ad = ref["rmax"], ref["ad"]
    for i in (range(n) if full else rows):
        ev += 1
        _cmp(viol, net, "vertex_current_flow_betweenness", (i,),
             ref["vcfb"][i], what, 2e-5, 2e-6 + 4 * EPS32 * rmax * ad[i])
    ev += 1
    try:
        got = np.asarray(net.edge_current_flow_betweenness(), dtype=float)
        atol = 2e-6 + 4 * EPS32 * rmax * ref["Y"]
        if got.shape != (n, n) or not np.all(np.isfinite(got)) or np.any(
                np.abs(got - ref["ecfb"]) > atol + 2e-5 * ref["ecfb"]):
            k_ = np.argwhere(~(np.abs(got - ref["ecfb"]) <= atol + 2e-5 *
                               ref["ecfb"]))[0] if got.shape == (n, n) \
                else (0, 0)
            viol.append(V("ResNetwork.edge_current_flow_betweenness:value:"
                          "real", "%s link %s" % (what, tuple(k_)),
                          got[tuple(k_)] if got.shape == (n, n) else got.shape,
                          ref["ecfb"][tuple(k_)]))
    except Exception as ex:
        viol.append(V("ResNetwork.edge_current_flow_betweenness:raises:"
                      "connected", "%s %r" % (what, ex), repr(ex), None))
    # keys of this family carry the size class
    for v in viol[nv:]:
        if not v["key"].endswith(LG):
            v["key"] += ":" + LG
    return {"viol": viol, "evals": ev, "excluded": exc,
            "sig": (builder, n, round(float(E[0, n - 1]), 9),
                    round(float(ref["vcfb"][n // 2]), 9))}


def _scale_hist(updates):
    n, links0 = C.ring_chords(12)
    keys = sorted(links0)
    linksets = [{k_: ALPHA[f(i)] for i, k_ in enumerate(keys)}
                for f in HIST_ASSIGN]
    k = len(updates)
    plans = [[b] * (k + 1) for b in UNIFORM]
    # owned states: for every uniform plan the prefixes of its final block
    states = sum(1 + len(b) for b in UNIFORM)
    return _history(n, linksets, updates, plans, states, ("ring12",))


WIDE = {"dumbbell-1e5": lambda: C.dumbbell(10 ** 5),
        "dumbbell-1e6": lambda: C.dumbbell(10 ** 6),
        "dumbbell-1e7": lambda: C.dumbbell(10 ** 7),
        "chain3-1-1e7": C.wide_chain3, "chain4-1e-3-1-1e7": C.wide_chain4,
        "star-1e-3..1e6": C.wide_star}
WR = "wide-range"
EPS64 = 2.0 ** -52
BETW_CAP = 1e-3      # a betweenness is a share of the unit current in [0,1]


def _spectrum(Y):
    Lf = np.diag(Y.sum(axis=1)) - Y
    lam, U = np.linalg.eigh(Lf)
    return lam, U


def _wide_rel(lam):
    """Relative accuracy a backward stable inversion of this Laplacian can
    deliver: 16 eps x (largest / smallest non-zero eigenvalue)."""
    return max(RT, 16 * EPS64 * lam[-1] / lam[1])


def _check_R(net, n, P, lam, U, rel, what, viol, describe):
    """The pseudo-inverse the object keeps, against the exact one.  Returns
    True when it had to be replaced."""
    from scipy import sparse
    Rlib = np.asarray(net.get_R(), dtype=float)
    pmax = float(np.max(np.abs(P)))
    if Rlib.shape == (n, n) and np.all(np.abs(Rlib - P) <= rel * pmax):
        return False
    key = "ResNetwork.get_R:value:real:" + WR
    extra = ""
    if Rlib.shape == (n, n):
        q = np.array([U[:, k] @ Rlib @ U[:, k] for k in range(1, n)])
        inv = 1.0 / lam[1:]
        dropped = np.abs(q) < 1e-6 * inv
        fine = np.abs(q - inv) <= 1e-5 * inv
        if np.any(dropped) and np.all(dropped | fine):
            thr = float(np.max(lam[1:][dropped]) / lam[-1])
            extra = ("; %d genuine mode(s) of the Laplacian discarded, "
                     "eigenvalue / largest eigenvalue up to %.3g" % (
                         int(dropped.sum()), thr))
            key = ("ResNetwork.get_R:value:mode-below-1e-10-discarded"
                   if thr < 1.01e-10 else
                   "ResNetwork.get_R:value:genuine-mode-discarded")
    viol.append(V(key, "%s%s; %s" % (what, extra, describe(net)),
                  float(np.max(np.abs(Rlib))) if Rlib.size else None, pmax))
    net.sparse_R = sparse.lil_matrix(P)
    return True


def _betw(viol, name, what, got, exp, f32, pmax):
    """exp/got/f32 arrays.  Accepted: float32 tolerance plus the error the
    float32 copy of R explains, but never more than BETW_CAP."""
    got = np.asarray(got, dtype=float)
    err = np.abs(got - exp)
    base = 2e-6 + 2e-5 * np.abs(exp)
    if got.shape != exp.shape or not np.all(np.isfinite(got)):
        viol.append(V("ResNetwork.%s:value:real:%s" % (name, WR), what,
                      got.shape, exp.shape))
        return
    bad = err > base + np.minimum(f32, BETW_CAP)
    if not np.any(bad):
        return
    k = tuple(int(x) for x in np.argwhere(bad)[np.argmax(err[bad])])
    explained = bool(np.all(err <= base + 2 * f32))
    viol.append(V(
        "ResNetwork.%s:value:real:%s%s" % (
            name, WR, "=float32-copy-of-R" if explained else ""),
        "%s: entry %s; the compiled sum receives float32 copies of the "
        "pseudo-inverse (entries up to %.3g, float32 spacing %.3g)" % (
            what, k if len(k) > 1 else int(k[0]), pmax, pmax * EPS32),
        float(got[k]), float(exp[k])))


def _scale_wide(name):
    n, links = WIDE[name]()
    what = "%s: %d nodes, resistances %s" % (name, n, {
        "%d-%d" % k_: str(v) for k_, v in sorted(links.items())})
    viol, exc = [], {}
    fl = lambda M: np.array([[float(x) for x in r] for r in M])     # noqa
    E = fl(C.effective_resistance_matrix(n, links))
    P = fl(C.pinv_exact(n, links))
    Y = fl(C.admittance(n, links))
    lam, U = _spectrum(Y)
    rel = _wide_rel(lam)
    weak = max(links, key=lambda k_: links[k_])
    net = _mk(n, links)

    def describe(nt):
        er = nt.effective_resistance(*weak)
        fo = sum(nt.effective_resistance(a, b) / float(r)
                 for (a, b), r in links.items())
        return ("on this object effective_resistance%s = %.9g (exact %.9g), "
                "Foster sum = %.9g (exact %d)" % (weak, er, E[weak], fo,
                                                  n - 1))
    ev = 1
    if _check_R(net, n, P, lam, U, rel, what, viol, describe):
        what += " (object's pseudo-inverse replaced by the exact one)"
        exc["derived measures judged after replacing a wrong "
            "pseudo-inverse"] = 1
    L = np.array(_er_matrix(net, n), dtype=float)
    ev += n * n
    if not np.all(np.abs(L - E) <= rel * np.abs(E) + 1e-12):
        a, b = np.argwhere(~(np.abs(L - E) <= rel * np.abs(E) + 1e-12))[0]
        viol.append(V("ResNetwork.effective_resistance:value:real:" + WR,
                      "%s pair (%d,%d), accepted relative error %.3g" % (
                          what, a, b, rel), L[a, b], E[a, b]))
    tol = rel * float(np.max(np.abs(L)))
    if np.any(np.diag(L) != 0):
        viol.append(V("ResNetwork.effective_resistance:law:zero-self:" + WR,
                      what, np.diag(L), 0))
    if np.any(L[~np.eye(n, dtype=bool)] <= 0):
        viol.append(V("ResNetwork.effective_resistance:law:positivity:" + WR,
                      what, L, E))
    if np.max(np.abs(L - L.T)) > tol:
        viol.append(V("ResNetwork.effective_resistance:law:symmetry:" + WR,
                      what, L, E))
    for b in range(n):
        ev += n * n
        if np.any(L > (L[:, [b]] + L[[b], :]) * (1 + 3 * rel) + 1e-12):
            viol.append(V("ResNetwork.effective_resistance:law:triangle:"
                          + WR, what, L, "R_ac <= R_ab + R_bc"))
            break
    for a in range(n):
        for b in range(a + 1, n):
            ev += 1
            pmin = float(min(C.simple_path_resistances(n, links, a, b)))
            if L[a, b] > pmin * (1 + rel):
                viol.append(V("ResNetwork.effective_resistance:law:"
                              "path-bound:" + WR, "%s pair %s" % (
                                  what, (a, b)), L[a, b], pmin))
    foster = sum(L[i, j] / float(r) for (i, j), r in links.items())
    ev += 1
    if not abs(foster - (n - 1)) <= 4 * rel * (n - 1):
        viol.append(V("ResNetwork.effective_resistance:law:foster:" + WR,
                      what, foster, n - 1))
    low = [L[i, j] for i in range(n) for j in range(i)]
    nv = len(viol)
    _cmp(viol, net, "average_effective_resistance", (),
         2 * sum(low) / (n * (n - 1)), what, RT, AT)
    _cmp(viol, net, "diameter_effective_resistance", (), max(low), what, RT,
         AT)
    for a in range(n):
        _cmp(viol, net, "effective_resistance_closeness_centrality", (a,),
             (n - 1) / sum(L[a, i] for i in range(n)), what, RT, AT)
    fx = lambda xs: np.array([float(x) for x in xs])               # noqa
    ad = fx(C.admittive_degree(n, links))
    _cmp(viol, net, "get_admittance", (), Y, what, RT, AT)
    _cmp(viol, net, "admittive_degree", (), ad, what, RT, AT)
    _cmp(viol, net, "average_neighbors_admittive_degree", (),
         fx(C.avg_neighbours_admittive_degree(n, links)), what, RT, AT)
    _cmp(viol, net, "local_admittive_clustering", (),
         fx(C.local_admittive_clustering(n, links)), what, RT, AT)
    ev += n + 6
    for v in viol[nv:]:
        v["key"] += ":" + WR
    pmax = float(np.max(np.abs(P)))
    try:
        vc = [net.vertex_current_flow_betweenness(i) for i in range(n)]
        _betw(viol, "vertex_current_flow_betweenness", what, vc,
              fx(C.vertex_cfb(n, links)), 4 * EPS32 * pmax * ad, pmax)
        ec = net.edge_current_flow_betweenness()
        _betw(viol, "edge_current_flow_betweenness", what, ec,
              fl(C.edge_cfb(n, links)), 4 * EPS32 * pmax * Y, pmax)
        ev += n + 1
    except Exception as ex:
        viol.append(V("ResNetwork.vertex_current_flow_betweenness:raises:"
                      "connected:" + WR, "%s %r" % (what, ex), repr(ex),
                      None))
    return {"viol": viol, "evals": ev, "excluded": exc,
            "sig": (name, float(L[weak]), round(float(foster), 6))}


def _scale_longchain(n):
    """Unit chain: series law |a-b| exactly, closed-form betweenness."""
    nn, links = C.chain(n)
    what = "chain of %d unit resistors" % (n - 1)
    viol, exc = [], {}
    net = _mk(n, links)
    Y = np.zeros((n, n))
    for i in range(n - 1):
        Y[i, i + 1] = Y[i + 1, i] = 1.0
    lam, U = _spectrum(Y)
    assert abs(lam[1] - (2 - 2 * math.cos(math.pi / n))) < 1e-9
    rel = _wide_rel(lam)
    # grounded Green's function of the chain in closed form (potential of i
    # for a unit current j -> last node = distance of max(i,j) to the end),
    # doubly centred = the pseudo-inverse
    idx = np.arange(n)
    Gr = (n - 1 - np.maximum(idx[:, None], idx[None, :])).astype(float)
    P = Gr - Gr.mean(axis=0, keepdims=True) - Gr.mean(axis=1, keepdims=True) \
        + Gr.mean()

    def describe(nt):
        return ("on this object effective_resistance(0,%d) = %.9g (exact %d)"
                % (n - 1, nt.effective_resistance(0, n - 1), n - 1))
    ev = 1
    if _check_R(net, n, P, lam, U, rel, what, viol, describe):
        what += " (object's pseudo-inverse replaced by the exact one)"
        exc["derived measures judged after replacing a wrong "
            "pseudo-inverse"] = 1
    pairs_ = set()
    for a in (0, n - 1):
        for b in range(0, n, 1 if n <= 160 else 7):
            pairs_.add((a, b))
    for k_ in (1, 2, n // 2 - 1, n - 2, n - 1):
        for a in (0, 1, n // 3, n // 2, n - 1 - k_):
            if 0 <= a and a + k_ < n:
                pairs_.add((a, a + k_))
                pairs_.add((a + k_, a))
    for i in range(n - 1):
        pairs_.add((i, i + 1))
    got = {pq: net.effective_resistance(*pq) for pq in sorted(pairs_)}
    ev += len(got)
    bad = [(pq, g) for pq, g in got.items()
           if not abs(g - abs(pq[0] - pq[1])) <= rel * abs(pq[0] - pq[1])]
    if bad:
        (a, b), g = max(bad, key=lambda t: abs(t[1] - abs(t[0][0] - t[0][1])))
        viol.append(V("ResNetwork.effective_resistance:law:series:long-chain",
                      "%s: nodes %d and %d are %d apart (%d of %d sampled "
                      "pairs wrong)" % (what, a, b, abs(a - b), len(bad),
                                        len(got)), g, abs(a - b)))
    foster = sum(got[(i, i + 1)] for i in range(n - 1))
    ev += 1
    if not abs(foster - (n - 1)) <= 4 * rel * (n - 1):
        viol.append(V("ResNetwork.effective_resistance:law:foster:long-chain",
                      what, foster, n - 1))
    if n <= 160:
        for a in (0, n - 1):
            ev += 1
            _cmp(viol, net, "effective_resistance_closeness_centrality",
                 (a,), (n - 1) / sum(got[(a, b)] for b in range(n)), what,
                 RT, AT)
    else:
        exc["closeness on chains > 160 nodes (one full row of pair queries "
            "per node is too slow)"] = 1
    # R of a unit chain: entries up to ~ n/3
    f32 = 4 * EPS32 * (n / 3.0) * 2
    nodes = sorted({0, 1, n // 3, n // 2, n - 2, n - 1})
    vc = [net.vertex_current_flow_betweenness(i) for i in nodes]
    exp = np.array([float(C.chain_vcfb(n, i)) for i in nodes])
    ev += len(nodes)
    if not np.all(np.abs(np.array(vc) - exp) <= 2e-6 + 2e-5 * exp + f32):
        k_ = int(np.argmax(np.abs(np.array(vc) - exp)))
        viol.append(V("ResNetwork.vertex_current_flow_betweenness:value:real:"
                      "long-chain", "%s node %d" % (what, nodes[k_]), vc[k_],
                      exp[k_]))
    if n <= 320:
        ec = np.asarray(net.edge_current_flow_betweenness(), dtype=float)
        expm = np.zeros((n, n))
        for i in range(n - 1):
            expm[i, i + 1] = expm[i + 1, i] = float(C.chain_ecfb(n, i))
        ev += 1
        if ec.shape != (n, n) or not np.all(
                np.abs(ec - expm) <= 2e-6 + 2e-5 * expm + f32 * (expm > 0)):
            i, j = np.argwhere(~(np.abs(ec - expm) <= 2e-6 + 2e-5 * expm +
                                 f32 * (expm > 0)))[0]
            viol.append(V("ResNetwork.edge_current_flow_betweenness:value:"
                          "real:long-chain", "%s link (%d,%d)" % (what, i, j),
                          ec[i, j], expm[i, j]))
    else:
        exc["edge betweenness on chains > 320 nodes (N^4 kernel)"] = 1
    return {"viol": viol, "evals": ev, "excluded": exc,
            "sig": ("chain", n, round(got[(0, n - 1)], 6),
                    round(float(vc[len(vc) // 2]), 6))}


def _scale_wide_hist(updates):
    """Histories switching between a narrow and two wide assignments of the
    dumbbell network (only the bridge changes)."""
    n = 12
    linksets = [C.dumbbell(1)[1], C.dumbbell(10 ** 6)[1],
                C.dumbbell(10 ** 7)[1]]
    k = len(updates)
    plans = [[b] * (k + 1) for b in UNIFORM]
    Y = np.array([[float(x) for x in r]
                  for r in C.admittance(n, linksets[2])])
    rel = _wide_rel(_spectrum(Y)[0])
    return _history(n, linksets, updates, plans,
                    sum(1 + len(b) for b in UNIFORM), ("dumbbell",),
                    er_rtol=rel)


def fam_scale(case):
    if case[0] == "wide":
        return _scale_wide(case[1])
    if case[0] == "longchain":
        return _scale_longchain(case[1])
    if case[0] == "widehist":
        return _scale_wide_hist(case[1])
    if case[0] == "net":
        try:
            return _scale_net(case[1], case[2])
        except AssertionError:
            raise
        except Exception as ex:
            import traceback
            tb = traceback.extract_tb(ex.__traceback__)
            lib = [f for f in tb if "pyunicorn" in f.filename]
            if not lib:
                raise
            return {"viol": [V("ResNetwork.%s:raises:connected:%s" % (
                lib[-1].name, LG), "%s: %r" % (case, ex), repr(ex),
                "a value")], "evals": 1, "sig": "raises"}
    return _scale_hist(case[1])


def fam_routes(case):
    """Other routes to the same circuit: the `adjacency=` option with a
    resistance matrix that also carries values on NON-links (e.g. a full
    distance matrix), `update_resistances` with such a matrix, the same array
    edited in place and handed in again, integer resistances.  The links are
    those of the adjacency; all quantities must equal those of the network
    built from the link-only matrix."""
    from pyunicorn.core import ResNetwork
    n, mask, perm, assign = case
    links = _links_from(n, mask, assign, perm)
    viol = []
    Rl = np.array(C.matrix_of(n, links), dtype=float)
    A = (Rl != 0).astype(np.int8)
    full = Rl.copy()
    for i in range(n):
        for j in range(n):
            if i != j and not A[i, j]:
                full[i, j] = 3.5 + 0.25 * ((i + j) % 3)
    other = Rl * 2.0

    def measures(net):
        return {
            "effective_resistance": np.array(_er_matrix(net, n), float),
            "vertex_current_flow_betweenness": np.array(
                [net.vertex_current_flow_betweenness(i) for i in range(n)],
                float),
            "edge_current_flow_betweenness": np.asarray(
                net.edge_current_flow_betweenness(), float),
            "admittive_degree": np.asarray(net.admittive_degree(), float),
            "average_effective_resistance": float(
                net.average_effective_resistance()),
        }

    def build(route):
        if route == "adjacency=":
            return ResNetwork(full.copy(), adjacency=A.copy(),
                              silence_level=3)
        if route == "update(full)":
            net = ResNetwork(other.copy(), silence_level=3)
            net.update_resistances(full.copy())
            return net
        if route == "update(same array edited in place)":
            M = other.copy()
            net = ResNetwork(M, silence_level=3)
            measures(net)
            M[...] = Rl
            net.update_resistances(M)
            return net
        if route == "attribute edited in place":
            net = ResNetwork(other.copy(), silence_level=3)
            measures(net)
            net.resistances *= 0.5
            net.update_resistances(net.resistances)
            return net
        raise ValueError(route)

    ev = 0
    try:
        ref = measures(_mk(n, links))
    except Exception as ex:   # noqa
        return {"viol": [], "evals": 1, "sig": "ref-raises",
                "excluded": {"reference route raises: %s" %
                             type(ex).__name__: 1}}
    for route in ("adjacency=", "update(full)",
                  "update(same array edited in place)",
                  "attribute edited in place"):
        try:
            got = measures(build(route))
        except Exception as ex:   # noqa
            viol.append(V("ResNetwork.%s:raises" % route, repr(ex), repr(ex),
                          "a network"))
            continue
        for k, e in ref.items():
            ev += 1
            if not _close(got[k], e):
                viol.append(V("ResNetwork.%s:route:%s" % (k, route),
                              "%d nodes, links %s: differs from the network "
                              "built from the link-only matrix" % (
                                  n, sorted(links)), got[k], e))
    # real -> complex and complex -> real updates of ONE object vs a fresh
    # network with the final impedances (measures defined for complex values)
    Z = Rl * (1.0 + 0.5j)

    def cmeasures(net):
        return {
            "effective_resistance": np.array(_er_matrix(net, n), complex),
            "admittive_degree": np.asarray(net.admittive_degree(), complex),
            "average_effective_resistance": complex(
                net.average_effective_resistance()),
        }
    for route, first, final in (("update(real->complex)", Rl, Z),
                                ("update(complex->real)", Z, Rl * 2.0)):
        try:
            want = cmeasures(ResNetwork(final.copy(), silence_level=3))
            net = ResNetwork(first.copy(), silence_level=3)
            cmeasures(net)
            net.update_resistances(final.copy())
            got = cmeasures(net)
        except Exception as ex:   # noqa
            viol.append(V("ResNetwork.%s:raises" % route, repr(ex), repr(ex),
                          "an updated network"))
            continue
        for k, e in want.items():
            ev += 1
            if not np.allclose(got[k], e, rtol=RT, atol=AT):
                viol.append(V("ResNetwork.%s:route:%s" % (k, route),
                              "%d nodes, links %s: differs from a fresh "
                              "network with the final impedances" % (
                                  n, sorted(links)), got[k], e))
    return {"viol": viol, "evals": ev, "trivial": False,
            "sig": (n, mask, tuple(assign))}


FAMILIES = {"scale": fam_scale, "circuit": fam_circuit, "laws": fam_laws,
            "complex": fam_complex, "history": fam_history,
            "routes": fam_routes}


# ---------------------------------------------------------------------------


def connected(n):
    return [m for (_, _, m) in iso(n) if is_connected(adj(n, False, m))]


def _assignments(nl, full_limit=6):
    if nl <= full_limit:
        return [list(a) for a in itertools.product(range(3), repeat=nl)]
    out = [[1] * nl]
    for k in range(nl):
        for v in (0, 2):
            a = [1] * nl
            a[k] = v
            out.append(a)
    return out


def run(ctx):
    thorough = ctx.tier == "thorough"
    C.selfcheck()
    ctx.rule = (
        "circuit: connected isomorphism classes on 2..5 nodes x all "
        "relabellings (n<=4; n=5: identity, thorough tier + 2 more; identical "
        "labelled weighted graphs once) x all resistance assignments over "
        "{1/2,1,2} (<=6 links; unit + one link perturbed beyond); laws: all "
        "series chains of 1..7 resistors (quick: 6..7 unit + one "
        "perturbed), parallel bundles of 1..3 two-link branches (+/- direct "
        "link, up to 6 branches uniform), 2xk ladders k=2..4 unit + one "
        "perturbed link; complex: 3^5 assignments x 2 labellings; "
        "history: every update sequence of length <=2 over 3 assignments x "
        "every block of <=2 average/diameter queries in each gap.  A case is "
        "distinct by (weighted graph, first row of library resistances).")
    cases = []
    for n in range(2, 6):
        for m in connected(n):
            nl = bin(m).count("1")
            if n <= 4:
                perms = list(itertools.permutations(range(n)))
            elif thorough:
                perms = [tuple(range(n)), (4, 3, 2, 1, 0), (2, 4, 1, 0, 3)]
            else:
                perms = [tuple(range(n))]
            asg = _assignments(nl, 6)
            seen = set()
            for p in perms:
                for a in asg:
                    # identical labelled weighted graphs (automorphisms) once
                    key = tuple(sorted(_links_from(n, m, a, p).items()))
                    if key not in seen:
                        seen.add(key)
                        cases.append((n, m, list(p), a))
    cases.sort(key=lambda c: (c[0], bin(c[1]).count("1")))
    ctx.explore("routes", [c for c in cases
                           if list(c[2]) == list(range(c[0]))][
                               ::(1 if thorough else 3)],
                desc="adjacency= with values on non-links, update with a full "
                "matrix / the same array edited in place, vs link-only matrix")
    ctx.explore("circuit", cases, desc="connected graphs x relabellings x "
                "resistance assignments vs exact rational circuit model")
    cases = []
    for L in range(1, 8):
        if L > 5 and not thorough:
            cases += [("series", a) for a in _assignments(L, 5)]
            continue
        for a in itertools.product(range(3), repeat=L):
            cases.append(("series", list(a)))
    br1 = list(itertools.product(range(3), repeat=2))
    for nb in (1, 2, 3):
        for combo in itertools.combinations_with_replacement(br1, nb):
            for direct in (None, 0, 1, 2):
                cases.append(("parallel", [[list(b) for b in combo], direct]))
    for nb in (4, 5, 6):
        for b in br1:
            for direct in (None, 1):
                cases.append(("parallel", [[list(b)] * nb, direct]))
    for k in (2, 3, 4):
        cases.append(("ladder", [k, None]))
        for link in range(3 * k - 2):
            for v in (0, 2):
                cases.append(("ladder", [k, [link, v]]))
    ctx.explore("laws", cases, desc="series / parallel / ladder circuits")
    perms = [list(range(5)), [4, 2, 0, 3, 1]]
    cases = [(p, list(a)) for p in perms
             for a in itertools.product(range(3), repeat=5)]
    ctx.explore("complex", cases, desc="complex impedances on the fixture "
                "topology")
    cases = []
    nmax = 5 if thorough else 4
    for n in range(2, nmax + 1):
        for m in connected(n):
            for variant in ((0, 1) if thorough and n <= 4 else (0,)):
                for k in range(3):
                    for ups in itertools.product(range(3), repeat=k):
                        cases.append((n, m, variant, list(ups)))
    cases.sort(key=lambda c: (len(c[3]), c[0]))
    ctx.explore("history", cases, chunk=1, desc="update_resistances "
                "histories x query blocks vs fresh twin")
    # scale: fixed list of larger structured networks, simplest first
    C.selfcheck_np()
    sizes = [9, 12, 23, 40] + ([130, 190] if thorough else [])
    cases = [["net", b, n] for n in sizes for b in ("ladder", "ring", "tree")]
    cases += [["net", "chain", n] for n in (21, 24, 25, 26, 34)]
    cases.sort(key=lambda c: c[2])
    C.selfcheck_wide()
    cases += [["wide", name] for name in ("chain3-1-1e7", "chain4-1e-3-1-1e7",
                                          "star-1e-3..1e6", "dumbbell-1e5",
                                          "dumbbell-1e6", "dumbbell-1e7")]
    cases += [["longchain", n]
              for n in [150, 300] + ([600] if thorough else [])]
    cases += [["widehist", u] for u in ([1], [1, 0], [2, 0], [1, 0, 1],
                                        [1, 0, 2, 0], [2, 1, 0, 1])]
    for k in range(5):
        for ups in itertools.product(range(3), repeat=k):
            cases.append(["hist", list(ups)])
    ctx.explore("scale", cases, chunk=1, desc="ladders / rings with chords / "
                "trees of 9..40 (thorough ..190) nodes; update histories of "
                "depth <=4 on a 12-node ring with chords")
    ctx.notes["scale_sizes"] = sizes
    ctx.notes["scale_history_depth"] = 4
    ctx.notes.update({
        "circuit_nodes": "2..5", "alphabet": "1/2, 1, 2",
        "history_depth_updates": 2, "history_query_block": 2,
        "history_nodes_max": nmax, "laws_nodes_max": 8})
    ctx.assumptions += [
        "the reference solves Kirchhoff's equations exactly over the "
        "rationals (Gaussian rationals for impedances); it is self-checked by "
        "the circuit laws and the docstring examples before use",
        "current-flow betweenness: end-point terms are not added (fixed by "
        "the docstring example 0.389/0.044); accepted error 2e-5 relative + "
        "2e-6 + 4*2^-23*max|R|*admittance for the float32 copies of Y and R",
        "complex networks: diameter (no order), average neighbours admittive "
        "degree (undocumented (1+i) convention) and the compiled betweenness "
        "sums (reject complex input) are excluded and counted",
        "states = prefixes of the history tree, each reached by replaying "
        "the history on a freshly constructed object (live objects hold "
        "igraph handles and are not copied)"]
