"""C05  All representations of a network agree, and survive save/load.

Bounded-exhaustive enumeration on the real constructors / converters:
  paths      every graph (edgeless, single link, isolated nodes, directed) x
             node weights x {0,1,2} link attributes: every construction path
             of Network (dense list, ndarray dtypes, scipy.sparse formats,
             edge list, other.edge_list(), set_edge_list / adjacency setter on
             an existing object, FromIGraph, copy, undirected_copy)
  files      save -> Load for graphml, graphmlz, pickle, gml
  spatial    the same for SpatialNetwork / GeoNetwork / ClimateNetwork
             (constructor paths, save/Load, set_node_weight_type transitions)
  consumers  internal users of these paths on the same tiny graphs
             (local_vulnerability, component-wise random-walk betweenness,
             randomly_rewire)
Oracle: refmodel/netrepr.py - N, n_links=|E|, link density, adjacency / sp_A,
igraph edge set, node weights with total and mean, link attributes all equal
the enumerated input.
"""
import os
import random

import numpy as np

from ..core import V
from ..compare import outcome, equal, brief
from ..domains import all_graphs, iso, adj
from ..refmodel import netrepr as NR

LEVEL = "exploration"
FORMATS = [("graphml", "graphml"), ("graphmlz", "graphmlz"),
           ("pickle", "pickle"), ("gml", "gml")]
F32 = dict(rtol=2e-5, atol=2e-6)


# ---------------------------------------------------------------------------
# helpers


def _digest(x):
    """Short stand-in for a long observation inside the signature."""
    t = str(x)
    if len(t) <= 400:
        return t
    import hashlib
    return hashlib.sha1(t.encode()).hexdigest()


def _input_class(sp):
    if sp["n_links"] == 0:
        return "edgeless"
    return "directed" if sp["directed"] else "undirected"


def _exc_type(o):
    return o[1].split(":")[0]


def _decorate(net, sp):
    for name, M in sp["attrs"].items():
        net.set_link_attribute(name, np.array(M))
    return net


def _edges_once(sp, reverse=False):
    return [[j, i] if reverse else [i, j] for (i, j) in sp["edges"]]


def _igraph_of(sp, order="sorted"):
    """igraph object of the specification; `order`: the edges as listed
    (sorted), reversed, or interleaved from both ends with every second
    undirected edge given as (j, i) - an igraph object or a foreign file may
    list its edges in any order."""
    import igraph
    edges = [tuple(e) for e in sp["edges"]]
    if order == "reversed":
        edges = edges[::-1]
    elif order == "interleaved":
        a, b = edges[::2], edges[1::2][::-1]
        edges = [e for pair in zip(a, b) for e in pair] + \
            a[len(b):] + b[len(a):]
        if not sp["directed"]:
            edges = [(j, i) if k % 2 else (i, j)
                     for k, (i, j) in enumerate(edges)]
    g = igraph.Graph(n=sp["N"], edges=edges, directed=sp["directed"])
    if sp["w_in"] is not None:
        g.vs["node_weight_nsi"] = list(sp["weights"])
    for name, M in sp["attrs"].items():
        g.es[name] = [M[i][j] for (i, j) in edges]
    return g


class Judge:
    """Collects violations / signature / counters of one case."""

    def __init__(self, sp):
        self.sp = sp
        self.viol, self.sig = [], []
        self.evals = 0
        self.stats, self.excluded = {}, {}

    def count(self, d, k, v=1):
        d[k] = d.get(k, 0) + v

    def raises(self, cls, path, res, sp=None, expected="a network"):
        sp = sp or self.sp
        disc = _input_class(sp)
        if "allow_pickle" in res[1]:
            disc = "np.load-without-allow_pickle"
        self.viol.append(V(
            "%s.%s:raises:%s=%s" % (cls, path, disc, _exc_type(res)),
            "construction path raises on a legal input (%d nodes, links %s)"
            % (sp["N"], sp["edges"]), res[1], expected))

    def judge(self, cls, path, res, sp=None, groups=("structure", "weights",
                                                     "attrs"),
              weights=None, wtol=None, wpath=None):
        """res = outcome(builder).  Returns the observation or None."""
        sp = sp or self.sp
        self.evals += 1
        if res[0] == "exc":
            self.sig.append((path, "raises " + _exc_type(res)))
            self.raises(cls, path, res, sp)
            return None
        o = NR.observe(res[1])
        d = NR.diff(sp, o, weights=weights, wtol=wtol)
        self.evals += 12
        st = []
        if "structure" in groups and d["structure"]:
            item, got, exp = d["structure"][0]
            disc = _input_class(sp)
            if item in ("adjacency", "sp_A") and isinstance(got, list) and \
                    got == (2 * np.array(sp["A"])).tolist():
                disc += "=entries-2"
            if item == "N" and sp["edges"] and isinstance(got, int) and \
                    got == 1 + max(max(e) for e in sp["edges"]):
                disc = "isolated-last-node=N-from-largest-linked-node"
            self.viol.append(V(
                "%s.%s:%s:%s" % (cls, path, item, disc),
                "disagrees with the input; all failing items: %s" % [
                    x[0] for x in d["structure"]], got, exp))
            st.append("S:" + ",".join(x[0] for x in d["structure"]))
        if "weights" in groups and d["weights"]:
            items = [x[0] for x in d["weights"]]
            item, got, exp = d["weights"][0]
            if "node_weights" not in items:
                disc = "total/mean-not-updated"
            elif got is None:
                disc = "None-instead-of-ones" if weights is not None and \
                    all(x == 1.0 for x in weights) else "None"
            elif isinstance(got, list) and all(x == 1.0 for x in got):
                disc = "custom-weights=ones"
            else:
                disc = "custom-weights" if sp["w_in"] is not None or \
                    weights is not None else "default-weights"
            self.viol.append(V(
                "%s.%s:%s:%s" % (cls, wpath or path, "node_weights", disc),
                "node weights / total / mean disagree; failing items: %s"
                % items, [x[1] for x in d["weights"]],
                [x[2] for x in d["weights"]]))
            st.append("W:" + ",".join(items))
        if "attrs" in groups and d["attrs"]:
            names = o["attr_names"]
            want = sorted(sp["attrs"])
            if isinstance(names, list) and not names and want:
                disc = "dropped"
            elif isinstance(names, list) and sorted(
                    x.replace("_", "") for x in want) == names and \
                    names != want:
                disc = "renamed=underscores-removed"
            else:
                disc = "value:" + _input_class(sp)
            item, got, exp = d["attrs"][0]
            self.viol.append(V(
                "%s.%s:link_attributes:%s" % (cls, path, disc),
                "link attributes disagree; failing items: %s" % [
                    x[0] for x in d["attrs"]], got, exp))
            st.append("A:" + ",".join(x[0] for x in d["attrs"]))
        self.sig.append((path, "ok" if not st else ";".join(st),
                         o["N"], o["n_links"], _digest(o["adjacency"]),
                         _digest(o["node_weights"]), str(o["attr_names"])))
        return o

    def result(self, trivial=False):
        return {"viol": self.viol, "evals": self.evals, "sig": str(self.sig),
                "excluded": self.excluded, "stats": self.stats,
                "trivial": trivial}


def _tail(key):
    return key.split("]:", 1)[-1] if "]:" in key else key.split(":", 1)[-1]


def _fold_same_as(J, reference_keys, what):
    """Drop violations that repeat, item and discriminator alike, a failure
    the reference object (the plainly constructed network) already shows:
    one root cause, one key."""
    tails = {_tail(k) for k in reference_keys}
    keep = []
    for v in J.viol:
        if v["key"] not in reference_keys and _tail(v["key"]) in tails:
            J.count(J.stats, what)
        else:
            keep.append(v)
    J.viol = keep


def _reference_failures(sp, net, **jkw):
    """Keys a freshly built object would get (not reported here)."""
    Jb = Judge(sp)
    Jb.judge("Network", "__init__[adjacency=list]", ("ok", net), **jkw)
    return {v["key"] for v in Jb.viol}


# ---------------------------------------------------------------------------
# family: constructor paths of Network


def fam_paths(case):
    import scipy.sparse as sps
    from pyunicorn.core import Network
    n, directed, mask, wk, na = case
    sp = NR.spec(n, directed, mask, wk, na)
    J = Judge(sp)
    A = np.array(sp["A"])
    kw = dict(directed=sp["directed"], node_weights=sp["w_in"],
              silence_level=3)
    N = sp["N"]

    def build(**k):
        return lambda: _decorate(Network(**k, **kw), sp)

    paths = [("__init__[adjacency=list]", build(adjacency=sp["A"]))]
    for dt in ("int8", "int64", "bool", "float64"):
        paths.append(("__init__[adjacency=ndarray:%s]" % dt,
                      build(adjacency=A.astype(dt))))
    for fmt in ("csc", "csr", "coo", "lil"):
        paths.append(("__init__[adjacency=sparse:%s]" % fmt,
                      build(adjacency=getattr(sps, fmt + "_matrix")(A))))
    # sparse input that stores some zeros explicitly (e.g. after A[i,j]=0 or
    # setdiag(0)): still the same adjacency matrix
    zr = [(i, j) for i in range(N) for j in range(N) if not A[i, j]][:3]
    on = [(i, j) for i in range(N) for j in range(N) if A[i, j]]
    if zr:
        rc = on + zr
        data = [1] * len(on) + [0] * len(zr)
        for fmt in ("csr", "csc"):
            M = getattr(sps, fmt + "_matrix")(
                (data, ([r for r, _ in rc], [c for _, c in rc])),
                shape=(N, N))
            paths.append(("__init__[adjacency=sparse:%s,explicit-zeros]"
                          % fmt, build(adjacency=M)))
    # Network(edge_list=...) is set_edge_list: same path name, same key
    paths.append(("set_edge_list[each-link-once]",
                  build(edge_list=_edges_once(sp), n_nodes=N)))
    if not sp["directed"] and sp["edges"]:
        paths.append(("set_edge_list[each-link-once-reversed]",
                      build(edge_list=_edges_once(sp, True), n_nodes=N)))
    if sp["edges"] and max(max(e) for e in sp["edges"]) == N - 1:
        paths.append(("set_edge_list[each-link-once,n_nodes=None]",
                      build(edge_list=_edges_once(sp))))
    else:
        J.count(J.excluded, "edge list without n_nodes when the last node is "
                "isolated (documented: node numbers without gaps)")
    base = outcome(build(adjacency=sp["A"]))
    if base[0] == "ok":
        b = base[1]
        J.sig.append(("base", _digest(NR.observe(b))))
        # edge_list() itself: all (i,j) with a link, row-major (docstring)
        J.evals += 1
        el = outcome(lambda: np.asarray(b.edge_list()).tolist())
        exp = [[i, j] for i in range(N) for j in range(N) if A[i, j]]
        if not (el[0] == "ok" and el[1] == exp):
            J.viol.append(V("Network.edge_list:value:" + _input_class(sp),
                            "", el[1], exp))
        paths.append(("set_edge_list[other.edge_list()]",
                      lambda: _decorate(Network(edge_list=b.edge_list(),
                                                n_nodes=N, **kw), sp)))
        paths.append(("copy", lambda: b.copy()))
    full = (np.ones((N, N), dtype=int) - np.eye(N, dtype=int))

    def via_set_edge_list():
        net = Network(adjacency=full, **kw)
        net.set_edge_list(_edges_once(sp), n_nodes=N)
        return _decorate(net, sp)

    def via_setter(conv):
        def f():
            net = Network(adjacency=full, **kw)
            net.adjacency = conv(A)
            return _decorate(net, sp)
        return f
    paths.append(("set_edge_list[each-link-once]", via_set_edge_list))
    paths.append(("adjacency.setter[list]", via_setter(lambda a: a.tolist())))
    paths.append(("adjacency.setter[sparse:csr]",
                  via_setter(sps.csr_matrix)))
    paths.append(("FromIGraph",
                  lambda: Network.FromIGraph(_igraph_of(sp), 3)))
    paths.append(("FromIGraph[edges reversed]",
                  lambda: Network.FromIGraph(_igraph_of(sp, "reversed"), 3)))
    paths.append(("FromIGraph[edges interleaved]",
                  lambda: Network.FromIGraph(
                      _igraph_of(sp, "interleaved"), 3)))

    def weight_sharing():
        # a network built from the caller's float64 array, a copy of it, an
        # in-place update of the COPY's weights: the original (and the
        # caller's array) keep their values, total and mean
        if sp["w_in"] is None:
            return build(adjacency=sp["A"])()
        w_in = np.array(sp["weights"], dtype=float)
        keep = w_in.copy()
        net = Network(adjacency=A.copy(), directed=sp["directed"],
                      node_weights=w_in, silence_level=3)
        _decorate(net, sp)
        c = net.copy()
        c.node_weights /= 2.0
        if not np.array_equal(w_in, keep):
            raise AssertionError("caller's weight array changed by an "
                                 "in-place update of a copy: %s" % w_in)
        return net
    paths.append(("copy()+in-place weights on the copy", weight_sharing))
    for path, f in paths:
        J.judge("Network", path, outcome(f))
    # the constructor and the existing-object variant of set_edge_list share
    # a path name: report a key once per case
    uniq, had = [], set()
    for v in J.viol:
        if v["key"] not in had:
            uniq.append(v)
            had.add(v["key"])
    J.viol = uniq
    # undirected_copy on symmetric input
    if base[0] == "ok" and np.array_equal(A, A.T):
        if isinstance(mask, (list, tuple)):
            umask = [[i, j] for i in range(N) for j in range(i + 1, N)
                     if A[i, j]]
        else:
            umask = 0
            from ..domains import pairs
            for k, (i, j) in enumerate(pairs(N, False)):
                if A[i, j]:
                    umask |= 1 << k
        spu = NR.spec(N, False, umask, wk, 0 if sp["directed"] else na)
        J.judge("Network", "undirected_copy",
                outcome(lambda: base[1].undirected_copy()), sp=spu,
                groups=("structure", "weights") if sp["directed"] else
                ("structure", "weights", "attrs"))
    else:
        J.count(J.excluded, "undirected_copy of an asymmetric network")
    # every path ends in the adjacency / node_weights setters: what already
    # fails on the plainest path (dense list) is reported there only
    canon = "Network.__init__[adjacency=list]:"
    _fold_same_as(J, {v["key"] for v in J.viol if v["key"].startswith(canon)},
                  "path failures identical to the failure of the dense-list "
                  "constructor (reported there)")
    return J.result()


# ---------------------------------------------------------------------------
# family: save -> Load of Network


def _fname(tag, ext):
    return "c05-%d-%s.%s" % (os.getpid(), tag, ext)


def _network_gml_failures(sp):
    """Groups in which the gml file written by Network.save cannot carry the
    information at all (igraph's GML writer strips underscores from attribute
    names, so 'node_weight_nsi' and user attributes come back renamed).  The
    spatial classes write the same file; their gml failures in these groups
    are the finding already reported for Network.save+Load[gml]."""
    import igraph
    from pyunicorn.core import Network
    base = _decorate(Network(adjacency=sp["A"], directed=sp["directed"],
                             node_weights=[2.0 + i for i in range(sp["N"])],
                             silence_level=3), sp)
    fn = _fname("fold", "gml")
    base.save(fn, "gml")
    g = outcome(lambda: igraph.Graph.Read(fn, "gml"))
    if os.path.exists(fn):
        os.remove(fn)
    if g[0] != "ok":
        return set()
    out = set()
    if "node_weight_nsi" not in g[1].vs.attributes():
        out.add("weights")
    if sorted(g[1].es.attributes()) != sorted(sp["attrs"]):
        out.add("attrs")
    return out


def _roundtrip(J, cls, Loader, saver, names, sp, explain=None, fold=(),
               label="save+Load", **jkw):
    """save+Load in every format; one key when all formats fail alike.
    `fold`: groups whose gml failure is already reported for Network."""
    outs = []
    for fmt, ext in FORMATS:
        for auto in (False, True):
            fn = names(ext)

            def f():
                saver(fn, None if auto else fmt)
                return Loader(fn, None if auto else fmt)
            res = outcome(f)
            for p in (fn if isinstance(fn, (tuple, list)) else [fn]):
                if p and os.path.exists(p):
                    os.remove(p)
            outs.append((fmt + (",auto-detect" if auto else ""), res))
    excs = [r for _, r in outs if r[0] == "exc"]
    if len(excs) == len(outs) and len({_exc_type(r) for r in excs}) == 1:
        J.evals += len(outs)
        J.sig.append(("save+Load", "all raise " + _exc_type(excs[0])))
        if explain and explain(excs[0]):
            return
        J.raises(cls, "save+Load", excs[0], sp)
        return
    for tag, res in outs:
        if res[0] == "exc" and explain and explain(res):
            J.evals += 1
            continue
        # the auto-detected variant is reported under the format's key
        # unless only the auto-detected variant fails
        before = {v["key"] for v in J.viol}
        fmt = tag.split(",")[0]
        kw2 = dict(jkw)
        if fmt == "gml" and fold and res[0] == "ok":
            kw2["groups"] = tuple(
                g for g in jkw.get("groups", ("structure", "weights",
                                              "attrs")) if g not in fold)
            J.count(J.stats, "gml round-trip failures of spatial classes "
                    "attributed to Network.save+Load[gml]", len(fold))
        J.judge(cls, "%s[%s]" % (label, tag), res, sp=sp, **kw2)
        if "," in tag:
            J.viol = [v for v in J.viol if v["key"] in before or
                      v["key"].replace("[%s]" % tag, "[%s]" % fmt)
                      not in before]


def _explained_by_fromigraph(J, sp):
    from pyunicorn.core import Network
    ref = outcome(lambda: Network.FromIGraph(_igraph_of(sp), 3))

    def explain(res):
        if ref[0] == "exc" and _exc_type(ref) == _exc_type(res):
            J.count(J.stats, "Load failures explained by Network.FromIGraph "
                    "raising on the same graph")
            return True
        return False
    return explain


def fam_files(case):
    from pyunicorn.core import Network
    n, directed, mask, wk, na = case
    sp = NR.spec(n, directed, mask, wk, na)
    J = Judge(sp)
    base = _decorate(Network(adjacency=sp["A"], directed=sp["directed"],
                             node_weights=sp["w_in"], silence_level=3), sp)
    _roundtrip(J, "Network",
               lambda fn, fmt: Network.Load(fn, fmt, silence_level=3),
               lambda fn, fmt: base.save(fn, fmt),
               lambda ext: _fname("net", ext), sp,
               explain=_explained_by_fromigraph(J, sp))
    reffail = _reference_failures(sp, base)
    _fold_same_as(J, reffail,
                  "round-trip failures the saved object shows already "
                  "(reported by the paths family)")
    # history: weights given at construction, the adjacency re-assigned
    # (same matrix; the embedded graph is rebuilt), then save -> Load
    before = {v["key"] for v in J.viol}
    try:
        net3 = Network(adjacency=sp["A"], directed=sp["directed"],
                       node_weights=sp["w_in"], silence_level=3)
        net3.adjacency = np.array(sp["A"])
        net3 = _decorate(net3, sp)
    except Exception:   # noqa
        net3 = None
    if net3 is not None:
        _roundtrip(J, "Network",
                   lambda fn, fmt: Network.Load(fn, fmt, silence_level=3),
                   lambda fn, fmt: net3.save(fn, fmt),
                   lambda ext: _fname("net3", ext), sp,
                   explain=_explained_by_fromigraph(J, sp),
                   label="node_weights=,adjacency=,save+Load")
        J.viol = [v for v in J.viol if v["key"] in before or (
            v["key"].replace("node_weights=,adjacency=,save+Load",
                             "save+Load") not in before
            and "node_weights=,adjacency=,save+Load[gml" not in v["key"])]
    # history: a saved object whose node weights are changed afterwards and
    # that is saved again must store the new weights
    wk2 = (wk + 1) % 3
    sp2 = NR.spec(n, directed, mask, wk2, na)
    before = {v["key"] for v in J.viol}
    try:
        base.node_weights = sp2["w_in"]
        ok = True
    except Exception:   # noqa
        ok = False
    if ok:
        _roundtrip(J, "Network",
                   lambda fn, fmt: Network.Load(fn, fmt, silence_level=3),
                   lambda fn, fmt: base.save(fn, fmt),
                   lambda ext: _fname("net2", ext), sp2,
                   explain=_explained_by_fromigraph(J, sp2),
                   label="save,node_weights=,save+Load")
        # what the first round trip reports already is not repeated
        # (gml loses node weights on every save: reported by the first
        # round trip on the cases with custom weights)
        J.viol = [v for v in J.viol if v["key"] in before or (
            v["key"].replace("save,node_weights=,save+Load",
                             "save+Load") not in before
            and "save,node_weights=,save+Load[gml" not in v["key"])]
        _fold_same_as(J, {k for k in reffail if ":node_weights:" not in k},
                      "round-trip failures the saved object shows already "
                      "(reported by the paths family)")
    return J.result()


# ---------------------------------------------------------------------------
# family: spatially embedded classes

LATS = [0.0, 30.0, 60.0, -45.0, 15.0, 75.0]
NWT = ("surface", "irrigation", None)


def _lats(n):
    if n <= len(LATS):
        return LATS[:n]
    return [-80.0 + 160.0 * ((i * 7) % n) / (n - 1) for i in range(n)]


def _geo_weights(grid, nwt):
    """From the latitudes as the grid reports them (float32 storage)."""
    lat = np.asarray(grid.lat_sequence(), dtype=float)
    c = np.cos(lat * np.pi / 180)
    if nwt == "surface":
        return c.tolist()
    if nwt == "irrigation":
        return (c ** 2).tolist()
    return [1.0] * len(lat)


def _same_grid(a, b):
    try:
        ga, gb = a.grid, b.grid
        return type(ga) is type(gb) and ga.N == gb.N and all(
            np.array_equal(ga._grid[k], gb._grid[k]) for k in ga._grid)
    except Exception:   # noqa
        return False


def _spatial(case):
    from pyunicorn.core import Grid, GeoGrid, SpatialNetwork, GeoNetwork, \
        Network
    from pyunicorn.climate import ClimateNetwork
    n, directed, mask, wk, na, which = case
    sp = NR.spec(n, directed, mask, wk, na)
    J = Judge(sp)
    A = np.array(sp["A"])
    t = np.arange(3.0)
    if which == "spatial":
        fold = _network_gml_failures(sp)
        grid = Grid(t, np.array([[1.0 * i for i in range(n)],
                                 [2.0 * i * i for i in range(n)]]),
                    silence_level=3)

        def mk(**k):
            net = SpatialNetwork(grid, directed=sp["directed"],
                                 silence_level=3, **k)
            if sp["w_in"] is not None:
                net.node_weights = sp["w_in"]
            return _decorate(net, sp)
        res = outcome(lambda: mk(adjacency=A))
        J.judge("SpatialNetwork", "__init__[adjacency]", res)
        el = outcome(lambda: SpatialNetwork(
            grid, edge_list=_edges_once(sp), directed=sp["directed"],
            silence_level=3))
        ref = outcome(lambda: Network(edge_list=_edges_once(sp), n_nodes=n,
                                      directed=sp["directed"],
                                      silence_level=3))
        if el[0] == "exc" and ref[0] == "exc":
            J.count(J.stats, "SpatialNetwork edge-list failures explained by "
                    "Network.__init__[edge_list] raising on the same list")
        else:
            J.judge("SpatialNetwork", "__init__[edge_list]", el,
                    groups=("structure",))
        if res[0] == "ok":
            net = res[1]

            def load(fn, fmt):
                new = SpatialNetwork.Load(fn, fmt, silence_level=3)
                if not _same_grid(net, new):
                    raise AssertionError("grid differs after Load")
                return new
            _roundtrip(J, "SpatialNetwork", load,
                       lambda fn, fmt: net.save(fn, fmt),
                       lambda ext: (_fname("sp", ext), _fname("sp", "grid")),
                       sp, fold=fold)
        return J
    grid = GeoGrid(t, np.array(_lats(n)), np.array([10.0 * i
                                                    for i in range(n)]),
                   silence_level=3)
    fold = _network_gml_failures(sp)
    if which == "geo":
        for nwt in NWT:
            res = outcome(lambda: _decorate(GeoNetwork(
                grid, adjacency=A, directed=sp["directed"],
                node_weight_type=nwt, silence_level=3), sp))
            J.judge("GeoNetwork", "__init__[node_weight_type=%s]" % nwt, res,
                    weights=_geo_weights(grid, nwt), wtol=F32,
                    wpath="set_node_weight_type")
            if res[0] != "ok":
                continue
            net = res[1]
            # transitions between weight types on the same object
            for nwt2 in NWT:
                r2 = outcome(lambda: (net.set_node_weight_type(nwt2), net)[1])
                J.judge("GeoNetwork", "set_node_weight_type[%s]" % nwt2, r2,
                        groups=("weights",),
                        weights=_geo_weights(grid, nwt2), wtol=F32,
                        wpath="set_node_weight_type")
            # save/Load with the weights the object now reports
            net.set_node_weight_type(nwt)
            if sp["w_in"] is not None:
                net.node_weights = sp["w_in"]
                wexp = sp["weights"]
            else:
                wexp = _geo_weights(grid, nwt)
            if net.node_weights is None:
                J.count(J.stats, "GeoNetwork save/Load weight comparison "
                        "skipped: node_weights is None (reported under "
                        "set_node_weight_type)")
                groups = ("structure", "attrs")
            else:
                groups = ("structure", "weights", "attrs")

            def load(fn, fmt):
                new = GeoNetwork.Load(fn, fmt, silence_level=3)
                if not _same_grid(net, new):
                    raise AssertionError("grid differs after Load")
                return new
            _roundtrip(J, "GeoNetwork", load,
                       lambda fn, fmt: net.save(fn, fmt),
                       lambda ext: (_fname("geo", ext), _fname("geo", "grid")),
                       sp, fold=fold, groups=groups, weights=wexp, wtol=F32)
        return J
    # climate: the network is the thresholded similarity matrix
    S = 0.9 * A + np.eye(n)
    res = outcome(lambda: _decorate(ClimateNetwork(
        grid, S, threshold=0.5, directed=sp["directed"], silence_level=3),
        sp))
    J.judge("ClimateNetwork", "__init__[similarity>threshold]", res,
            weights=_geo_weights(grid, "surface"), wtol=F32,
            wpath="set_node_weight_type")
    if res[0] == "ok":
        net = res[1]
        if sp["w_in"] is not None:
            net.node_weights = sp["w_in"]
            wexp = sp["weights"]
        else:
            net.node_weights = _geo_weights(grid, "surface")
            wexp = _geo_weights(grid, "surface")
        _roundtrip(J, "ClimateNetwork",
                   lambda fn, fmt: ClimateNetwork.Load(fn, fmt,
                                                       silence_level=3),
                   lambda fn, fmt: net.save(fn, fmt),
                   lambda ext: (_fname("cl", ext), _fname("cl", "grid"),
                                _fname("cl", "sim")),
                   sp, fold=fold, weights=wexp, wtol=F32)
    return J


def fam_spatial(case):
    from pyunicorn.core import Network
    J = _spatial(case)
    sp = J.sp
    ref = _decorate(Network(adjacency=sp["A"], directed=sp["directed"],
                            silence_level=3), sp)
    _fold_same_as(J, _reference_failures(sp, ref,
                                         groups=("structure", "attrs")),
                  "failures the plainly constructed Network shows already "
                  "(reported by the paths family)")
    return J.result()


# ---------------------------------------------------------------------------
# family: internal consumers of the constructor paths


def _components(A):
    n = len(A)
    seen, comps = set(), []
    for s in range(n):
        if s in seen:
            continue
        comp, stack = [], [s]
        seen.add(s)
        while stack:
            v = stack.pop()
            comp.append(v)
            for x in range(n):
                if (A[v][x] or A[x][v]) and x not in seen:
                    seen.add(x)
                    stack.append(x)
        comps.append(sorted(comp))
    return comps


def fam_consumers(case):
    from pyunicorn.core import Network
    n, directed, mask, seed = case
    sp = NR.spec(n, directed, mask, 1, 1)
    J = Judge(sp)
    A = sp["A"]
    W = sp["attrs"].get("link_weights")

    def fresh():
        return _decorate(Network(adjacency=A, directed=sp["directed"],
                                 node_weights=sp["w_in"], silence_level=3),
                         sp)
    cls = _input_class(sp)
    # --- local_vulnerability: removes a node, rebuilds through FromIGraph
    for attr, length in ((None, None), ("link_weights", W)):
        if sp["n_links"] == 0:
            J.count(J.excluded, "vulnerability of an edgeless network "
                    "(efficiency 0, 0/0)")
            continue
        if n == 2:
            J.count(J.excluded, "vulnerability in a 2-node network (removal "
                    "leaves a single node, efficiency undefined)")
            continue
        J.evals += 1
        got = outcome(lambda: fresh().local_vulnerability(attr))
        exp = NR.vulnerability(A, length)
        pat = "local_vulnerability" + ("[%s]" % attr if attr else "")
        J.sig.append((pat, brief(got, 80)))
        if got[0] == "exc":
            # does FromIGraph raise on one of the node-removed graphs?
            expl = False
            for v in range(n):
                g = fresh().graph - v
                r = outcome(lambda: Network.FromIGraph(g, 3))
                if r[0] == "exc" and _exc_type(r) == _exc_type(got):
                    expl = True
                    break
            if expl:
                J.count(J.stats, "local_vulnerability failures explained by "
                        "Network.FromIGraph raising on a node-removed graph "
                        "without links")
            else:
                J.viol.append(V("Network.%s:raises:%s" % (pat, cls), "",
                                got[1], exp))
        elif equal(got[1], exp):
            J.count(J.stats, "local_vulnerability values confirmed")
        else:
            J.viol.append(V("Network.%s:value:%s" % (pat, cls),
                            "differs from (E - E_i)/E evaluated on the "
                            "input", got[1], exp))
    # --- component-wise random-walk betweenness: sub-networks are rebuilt
    #     from dense adjacency blocks; the value of a node only depends on
    #     its own component
    if not sp["directed"]:
        comps = _components(A)
        for meth in ("newman_betweenness", "arenas_betweenness"):
            J.evals += 1
            J.count(J.stats, "component-wise betweenness comparisons")
            got = outcome(lambda: getattr(fresh(), meth)())
            parts = []
            for c in comps:
                if len(c) == 1:
                    parts.append(("ok", np.zeros(1)))
                    continue
                B = [[A[i][j] for j in c] for i in c]
                parts.append(outcome(lambda: getattr(Network(
                    adjacency=B, silence_level=3), meth)()))
            J.sig.append((meth, brief(got, 80)))
            if got[0] == "exc" and any(p[0] == "exc" for p in parts):
                J.count(J.excluded, "%s raises on a component by itself as "
                        "well" % meth)
                continue
            if got[0] == "exc" or any(p[0] == "exc" for p in parts):
                J.viol.append(V("Network.%s:component-wise:raises:%s" % (
                    meth, cls), "whole network and single components "
                    "disagree about applicability", got[1],
                    [brief(p) for p in parts]))
                continue
            exp = np.zeros(n)
            for c, p in zip(comps, parts):
                exp[c] = p[1]
            if not equal(got[1], exp, rtol=1e-7, atol=1e-9):
                J.viol.append(V("Network.%s:component-wise:value:%s" % (
                    meth, cls), "value of a node differs from the value in "
                    "its component taken alone", got[1], exp))
    else:
        J.count(J.excluded, "random-walk betweenness on directed networks")
    # --- randomly_rewire: rebuilds itself through set_edge_list; whatever
    #     the random choices, N, weights and the degree sequence stay
    random.seed(seed)
    J.evals += 1
    net = fresh()
    deg = sorted(np.asarray(net.outdegree()).tolist())
    r = outcome(lambda: (net.randomly_rewire(1), net)[1])
    if r[0] == "exc":
        ref = outcome(lambda: Network(edge_list=[], n_nodes=n,
                                      directed=sp["directed"],
                                      silence_level=3))
        if ref[0] == "exc" and sp["n_links"] == 0:
            J.count(J.stats, "randomly_rewire failures on edgeless networks "
                    "explained by set_edge_list raising on an empty list")
        else:
            J.viol.append(V("Network.randomly_rewire:raises:" + cls, "",
                            r[1], "a rewired network"))
        J.sig.append(("rewire", "raises"))
    else:
        o = NR.observe(net)
        bad = []
        if o["N"] != n:
            bad.append(("N", o["N"], n))
        if o["n_links"] != sp["n_links"]:
            bad.append(("n_links", o["n_links"], sp["n_links"]))
        d2 = outcome(lambda: sorted(np.asarray(net.outdegree()).tolist()))
        if d2[0] != "ok" or d2[1] != deg:
            bad.append(("degree sequence", d2[1], deg))
        if not (isinstance(o["node_weights"], list) and
                len(o["node_weights"]) == o["N"]):
            bad.append(("len(node_weights) vs N", o["node_weights"], o["N"]))
        if isinstance(o["adjacency"], list) and isinstance(o["graph"], dict):
            A2 = np.array(o["adjacency"])
            es = sorted((i, j) for i in range(len(A2)) for j in range(len(A2))
                        if A2[i, j] and (sp["directed"] or i < j))
            if es != o["graph"]["edges"] or A2.max(initial=0) > 1:
                bad.append(("adjacency vs graph", o["adjacency"],
                            o["graph"]))
        J.sig.append(("rewire", str([b[0] for b in bad])))
        if bad:
            disc = cls
            if bad[0][0] == "N" and sp["edges"] and \
                    o["N"] == 1 + max(max(e) for e in sp["edges"]):
                disc = "isolated-last-node=N-from-largest-linked-node"
            J.viol.append(V("Network.randomly_rewire:%s:%s" % (
                bad[0][0], disc), "invariants broken: %s" % [
                b[0] for b in bad], [b[1] for b in bad],
                [b[2] for b in bad]))
    return J.result()


# ---------------------------------------------------------------------------
# family: the same judgements on larger structured networks (block sizes,
# int16 flat indices i*N+j >= 32768, components of 9..23 nodes)

SCALE_QUICK = [
    # (family, n, directed, graph kind, weight vector, link attributes)
    ("paths", 33, False, "ring-chords-tail", 1, 1),
    ("paths", 62, False, "components", 2, 1),
    ("paths", 150, False, "ring-chords", 1, 1),
    ("paths", 182, False, "ring-chords", 1, 1),
    ("paths", 182, True, "ring-chords", 2, 1),
    ("paths", 200, False, "ring-chords", 2, 2),
    ("paths", 209, False, "ring-chords-tail", 1, 1),
    ("paths", 260, False, "ring-chords", 1, 1),
    ("paths", 300, False, "ring-chords", 2, 1),
    ("files", 182, False, "ring-chords", 1, 1),
    ("files", 182, True, "ring-chords", 2, 1),
    ("files", 200, False, "ring-chords", 2, 2),
    ("files", 260, False, "ring-chords", 1, 1),
    ("spatial", 182, False, "ring-chords", 1, 1, "spatial"),
    ("spatial", 200, False, "ring-chords", 2, 1, "geo"),
    ("spatial", 182, False, "ring-chords", 0, 0, "climate"),
    ("consumers", 62, False, "components", 1, 1),
    ("consumers", 130, False, "ring-chords-tail", 1, 1),
    ("consumers", 182, True, "ring-chords", 1, 1),
]
SCALE_THOROUGH = [
    ("paths", 257, False, "ring-chords", 1, 1),
    ("paths", 330, True, "ring-chords", 1, 2),
    ("paths", 520, False, "ring-chords-tail", 2, 1),
    ("files", 300, False, "ring-chords-tail", 1, 2),
    ("files", 520, False, "ring-chords", 2, 1),
    ("spatial", 260, False, "ring-chords", 1, 1, "geo"),
    ("spatial", 260, False, "ring-chords", 1, 1, "spatial"),
    ("consumers", 200, False, "ring-chords", 2, 1),
]


def fam_scale(case):
    fam, n, directed, kind, wk, na = case[:6]
    edges = NR.structured(kind, n, directed)
    if fam == "paths":
        return fam_paths((n, directed, edges, wk, na))
    if fam == "files":
        return fam_files((n, directed, edges, wk, na))
    if fam == "spatial":
        return fam_spatial((n, directed, edges, wk, na, case[6]))
    return fam_consumers((n, directed, edges, 0))


FAMILIES = {"paths": fam_paths, "files": fam_files, "spatial": fam_spatial,
            "scale": fam_scale,
            "consumers": fam_consumers}


# ---------------------------------------------------------------------------


def run(ctx):
    thorough = ctx.tier == "thorough"
    und = []
    for n in (2, 3, 4):
        und += all_graphs(n, False)
    und += all_graphs(5, False) if thorough else iso(5, False)
    dire = all_graphs(2, True) + all_graphs(3, True)
    if thorough:
        dire += iso(4, True)
    graphs = und + dire
    ctx.rule = (
        "every labelled undirected graph on 2..4 nodes + %s + every labelled "
        "directed graph on 2..3 nodes%s (edgeless, single-link and "
        "isolated-node graphs included) x weight vectors W x {0,1,2} link "
        "attributes; paths: 20 construction paths of Network; files: 4 "
        "formats x {explicit, auto-detected}; spatial: SpatialNetwork, "
        "GeoNetwork x 3 weight types (+ all transitions), ClimateNetwork; "
        "consumers: local_vulnerability, newman/arenas betweenness per "
        "component, randomly_rewire.  One-node networks are outside (link "
        "density 0/0).  Every case is non-trivial (degenerate graphs are the "
        "point of the property); distinct = distinct vectors of per-path "
        "verdicts and observed (N, n_links, adjacency, weights, attribute "
        "names)." % (
            "all labelled graphs on 5" if thorough else "iso(5)",
            " + iso(4) directed" if thorough else ""))
    full = [(n, d, m, wk, na) for (n, d, m) in graphs
            for wk in (0, 1, 2) for na in (0, 1, 2)]
    ctx.explore("paths", full, desc="construction paths of Network")
    iso5 = set(iso(5, False))
    small = [g for g in graphs if g[0] <= 4 or g in iso5]
    ctx.explore("files", [(n, d, m, wk, na) for (n, d, m) in small
                          for wk in (0, 1, 2) for na in (0, 1, 2)],
                desc="Network save -> Load, 4 formats")
    cases = []
    for (n, d, m) in small:
        for which in ("spatial", "geo", "climate"):
            if which == "climate" and d:
                continue
            for wk, na in ((0, 0), (1, 1), (2, 2)):
                cases.append((n, d, m, wk, na, which))
    ctx.explore("spatial", cases, desc="SpatialNetwork / GeoNetwork / "
                "ClimateNetwork constructor paths and save -> Load")
    ctx.explore("consumers", [(n, d, m, ctx.seed) for (n, d, m) in small],
                desc="internal consumers of the construction paths")
    scale = list(SCALE_QUICK) + (SCALE_THOROUGH if thorough else [])
    ctx.explore("scale", scale, chunk=1, desc="larger structured networks "
                "(ring with chords incl. links at the last nodes, isolated "
                "tail, interleaved components) through the same families")
    ctx.notes["scale_inputs"] = [list(c) for c in scale]
    ctx.notes["graphs"] = len(graphs)
    ctx.notes["bound"] = "undirected n<=%s, directed n<=%s" % (
        "5 labelled" if thorough else "4 labelled + iso(5)",
        "3 labelled + iso(4)" if thorough else "3 labelled")
    ctx.assumptions += [
        "a one-node network is outside the property (its link density is "
        "0/0; the constructor raises ZeroDivisionError)",
        "edge lists are passed with n_nodes=N (an edge list alone cannot "
        "name isolated nodes; documented: numbering without gaps)",
        "GeoGrid stores latitudes in float32: expected geographic weights "
        "are computed from the latitudes the grid reports, tolerance 2e-5",
        "Load failures of edgeless graphs and local_vulnerability failures "
        "are attributed to Network.FromIGraph (one root cause, one key) "
        "when FromIGraph raises the same exception on the same graph",
        "scale family: fixed list of structured networks with 33..300 "
        "(thorough ..520) nodes run through the paths / files / spatial / "
        "consumers judgements unchanged; not exhaustive, it places inputs "
        "just above N=128/256 (row blocks), N=182 (int16 flat index) and "
        "components of 9/12/15/23 nodes",
        "randomly_rewire: only invariants that hold for every random "
        "outcome are judged (N, link count, degree sequence, weights "
        "length, adjacency/graph agreement); random is seeded with "
        "VERIF_SEED"]
