"""C13  Data windows select exactly the requested samples; anomalies sum.

Bounded-exhaustive exploration of the real ``pyunicorn.core.Data`` and
``pyunicorn.climate.ClimateData`` against ``refmodel/datawin.py``:

  window  every irregular grid of N in {3,4} points from a 6-point alphabet
          (duplicates allowed) x T in {5,6,7} x {Data, ClimateData}: all 125
          windows of the menu (5 choices per axis: bounds on samples, between
          samples, outside the range, equal bounds, one bound beyond the
          range) applied one after the other to one object, the global window
          in between
  hist    ALL histories up to the depth bound over 8 windows +
          set_global_window on (T,N) in {5,6,7}x{3,4} x time_cycle in
          {1,2,3,5} x anomalies flag x a few grids, every observable judged
          after every step (so that memoised series exist before the next
          change), one case per first operation
  months  time_cycle 12 (the only small cycle for which
          anomaly_selected_months is implemented), T in {25,26,36}

Model-checking accounting: states = distinct selections (time indices, node
indices) of the reference model reachable with the operation menu, transitions
= window changes executed on the implementation, traces = histories executed.
"""
import hashlib

import numpy as np

from ..core import V
from ..refmodel import datawin as M

LEVEL = "model_checking"
TOL = dict(rtol=1e-9, atol=1e-9)

# (lat, lon); 10.1 is not a single precision number (stored as 10.1000004)
POINTS = [(0.0, 0.0), (10.0, 20.0), (10.0, -30.0), (-20.5, 20.0),
          (35.25, 100.0), (10.1, 5.0)]
CYCLES = [1, 2, 3, 5]

TIME_CHOICES = [(1.0, 3.0), (1.5, 4.5), (20.0, 30.0), (2.0, 2.0), (-1.0, 2.0)]
LAT_CHOICES = [(0.0, 10.0), (5.0, 20.0), (50.0, 60.0), (7.0, 7.0),
               (-90.0, 10.5)]
LON_CHOICES = [(0.0, 20.0), (-40.0, 10.0), (150.0, 170.0), (-30.0, -30.0),
               (20.0, 180.0)]
CHOICE_NAMES = ["on-samples", "between-samples", "outside", "equal-bounds",
                "one-bound-beyond"]


def _win(t, la, lo):
    return {"time_min": t[0], "time_max": t[1], "lat_min": la[0],
            "lat_max": la[1], "lon_min": lo[0], "lon_max": lo[1]}


def menu_window(i):
    a, r = divmod(i, 25)
    b, c = divmod(r, 5)
    return _win(TIME_CHOICES[a], LAT_CHOICES[b], LON_CHOICES[c])


# the 8 windows of the history family (+ "G" = set_global_window)
HIST_WINDOWS = [
    _win(TIME_CHOICES[0], LAT_CHOICES[3], LON_CHOICES[3]),   # time, on samples
    _win(TIME_CHOICES[1], LAT_CHOICES[3], LON_CHOICES[3]),   # time, between
    _win(TIME_CHOICES[3], LAT_CHOICES[0], LON_CHOICES[0]),   # space only
    _win(TIME_CHOICES[4], LAT_CHOICES[1], LON_CHOICES[1]),   # time and space
    _win(TIME_CHOICES[3], LAT_CHOICES[3], LON_CHOICES[0]),   # lat degenerate
    _win(TIME_CHOICES[2], LAT_CHOICES[3], LON_CHOICES[3]),   # outside (time)
    _win((1.5, 2.5), LAT_CHOICES[4], LON_CHOICES[4]),        # one time step
    _win(TIME_CHOICES[0], LAT_CHOICES[4], LON_CHOICES[1]),   # time and space
]
HIST_OPS = list(range(len(HIST_WINDOWS))) + ["G"]


def observable_full(T, N, mult=11):
    """Distinct integers 0..T*N-1 in a scrambled order (the multiplier is
    coprime to every T*N used: 11 for the small shapes, the prime 7919 for
    the scale family)."""
    import math
    assert math.gcd(mult, T * N) == 1
    return [[(mult * (t * N + n) + 3) % (T * N) for n in range(N)]
            for t in range(T)]


def grid_points(N, code):
    pts = []
    for _ in range(N):
        code, d = divmod(code, len(POINTS))
        pts.append(POINTS[d])
    return [p[0] for p in pts], [p[1] for p in pts]


# --------------------------------------------------------------------------


#  element type of the observable handed to the library (family `dtype`)
XDTYPE = "float64"


def _new(cls, X, T, lat, lon, cycle, anomalies, window=None, time=None):
    from pyunicorn.core import Data, GeoGrid
    from pyunicorn.climate import ClimateData
    tseq = np.arange(float(T)) if time is None else np.array(time, dtype=float)
    grid = GeoGrid(tseq, np.array(lat), np.array(lon), silence_level=3)
    Xa = np.array(X, dtype=XDTYPE)
    if cls == "Data":
        return Data(Xa, grid, window=window, silence_level=3)
    return ClimateData(Xa, grid, time_cycle=cycle, anomalies=anomalies,
                       window=window, silence_level=3)


class Driver:
    """One implementation object + the reference model, stepped together."""

    def __init__(self, cls, T, N, code, cycle, anomalies, time=None,
                 latlon=None, mult=11):
        self.cls, self.T, self.N = cls, T, N
        self.cycle, self.anomalies = cycle, anomalies
        self.X = observable_full(T, N, mult)
        self.time = (np.arange(float(T)).tolist() if time is None
                     else [float(t) for t in time])
        self.lat, self.lon = (grid_points(N, code) if latlon is None
                              else latlon)
        self.viol, self.excl, self.stats = [], {}, {}
        self.exp_cache = {}
        self.reset()

    def reset(self):
        self.obj = _new(self.cls, self.X, self.T, self.lat, self.lon,
                        self.cycle, self.anomalies, time=self.time)
        self.mdl = M.Model(self.X, self.time, self.lat, self.lon)
        self.last = None

    def count(self, d, k, n=1):
        d[k] = d.get(k, 0) + n

    # -- stepping -----------------------------------------------------------
    def step(self, op):
        """Apply a window change to object and model.  Returns False when the
        history cannot be continued (selection empty / library raised)."""
        if op == "G":
            window, name = dict(M.GLOBAL), "set_global_window"
        else:
            window, name = op, "set_window"
        res = self.mdl.apply(window)
        try:
            if op == "G":
                self.obj.set_global_window()
            else:
                self.obj.set_window(window)
        except Exception as ex:   # noqa
            if res == "empty" or (res == "ambiguous" and not (
                    self.mdl.alt[0] and self.mdl.alt[1])):
                self.count(self.excl, "window selects nothing along some "
                           "axis: library raises (%s); behaviour not defined "
                           "by the property" % type(ex).__name__)
                self._torn()
            else:
                self.viol.append(V("Data.%s:raises" % name,
                                   "window %r" % (window,), repr(ex),
                                   "no exception"))
            return False
        self.last = (name, window)
        if res == "empty":
            self.count(self.excl, "window selects nothing along some axis: "
                       "library returns an empty view; not judged")
            return False
        if res == "ambiguous":
            # one spatial axis degenerate, the other restricting: property
            # text (per axis) and set_window docstring (whole space) differ
            tidx, per_axis, whole = self.mdl.alt
            got = self._lib_nodes()
            if not tidx:
                self.count(self.excl, "window selects nothing along some "
                           "axis: library returns an empty view; not judged")
                return False
            if got == [self.mdl.lat[j] for j in whole] + \
                    [self.mdl.lon[j] for j in whole]:
                self.count(self.stats, "one spatial axis degenerate: library "
                           "exposes the whole spatial extension (docstring "
                           "reading, not judged)")
                self.mdl.tidx, self.mdl.nidx = tidx, whole
            elif per_axis and got == [self.mdl.lat[j] for j in per_axis] + \
                    [self.mdl.lon[j] for j in per_axis]:
                self.count(self.stats, "one spatial axis degenerate: library "
                           "restricts the other axis (property reading, not "
                           "judged)")
                self.mdl.tidx, self.mdl.nidx = tidx, per_axis
            else:
                self.viol.append(V(
                    "Data.set_window:space-selection:one-axis-degenerate",
                    "window %r: selection is neither the whole spatial "
                    "extension nor the per-axis selection" % (window,), got,
                    [whole, per_axis]))
                return False
            self.count(self.excl, "exactly one spatial axis with equal "
                       "bounds while the other restricts: property and "
                       "docstring conventions differ, choice not judged")
        return True

    def _lib_nodes(self):
        try:
            g = self.obj.grid.grid()
            return [float(v) for v in g["lat"]] + [float(v) for v in g["lon"]]
        except Exception:   # noqa
            return None

    def _torn(self):
        """After a failed set_window: is the object still self-consistent?
        (not judged - the property does not cover failed calls)"""
        try:
            o = np.asarray(self.obj.observable())
            gs = self.obj.grid.grid_size()
            if o.shape != (gs["time"], gs["space"]):
                self.count(self.stats, "after a failed set_window observable "
                           "and grid shapes disagree (not judged)")
        except Exception:   # noqa
            pass

    # -- judging ------------------------------------------------------------
    def expected(self):
        key = self.mdl.state()
        e = self.exp_cache.get(key)
        if e is None:
            Xw = self.mdl.observable()
            e = {"X": np.array(Xw, dtype=float).reshape(
                len(self.mdl.tidx), len(self.mdl.nidx)),
                "grid": self.mdl.grid(), "window": self.mdl.window()}
            if self.cls != "Data":
                c = self.cycle
                pm = M.phase_mean(Xw, c)
                e["pm"] = np.array([[np.nan if v is None else float(v)
                                     for v in row] for row in pm],
                                   dtype=float).reshape(c, len(self.mdl.nidx))
                e["an"] = np.array([[float(v) for v in row]
                                    for row in M.anomaly(Xw, c)],
                                   dtype=float).reshape(e["X"].shape)
                e["pi"] = np.array(M.phase_indices(len(Xw), c),
                                   dtype=int).reshape(c, len(Xw) // c)
            self.exp_cache[key] = e
        return e

    def judge(self):
        """Compare every observable of the object with the model state.
        Returns a short signature of what was observed."""
        obj, viol, e = self.obj, self.viol, self.expected()
        name, window = self.last if self.last else ("__init__", None)
        ctx = "after %s(%r)" % (name, window)
        nT, nN = e["X"].shape
        # grid sequences
        try:
            g = obj.grid.grid()
            gt = [float(v) for v in g["time"]]
            gla = [float(v) for v in g["lat"]]
            glo = [float(v) for v in g["lon"]]
            gs = dict(obj.grid.grid_size())
            sizes = (gs.get("time"), gs.get("space"), obj.grid.N,
                     obj.grid.n_grid_points)
            las = [float(v) for v in obj.grid.lat_sequence()]
            los = [float(v) for v in obj.grid.lon_sequence()]
            O = np.asarray(obj.observable())
            W = obj.window()
        except Exception as ex:   # noqa
            viol.append(V("Data.observe:raises", ctx, repr(ex), "values"))
            return "raises"
        if name == "set_global_window":
            tag = "Data.set_global_window:not-restored"
        else:
            tag = None
        time_ok = gt == e["grid"]["time"]
        space_ok = (gla == e["grid"]["lat"] and glo == e["grid"]["lon"])
        if not time_ok:
            viol.append(V(tag or "Data.set_window:time-selection", ctx, gt,
                          e["grid"]["time"]))
        if not space_ok:
            viol.append(V(tag or "Data.set_window:space-selection", ctx,
                          [gla, glo], [e["grid"]["lat"], e["grid"]["lon"]]))
        if (las, los) != (gla, glo):
            viol.append(V("GeoGrid.lat_sequence:!=grid()", ctx, [las, los],
                          [gla, glo]))
        if sizes != (len(gt), len(gla), len(gla), len(gt) * len(gla)):
            viol.append(V("Data.grid:size-inconsistent-with-sequences", ctx,
                          sizes, (len(gt), len(gla))))
        if O.shape != (len(gt), len(gla)):
            viol.append(V("Data.observable:shape!=grid", ctx, O.shape,
                          (len(gt), len(gla))))
        if time_ok and space_ok:
            if O.shape != e["X"].shape or not np.array_equal(O, e["X"]):
                viol.append(V(tag or "Data.observable:view", ctx, O, e["X"]))
            wk = sorted(e["window"])
            try:
                wv = [float(W[k]) for k in wk]
            except Exception:   # noqa
                wv = None
            if sorted(W) != wk or wv != [e["window"][k] for k in wk]:
                viol.append(V(tag or "Data.window:boundaries", ctx, W,
                              e["window"]))
        sig = (tuple(self.mdl.tidx), tuple(self.mdl.nidx))
        if self.cls == "Data" or not (time_ok and space_ok):
            return sig
        return sig + (self.judge_climate(e, ctx, O),)

    def _fresh_value(self, meth):
        """The same quantity from a freshly constructed object with the
        window last set (to tell a stale memo from a wrong formula)."""
        try:
            w = None if self.last is None or self.last[0] != "set_window" \
                else self.last[1]
            f = _new(self.cls, self.X, self.T, self.lat, self.lon, self.cycle,
                     self.anomalies, window=w, time=self.time)
            return np.asarray(getattr(f, meth)())
        except Exception:   # noqa
            return None

    def _classify(self, meth, got, exp, rows=None, flag=""):
        """None when `got` equals `exp` (on the judged rows); otherwise the
        violation key: a memo that survived the window change (a fresh object
        with the same window is right), a wrong shape, or a wrong value."""
        def same(x):
            if x.shape != exp.shape:
                return False
            if rows is not None:
                return bool(np.allclose(x[rows], exp[rows], **TOL))
            return bool(np.allclose(x, exp, **TOL))
        if same(got):
            return None
        fr = self._fresh_value(meth)
        if fr is not None and same(fr):
            return "ClimateData.%s:stale-after:%s" % (
                meth, self.last[0] if self.last else "init")
        if got.shape != exp.shape:
            form = ""
            full = np.array(self.X, dtype=float)
            if meth == "anomaly" and got.shape == full.shape and \
                    np.array_equal(got, full):
                form = "=unwindowed-full-observable"
            return "ClimateData.%s:shape%s%s" % (meth, flag, form)
        return "ClimateData.%s:value%s" % (meth, flag)

    def judge_climate(self, e, ctx, O):
        obj, viol, c = self.obj, self.viol, self.cycle
        nT, nN = e["X"].shape
        out = []
        # ---- phase_mean
        pm = None
        try:
            pm = np.asarray(obj.phase_mean())
        except Exception as ex:   # noqa
            viol.append(V("ClimateData.phase_mean:raises", ctx, repr(ex), ""))
        if pm is not None:
            empty = np.isnan(e["pm"]).any(axis=1) if nN else \
                np.zeros(c, dtype=bool)
            if empty.any():
                self.count(self.excl, "phases without a sample in the window "
                           "(cycle longer than the windowed series): their "
                           "phase mean is not judged", int(empty.sum()))
            k = self._classify("phase_mean", pm, e["pm"], rows=~empty)
            if k:
                viol.append(V(k, ctx, pm, e["pm"]))
                pm = None
        # ---- anomaly
        an = None
        try:
            an = np.asarray(obj.anomaly())
        except Exception as ex:   # noqa
            viol.append(V("ClimateData.anomaly:raises", ctx, repr(ex), ""))
        flag = ":anomalies=%s" % self.anomalies
        if an is not None:
            exp = e["X"] if self.anomalies else e["an"]
            k = self._classify("anomaly", an, exp, flag=flag)
            if k:
                viol.append(V(k, ctx + ": anomaly() is not the anomaly of the "
                              "windowed observable", an if an.size < 40
                              else an.shape, exp if exp.size < 40
                              else exp.shape))
                an = None
            out.append(an is not None)
        if self.anomalies:
            self.count(self.excl, "anomalies=True: zero phase mean / add-back "
                       "identities are not demanded of user-declared "
                       "anomalies")
        elif an is not None and pm is not None:
            # the two identities of the property, on the library's own output
            # (only reached when the values themselves were not reported)
            for i in range(c):
                rows = an[i::c]
                if rows.shape[0] == 0:
                    continue
                if not np.allclose(rows.mean(axis=0), 0.0, **TOL):
                    viol.append(V("ClimateData.anomaly:phase-mean!=0", ctx,
                                  rows.mean(axis=0), 0))
                    break
                if not np.allclose(rows + pm[i], O[i::c], **TOL):
                    viol.append(V("ClimateData.anomaly:add-back", ctx +
                                  ": anomaly + phase_mean != observable "
                                  "(phase %d)" % i, rows + pm[i], O[i::c]))
                    break
        # ---- phase_indices
        try:
            pi = np.asarray(obj.phase_indices())
            if pi.shape != e["pi"].shape or not np.array_equal(pi, e["pi"]):
                viol.append(V("ClimateData.phase_indices:value", ctx, pi,
                              e["pi"]))
            out.append(pi.shape)
        except Exception as ex:   # noqa
            viol.append(V("ClimateData.phase_indices:raises", ctx, repr(ex),
                          e["pi"]))
        # ---- anomaly_selected_months
        months = [[0], [0, 1, 11], list(range(12))]
        if an is None:
            # anomaly() itself was reported; its selections follow from it
            months = []
        for sel in months:
            try:
                got = np.asarray(obj.anomaly_selected_months(sel))
            except NotImplementedError:
                self.count(self.excl, "anomaly_selected_months: only "
                           "time_cycle 12/360 implemented")
                break
            except Exception as ex:   # noqa
                viol.append(V("ClimateData.anomaly_selected_months:raises",
                              ctx + " months %r" % sel, repr(ex), ""))
                break
            idx = M.indices_selected_phases(nT, c, sel)
            if got.shape != (len(idx), nN):
                viol.append(V("ClimateData.anomaly_selected_months:shape"
                              + flag, ctx + " months %r" % sel, got.shape,
                              (len(idx), nN)))
            elif an is not None and not np.allclose(got, an[idx], **TOL):
                viol.append(V("ClimateData.anomaly_selected_months:value",
                              ctx + " months %r" % sel, got, an[idx]))
            out.append(got.shape)
        return tuple(out)


def _shrink(viol):
    """Large observed/expected arrays are recorded by shape and head."""
    for v in viol:
        for k in ("observed", "expected"):
            x = v.get(k)
            try:
                a = np.asarray(x, dtype=float)
            except Exception:   # noqa
                continue
            if a.size > 60:
                v[k] = {"shape": list(a.shape),
                        "head": a.ravel()[:12].tolist()}
    return viol


def _first_per_key(viol):
    seen, out = set(), []
    for v in viol:
        if v["key"] not in seen:
            seen.add(v["key"])
            out.append(v)
    return out


def _result(d, sig, evals, trivial, ntr, ntraces):
    return {"viol": _shrink(_first_per_key(d.viol)), "evals": evals,
            "excluded": d.excl, "stats": d.stats, "sig": sig,
            "trivial": trivial, "transitions": ntr, "traces": ntraces}


# --------------------------------------------------------------------------
# families


def fam_window(case):
    cls, T, N, code, cycle, anomalies = case
    d = Driver(cls, T, N, code, cycle, anomalies)
    sigs = [d.judge()]
    ev, ntr = 1, 0
    for i in range(125):
        ok = d.step(menu_window(i))
        ntr += 1
        if ok:
            sigs.append(d.judge())
            ev += 1
        else:
            d.reset()
        if i % 7 == 6:
            if d.step("G"):
                ntr += 1
                sigs.append(d.judge())
                ev += 1
            else:
                d.reset()
    distinct = len(set(sigs))
    return _result(d, hashlib.sha1(repr(sigs).encode()).hexdigest(), ev,
                   distinct < 2, ntr, 1)


def _histories(nops, first, depth):
    yield (first,)
    if depth >= 2:
        for b in range(nops):
            yield (first, b)
    if depth >= 3:
        for b in range(nops):
            for c in range(nops):
                yield (first, b, c)


def fam_hist(case):
    cls, T, N, code, cycle, anomalies, depth, first = case
    d = Driver(cls, T, N, code, cycle, anomalies)
    h = hashlib.sha1()
    ev = ntr = ntraces = 0
    seen = set()
    for hist in _histories(len(HIST_OPS), first, depth):
        d.reset()
        d.judge()            # populates the memoised series of the full view
        nv = len(d.viol)
        names = []
        for oi in hist:
            op = HIST_OPS[oi]
            names.append("G" if op == "G" else "W%d" % oi)
            ok = d.step("G" if op == "G" else HIST_WINDOWS[oi])
            ntr += 1
            if not ok:
                d.count(d.stats, "histories cut at an empty selection")
                break
            s = d.judge()
            ev += 1
            seen.add(s)
            h.update(repr(s).encode())
        ntraces += 1
        for v in d.viol[nv:]:
            v["msg"] = "history %s :: %s" % ("-".join(names), v["msg"])
    return _result(d, h.hexdigest(), ev, len(seen) < 2, ntr, ntraces)


def fam_months(case):
    T, N, code, anomalies = case
    d = Driver("ClimateData", T, N, code, 12, anomalies)
    wins = [_win((0.0, 0.0), (0.0, 0.0), (0.0, 0.0)),
            _win((1.0, float(T - 2)), (0.0, 0.0), (0.0, 0.0)),
            _win((0.0, 23.0), LAT_CHOICES[4], LON_CHOICES[0]),
            _win((0.5, 12.5), LAT_CHOICES[1], LON_CHOICES[1]),
            _win((2.0, 7.0), (0.0, 0.0), (0.0, 0.0)),
            "G",
            _win((0.0, 24.0), LAT_CHOICES[0], LON_CHOICES[3])]
    sigs = [d.judge()]
    ev, ntr = 1, 0
    for w in wins:
        ok = d.step(w)
        ntr += 1
        if not ok:
            d.reset()
            continue
        sigs.append(d.judge())
        ev += 1
    return _result(d, repr(sigs), ev, len(set(sigs)) < 2, ntr, 1)


# ---- scale: long series, many nodes, time axis of large magnitude ---------

SCALE_N = 40
AXES = {"plain": (0.0, 1.0, 0.5),          # t0, step, eps (all float32 exact)
        "hours": (1.9e6, 6.0, 0.5),        # "hours since 1800", 6-hourly:
                                           # magnitude/spacing 3e5, ulp 0.125
        "hours17e6": (1.7e7, 6.0, 2.0),    # beyond 2^24: ulp 2
        # time stamps that are NOT representable in single precision (the
        # grid stores float32): bounds given as the float64 stamp itself
        "monthly": (1950.0, 1.0 / 12.0, 0.02),
        "tenths": (0.0, 0.1, 0.03)}


def scale_latlon():
    lat = [-87.5 + 4.5 * i for i in range(SCALE_N)]
    lon = [(i * 47.25) % 360.0 - 180.0 for i in range(SCALE_N)]
    lat[39], lon[39] = lat[3], lon[3]          # a duplicate location
    return lat, lon


def scale_windows(T, axis):
    """Windows whose time bounds lie on samples, between samples, just
    outside the record and across the positions 128/256."""
    t0, dt, eps = AXES[axis]
    t = lambda k: t0 + dt * k          # noqa
    a = 100 if T > 141 else 3
    b = 140 if T > 141 else 10
    hi = min(258, T - 2)
    times = [
        (t(a), t(b)),                          # on samples
        (t(126) + eps, t(hi) - eps),           # between samples, across 128
        (t(0) - eps, t(5)),                    # just outside the start
        (t(T - 3), t(T - 1) + eps),            # just beyond the end
        (t(7) - eps, t(7) + eps),              # one sample, distinct bounds
        (t(127), t(128)),                      # two samples across 128
        (t(7) + eps, t(8) - eps),              # between neighbours: nothing
        (t(5), t(5)),                          # equal bounds: whole axis
        (t(T - 1), t(T - 1) + eps),            # the last sample only
        (t(T - 1) + eps, t(T - 1) + 100 * dt), # entirely outside
        (t(1), t(T - 2)),                      # all but the two end samples
    ]
    if axis in ("monthly", "tenths"):
        # bounds ON a sample stay the caller's float64 stamp; the others are
        # taken as single-precision numbers (strictly between the stored
        # samples, see refmodel/datawin.select)
        stamps = set(t(k) for k in range(T))
        times = [tuple(v if v in stamps else M.f32(v) for v in tw)
                 for tw in times]
    spaces = [((0.0, 0.0), (0.0, 0.0)),
              ((-20.0, 29.5), (-90.0, 90.0)),      # bounds on samples (lat)
              ((-21.0, 31.0), (-100.5, 120.125)),  # between samples
              ((-87.5, 88.0), (-180.0, 179.75))]   # exactly the extremes
    out = []
    for i, tw in enumerate(times):
        la, lo = spaces[i % len(spaces)]
        out.append(_win(tw, la, lo))
        if i in (3, 7):
            out.append("G")
    return out


def fam_scale(case):
    cls, T, axis, cycle, anomalies = case
    t0, dt, eps = AXES[axis]
    time = [t0 + dt * k for k in range(T)]
    d = Driver(cls, T, SCALE_N, 0, cycle, anomalies, time=time,
               latlon=scale_latlon(), mult=7919)
    sigs = [d.judge()]
    ev, ntr = 1, 0
    for w in scale_windows(T, axis):
        ok = d.step(w)
        ntr += 1
        if not ok:
            d.reset()
            continue
        sigs.append(d.judge())
        ev += 1
    for v in d.viol:
        v["msg"] = "T=%d N=%d time axis %s :: %s" % (T, SCALE_N, axis,
                                                       v["msg"])
        # input class: long series / 40 nodes / large-magnitude time axis
        v["key"] += ":scale" + ("" if axis == "plain" else
                                "-non-dyadic-time" if axis in (
                                    "monthly", "tenths") else
                                "-time-magnitude")
    sig = [(len(x[0]), len(x[1])) + tuple(x[2:]) if isinstance(x, tuple)
           else x for x in sigs]
    return _result(d, repr(sig), ev, len(set(map(repr, sig))) < 3, ntr, 1)


def fam_dtype(case):
    """The window family on an observable given as integers (float32 input
    is computed in single precision by numpy and not judged here; the
    values 0..T*N-1 are exact in every type)."""
    global XDTYPE
    XDTYPE = case[-1]
    try:
        r = fam_window(case[:-1])
    finally:
        XDTYPE = "float64"
    for v in r["viol"]:
        v["key"] += ":" + case[-1]
    r["sig"] = (r["sig"], case[-1])
    return r


FAMILIES = {"window": fam_window, "hist": fam_hist, "months": fam_months,
            "scale": fam_scale, "dtype": fam_dtype}


# --------------------------------------------------------------------------

HIST_GRIDS = {3: [0 + 6 * 1 + 36 * 2,        # P0 P1 P2
                  1 + 6 * 1 + 36 * 3,        # P1 P1 P3 (duplicate point)
                  5 + 6 * 4 + 36 * 0,        # P5 P4 P0
                  2 + 6 * 5 + 36 * 1,        # P2 P5 P1
                  4 + 6 * 0 + 36 * 3,        # P4 P0 P3
                  3 + 6 * 3 + 36 * 3],       # P3 P3 P3 (all equal)
              4: [0 + 6 * 1 + 36 * 2 + 216 * 3,
                  5 + 6 * 5 + 36 * 1 + 216 * 4,
                  2 + 6 * 0 + 36 * 0 + 216 * 1,
                  4 + 6 * 3 + 36 * 2 + 216 * 5,
                  1 + 6 * 2 + 36 * 3 + 216 * 0,
                  3 + 6 * 4 + 36 * 5 + 216 * 2]}


def _model_states(T, N, code):
    mdl = M.Model(observable_full(T, N), np.arange(float(T)).tolist(),
                  *grid_points(N, code))
    states = {mdl.state()}
    for w in HIST_WINDOWS:
        r = mdl.apply(w)
        if r == "ok":
            states.add(mdl.state())
        elif r == "ambiguous":
            tidx, per_axis, whole = mdl.alt
            if tidx:
                states.add((tuple(tidx), tuple(whole)))
                if per_axis:
                    states.add((tuple(tidx), tuple(per_axis)))
    return len(states)


def run(ctx):
    thorough = ctx.tier == "thorough"
    depth = 3 if thorough else 2
    ctx.rule = (
        "window: grids = all sequences of N in {3,4} points from %s (quick: "
        "every 8th for N=4) x T in {5,6,7} x {Data, ClimateData(time_cycle, "
        "anomalies rotating with the grid number)} x all 125 windows of the "
        "menu (time %s, lat %s, lon %s; the five choices are %s) in sequence "
        "on one object with set_global_window after every 7th.  hist: all "
        "histories of length <= %d over 8 windows + set_global_window, "
        "(T,N) in {5,6,7}x{3,4} x time_cycle %s x anomalies x %d grids, plus "
        "Data; every observable judged after every step.  months: time_cycle "
        "12.  A case is non-trivial when at least two different selections "
        "were observed; distinct = distinct sequences of (selection, shapes "
        "of the derived series).  scale: T in {130,150,209,300} x 40 nodes, "
        "time axes k and 1.9e6+6k, 11 windows with bounds on samples, "
        "between samples, just outside the record and across positions "
        "128/256, in sequence on one object (Data, ClimateData cycle 12 and "
        "7)." % (
            POINTS, TIME_CHOICES, LAT_CHOICES, LON_CHOICES, CHOICE_NAMES,
            depth, CYCLES, 6 if thorough else 3))
    # self-test: determinism of the first case
    c0 = ["ClimateData", 5, 3, 78, 2, False]
    ctx.selftest_same(fam_window(c0)["sig"] == fam_window(c0)["sig"],
                      "fam_window%r" % (c0,))
    # ---- window
    cases = []
    for N in (3, 4):
        tot = len(POINTS) ** N
        stride = 1 if (thorough or N == 3) else 8
        for code in range(ctx.seed % stride, tot, stride):
            for T in (5, 6, 7):
                cases.append(["Data", T, N, code, 1, False])
                cases.append(["ClimateData", T, N, code,
                              CYCLES[(code + T) % 4], bool((code // 4) % 2)])
    dcases = [c + [dt] for c in cases[::(7 if thorough else 29)]
              if c[0] == "ClimateData" or thorough
              for dt in ("int64", "int32", "int16")]
    ctx.explore("dtype", dcases, desc="the window family on an integer "
                "observable (int64, int32, int16)")
    ctx.explore("window", cases, desc="all 125 menu windows in sequence per "
                "grid x T x class")
    # ---- hist
    ngr = 6 if thorough else 3
    cases = []
    nstates = 0
    for T in (5, 6, 7):
        for N in (3, 4):
            for gi in range(ngr):
                code = HIST_GRIDS[N][(gi + ctx.seed) % 6]
                ns = _model_states(T, N, code)
                confs = [("Data", 1, False)] + [
                    ("ClimateData", c, a) for c in CYCLES
                    for a in (False, True)]
                for (cls, c, a) in confs:
                    nstates += ns
                    for first in range(len(HIST_OPS)):
                        cases.append([cls, T, N, code, c, a, depth, first])
    ctx.explore("hist", cases, desc="all window histories up to depth %d"
                % depth)
    ctx.states += nstates
    # ---- months
    cases = [[T, 3, code, a] for T in (25, 26, 36)
             for code in HIST_GRIDS[3] for a in (False, True)]
    ctx.explore("months", cases, desc="time_cycle 12: "
                "anomaly_selected_months")
    # ---- scale
    Ts = [130, 150, 209, 300] + ([129, 257] if thorough else [])
    axes = ["plain", "hours"] + (["hours17e6"] if thorough else [])
    cases = [[cls, T, ax, c, a] for T in Ts for ax in axes
             for (cls, c, a) in (("Data", 1, False),
                                 ("ClimateData", 12, False),
                                 ("ClimateData", 7, True))]
    cases += [["ClimateData", 40, "hours", 5, False],
              ["Data", 40, "hours", 1, False]]
    cases += [[cls, T, ax, c, a] for T in ([130, 150] + (
        [209, 300] if thorough else [])) for ax in ("monthly", "tenths")
        for (cls, c, a) in (("Data", 1, False), ("ClimateData", 12, False))]
    ctx.explore("scale", cases, chunk=1, desc="T=130..300 samples x 40 "
                "nodes; time axis 0,1,2.. and 1.9e6+6k (magnitude/spacing "
                "3e5): 11 windows on/between/just outside samples on one "
                "object")
    ctx.notes.update({"scale_T": Ts, "scale_axes": axes,
                      "history_depth": depth, "history_ops": 9,
                      "menu_windows": 125, "model_states": nstates})
    ctx.assumptions += [
        "window bounds of the menus are single precision numbers, so closed-"
        "interval membership of the stored (float32) coordinates is exact",
        "a window that selects nothing along some axis is outside the "
        "property (the library raises); such steps are excluded and counted",
        "when exactly one spatial axis has equal bounds the property text "
        "(per axis) and the set_window docstring (whole spatial extension) "
        "differ: either selection is accepted, the choice is counted",
        "with anomalies=True only 'anomaly() is the windowed observable' is "
        "demanded"]
