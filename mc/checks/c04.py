"""C04  Measures do not depend on node numbering.

Bounded-exhaustive exploration on the real library: one representative per
isomorphism class x ALL n! permutations is exactly "every labelled graph
together with every relabelling of it".

  net      Network: iso(2..5) undirected, iso(2..4) directed x all n!
           permutations (quick: n<=4 all, iso(5) x domains.perms_sample) x node
           weights, link attribute "w" relabelled with the permutation; both
           net.permuted_copy(perm) and an independent rebuild from the
           permuted adjacency (quick: alternating between the two from one
           permutation to the next); every public measure found by
           introspection
  groups   InteractingNetworks: every method taking node groups, the groups
           mapped through the permutation; the lists are passed as mapped
           (old order of positions), sorted by new number (positions
           shuffled by the permutation) and rotated
  spatial  SpatialNetwork (euclidean grid) / GeoNetwork (lat-lon grid, surface
           weights) / ResNetwork (resistances): coordinates, resistances
           permuted with the nodes
  recnet   RecurrenceNetwork: rows of a multi-dimensional series (crafted to
           realise the graph) permuted - node = state vector
  visgraph VisibilityGraph: generic network measures after assigning the
           permuted adjacency
  scale    the fixed larger inputs of refmodel/measure_table.scale_graph
           (components of 9/12/15/23 nodes with interleaved labels and
           isolated nodes, connected bipartite graphs on 21..34 nodes, hub
           rings on 150/209(/300) nodes, dense directed on 24) with unequal
           weights x a dozen fixed permutations (reversal, shifts, block
           moves bringing high-numbered nodes to the front, scrambles), for
           Network, the group methods (groups of 7/8 and N/2 nodes), the
           spatial classes (also with coordinates > 1e5) and a
           RecurrenceNetwork of 150(/300) state vectors

Oracle (perm[k] = old number of new node k):
  global f(G') = f(G);  node f(G')[k] = f(G)[perm[k]];  pair on both axes;
  group outputs follow the positions of the mapped lists.
Which one applies comes from refmodel/measure_table.py; a method without an
entry is held only to multiset equality and listed as unclassified.
"""
import hashlib
import itertools

import numpy as np

from ..core import V
from ..domains import (adj, iso, is_connected, link_attr, weights,
                       perms_sample, ordered_group_pairs)
from ..compare import equal, F32
from ..refmodel import measure_table as mt

LEVEL = "exploration"
TOL = dict(rtol=1e-9, atol=1e-12)
TOL_EV = dict(rtol=1e-6, atol=1e-8)


def _tol_ev_iter(n, W):
    """N >= 21 (see measure_table, flag simple_ev): the library shifts by
    sigma = N^2 (W^2 for the n.s.i. variant), so the accuracy ARPACK reaches
    with tol=1e-8 degrades like sigma; calibrated against dense eigh
    (3e-6 at N=21, 2e-5 at 150, 5e-4 at 300 ~ 5e-9*N^2)."""
    t = 4e-8 * max(float(n), float(W)) ** 2
    return dict(rtol=t, atol=t)


TOL_F32 = dict(F32)
JITTER = 1e-11

# generic coordinates (no two nodes share a coordinate, no pole, no
# antimeridian crossing within the set)
XS = [0.0, 3.0, 1.0, 4.5, 2.0, 6.0]
YS = [0.0, 1.5, 4.0, 0.5, 2.5, 3.5]
LAT = [12.5, -40.0, 63.0, -7.5, 81.0, 30.0]
LON = [-170.0, -35.0, 20.0, 95.0, 178.0, 60.0]


# ---------------------------------------------------------------------------
# helpers


def _all_classes():
    from pyunicorn.core import (Network, InteractingNetworks, SpatialNetwork,
                                GeoNetwork, ResNetwork, Grid, GeoGrid)
    from pyunicorn.timeseries import (RecurrenceNetwork, RecurrencePlot,
                                      VisibilityGraph)
    return dict(Network=Network, InteractingNetworks=InteractingNetworks,
                SpatialNetwork=SpatialNetwork, GeoNetwork=GeoNetwork,
                ResNetwork=ResNetwork, Grid=Grid, GeoGrid=GeoGrid,
                RecurrenceNetwork=RecurrenceNetwork,
                RecurrencePlot=RecurrencePlot,
                VisibilityGraph=VisibilityGraph)


def _clear_caches():
    for cls in _all_classes().values():
        for name in dir(cls):
            m = getattr(cls, name, None)
            cc = getattr(m, "cache_clear", None)
            if cc is not None and hasattr(m, "__wrapped__"):
                try:
                    cc()
                except TypeError:
                    pass


def pA(A, perm):
    n = len(perm)
    return [[A[perm[k]][perm[m]] for m in range(n)] for k in range(n)]


def pv(x, perm):
    return [x[perm[k]] for k in range(len(perm))]


def _call(obj, name, kw):
    try:
        v = getattr(obj, name)(**kw)
    except (KeyboardInterrupt, SystemExit, MemoryError):
        raise
    except BaseException as e:   # noqa
        return ("exc", type(e).__name__ + ": " + str(e)[:100])
    if hasattr(v, "toarray"):
        v = v.toarray()
    return ("ok", v)


def _ptag(kw):
    t = []
    for k in sorted(kw):
        v = kw[k]
        if isinstance(v, str) and v.startswith("$"):
            continue
        if k in ("key", "link_attribute", "attribute_name"):
            t.append("key")
        elif k == "typical_weight":
            t.append("tw")
        else:
            t.append("%s=%s" % (k, v))
    return "+".join(t)


def _evaluate(obj, name, pat, n, L1, L2):
    """Call obj.name with the pattern; "$i"/"$j" loop over all nodes and
    assemble an array.  L1/L2 are the node lists *in this object's
    numbering*."""
    loops = [k for k, v in pat.items() if v in ("$i", "$j")]
    kw = {}
    for k, v in pat.items():
        if v == "$L1":
            kw[k] = list(L1)
        elif v == "$L2":
            kw[k] = list(L2)
        elif v not in ("$i", "$j"):
            kw[k] = v
    if not loops:
        return _call(obj, name, kw)
    ki = [k for k in loops if pat[k] == "$i"]
    kj = [k for k in loops if pat[k] == "$j"]
    if kj:
        out = np.zeros((n, n))
        for a in range(n):
            for b in range(n):
                kw[ki[0]], kw[kj[0]] = a, b
                o = _call(obj, name, kw)
                if o[0] == "exc":
                    return o
                out[a, b] = float(np.real(o[1]))
        return ("ok", out)
    out = np.zeros(n)
    for a in range(n):
        kw[ki[0]] = a
        o = _call(obj, name, kw)
        if o[0] == "exc":
            return o
        out[a] = float(np.real(o[1]))
    return ("ok", out)


def _isclose(s, e, tol):
    s = np.asarray(s)
    e = np.asarray(e)
    if s.shape != e.shape:
        return None
    if s.dtype == object or e.dtype == object:
        return None
    if s.dtype.kind in "biu" and e.dtype.kind in "biu":
        return s == e
    return np.isclose(s.astype(complex) if s.dtype.kind == "c" else
                      s.astype(float),
                      e.astype(complex) if e.dtype.kind == "c" else
                      e.astype(float), equal_nan=True, **tol)


def _first_bad(ok):
    idx = np.nonzero(~ok)
    return tuple(int(x[0]) for x in idx)


def _relate(kind, b, s, perm, tol, lists=None, sub=None):
    """None if s = f(G') relates to b = f(G) as the property demands under
    new node k = old node perm[k]; else a description."""
    n = len(perm)
    if kind in ("global", "histogram"):
        return None if equal(s, b, **tol) else "value changed"
    if kind == "dict":
        if not (isinstance(b, dict) and isinstance(s, dict)) or \
                set(b) != set(s):
            return "dict keys differ"
        for k in sorted(b):
            kk = (sub or {}).get(k)
            if kk is None:
                if not _multiset_equal(b[k], s[k], tol):
                    return "entry %r (unclassified): multiset differs" % k
                continue
            m = _relate(kk, b[k], s[k], perm, tol)
            if m is not None:
                return "entry %r: %s" % (k, m)
        return None
    if kind == "edges":
        try:
            eb = set((int(x), int(y)) for x, y in np.asarray(b).reshape(-1, 2))
            es = set((int(perm[int(x)]), int(perm[int(y)]))
                     for x, y in np.asarray(s).reshape(-1, 2))
        except Exception as e:   # noqa
            return "edge list not readable: %r" % (e,)
        return None if eb == es else "edge sets differ"
    b = np.asarray(b)
    s = np.asarray(s)
    P = np.array(perm)
    if kind == "node" or kind == "node_x_k":
        if b.shape[:1] != (n,) or s.shape != b.shape:
            return "shape %s vs %s" % (b.shape, s.shape)
        exp = b[P]
    elif kind in ("pair", "operator"):
        if b.shape != (n, n) or s.shape != (n, n):
            return "shape %s vs %s" % (b.shape, s.shape)
        exp = b[np.ix_(P, P)]
    elif kind in ("g1", "g1xg2", "g1xg1"):
        (L1o, L2o, L1n, L2n) = lists
        r1 = [L1o.index(perm[x]) for x in L1n]
        if kind == "g1":
            if b.shape != (len(L1o),) or s.shape != b.shape:
                return "shape %s vs %s" % (b.shape, s.shape)
            exp = b[np.array(r1)]
        else:
            if kind == "g1xg1":
                r2, L2o_ = r1, L1o
            else:
                r2, L2o_ = [L2o.index(perm[x]) for x in L2n], L2o
            if b.shape != (len(L1o), len(L2o_)) or s.shape != b.shape:
                return "shape %s vs %s" % (b.shape, s.shape)
            exp = b[np.ix_(np.array(r1), np.array(r2))]
    else:
        raise ValueError(kind)
    ok = _isclose(s, exp, tol)
    if ok is None:
        return "outputs not comparable (dtype/shape)"
    if ok.all():
        return None
    i = _first_bad(ok)
    return "index %s: %r != %r" % (list(i), s[i].item(), exp[i].item())


def _sorted_order_form(kind, b, s, perm, tol, lists):
    """Does the output follow the *sorted* node list instead of the list as
    given?  (closed form of the internal_adjacency ordering defect)"""
    (L1o, L2o, L1n, L2n) = lists
    if kind not in ("g1", "g1xg1") or list(L1n) == sorted(L1n):
        return False
    alt = (L1o, L2o, sorted(L1n), L2n)
    try:
        return _relate(kind, b, s, perm, tol, alt) is None
    except Exception:   # noqa
        return False


def _flat(x):
    if isinstance(x, dict):
        out = []
        for k in sorted(x):
            out += _flat(x[k])
        return out
    if isinstance(x, (list, tuple)):
        out = []
        for y in x:
            out += _flat(y)
        return out
    if hasattr(x, "toarray"):
        x = x.toarray()
    a = np.asarray(x)
    if a.dtype == object:
        return [repr(x)]
    if a.dtype.kind in "US":
        return [str(v) for v in a.ravel()]
    return [complex(v) if a.dtype.kind == "c" else float(v)
            for v in a.ravel()]


def _multiset_equal(b, s, tol):
    try:
        fb, fs = _flat(b), _flat(s)
    except Exception:   # noqa
        return True         # not a numeric measure: nothing to demand
    if len(fb) != len(fs):
        return False
    if any(isinstance(v, str) for v in fb + fs):
        return sorted(map(str, fb)) == sorted(map(str, fs))
    key = (lambda v: (np.isnan(v.real), v.real, v.imag)) \
        if any(isinstance(v, complex) for v in fb + fs) else \
        (lambda v: (v != v, v))
    if any(isinstance(v, complex) for v in fb + fs):
        fb = [complex(v) for v in fb]
        fs = [complex(v) for v in fs]
    fb, fs = sorted(fb, key=key), sorted(fs, key=key)
    return bool(np.allclose(np.array(fb), np.array(fs), equal_nan=True,
                            **tol))


def _sigval(o):
    if o[0] == "exc":
        return o[1].split(":")[0]
    try:
        return [round(float(np.real(v)), 6) for v in _flat(o[1])][:40]
    except Exception:   # noqa
        return repr(o[1])[:60]


def _tol_of(m, n=0, W=1.0):
    if m is None:
        return TOL
    if m.has("simple_ev"):
        return TOL_EV if n <= 20 else _tol_ev_iter(n, W)
    if m.has("cancel"):
        return dict(rtol=1e-9, atol=1e-12 * max(1.0, float(W) ** 3))
    if m.has("f32"):
        return TOL_F32
    return TOL


def _plan(cls, owners, n, directed, conn, pairs, excluded, stats,
          need_groups=None, skip=()):
    """[(name, entry|None, pattern, tag, (L1, L2)|None)] for every public
    method of `cls` owned by one of `owners` (None = any)."""
    plan = []
    for name, owner, nreq in mt.discover(cls):
        if owners is not None and owner not in owners:
            continue
        if name in mt.DENY:
            r = "not a measure: " + mt.DENY[name]
            excluded[r] = excluded.get(r, 0) + 1
            continue
        if name in skip:
            excluded["too slow at this size: " + name] = 1
            continue
        m = mt.lookup(cls, name)
        if m is None:
            if nreq == 0:
                stats["unclassified:%s.%s" % (owner, name)] = 1
                plan.append((name, None, {}, "", None))
            else:
                stats["unclassified-with-required-args:%s.%s" % (
                    owner, name)] = 1
            continue
        if m.kind == "other":
            continue
        if m.has("und") and directed:
            excluded["undirected only: " + name] = 1
            continue
        if m.has("simple_ev") and not conn:
            excluded["connected only (degenerate eigenvector): " + name] = 1
            continue
        for pat in m.patterns:
            uses = "$L1" in pat.values() or "$L2" in pat.values()
            if need_groups is not None and uses != need_groups:
                continue
            if uses:
                for (L1, L2) in pairs:
                    plan.append((name, m, pat, _ptag(pat), (L1, L2)))
            else:
                plan.append((name, m, pat, _ptag(pat), None))
    return plan


def _group_pairs(n, k=9):
    allp = ordered_group_pairs(n)
    if len(allp) <= k:
        return allp
    stride = len(allp) // k
    sel = allp[::stride][:k]
    return sel


def _jit(x, s):
    return [v * (1.0 + JITTER * s * (1 if i % 2 else -1))
            for i, v in enumerate(x)]


def _explore_object(clsname, build, variants, n, directed, A, perms, owners,
                    pairs, orders=("asis",), need_groups=None,
                    jitter_build=None, alternate=False, skip=()):
    """The common engine.  build(perm, variant) -> object in the numbering
    new k = old perm[k] (perm None: the original)."""
    classes = _all_classes()
    cls = classes[clsname]
    viol, excluded, stats = [], {}, {}
    ev = 0
    conn = is_connected(np.array(A))
    An = np.array(A)
    if directed:
        dtag = "directed" + ("+reciprocal" if (An * An.T).any() else "")
    else:
        dtag = "undirected" + ("" if conn else "+disconnected")
    base = build(None, variants[0])
    try:
        Wtot = max(float(n), float(np.sum(np.asarray(base.node_weights,
                                                     dtype=float))))
    except Exception:   # noqa
        Wtot = float(n)
    plan = _plan(cls, owners, n, directed, conn, pairs, excluded, stats,
                 need_groups, skip)
    base_val = []
    for (name, m, pat, tag, grp) in plan:
        L1, L2 = grp if grp else ((), ())
        base_val.append(_evaluate(base, name, pat, n, L1, L2))
        ev += 1
    sig = hashlib.sha1(repr([_sigval(o) for o in base_val]).encode()
                       ).hexdigest()[:16]
    jit = {}

    def ill_conditioned(k):
        if jitter_build is None:
            return False
        name, m, pat, tag, grp = plan[k]
        L1, L2 = grp if grp else ((), ())
        tol = _tol_of(m, n, Wtot)
        for s_ in (1, -1):
            if s_ not in jit:
                jit[s_] = jitter_build(s_)
            o = _evaluate(jit[s_], name, pat, n, L1, L2)
            if o[0] != base_val[k][0]:
                return True
            if o[0] == "ok" and not equal(o[1], base_val[k][1], **tol):
                return True
        return False

    def floatbin_case(k, obj, perm):
        """Histogram of a float-valued node sequence: if the sequence itself
        is equivariant within the tolerance, a differing histogram only
        shows that a value sits on a bin edge (or all values coincide) up
        to rounding."""
        name, m, pat, tag, grp = plan[k]
        if m is None or not m.has("floatbin") or m.src is None:
            return False
        kw = {a: v for a, v in pat.items() if a != "n_bins"}
        ob, os_ = _call(base, m.src, kw), _call(obj, m.src, kw)
        if ob[0] != "ok" or os_[0] != "ok":
            return False
        try:
            return _relate("node", ob[1], os_[1], perm,
                           _tol_of(m, n, Wtot)) is None
        except Exception:   # noqa
            return False

    for pi_, perm in enumerate(perms):
        perm = tuple(perm)
        inv = [0] * n
        for k_, o_ in enumerate(perm):
            inv[o_] = k_
        for variant in ((variants[pi_ % len(variants)],) if alternate
                        else variants):
            try:
                obj = build(perm, variant)
            except Exception as e:   # noqa
                viol.append(V("%s.%s:raises:%s" % (clsname, variant, dtag),
                              "perm %s: %r" % (perm, e), repr(e), "object"))
                continue
            if obj is None:
                continue
            for k, (name, m, pat, tag, grp) in enumerate(plan):
                b = base_val[k]
                for order in (orders if grp else ("asis",)):
                    if grp:
                        L1n = [inv[x] for x in grp[0]]
                        L2n = [inv[x] for x in grp[1]]
                        if order == "rev":
                            L1n, L2n = L1n[::-1], L2n[::-1]
                        elif order == "sorted":
                            L1n, L2n = sorted(L1n), sorted(L2n)
                        elif order == "rot":
                            L1n, L2n = L1n[1:] + L1n[:1], L2n[1:] + L2n[:1]
                        lists = (list(grp[0]), list(grp[1]), L1n, L2n)
                    else:
                        L1n, L2n, lists = (), (), None
                    s = _evaluate(obj, name, pat, n, L1n, L2n)
                    ev += 1
                    key = "%s.%s[%s]" % (mt.owner_of(cls, name),
                                         mt.ALIASES.get(name, name), tag)
                    if b[0] == "exc" or s[0] == "exc":
                        if b[0] == s[0]:
                            if b[1].split(":")[0] == s[1].split(":")[0]:
                                r = "raises on both: %s[%s] %s" % (
                                    name, tag, b[1].split(":")[0])
                                excluded[r] = excluded.get(r, 0) + 1
                                continue
                        if ill_conditioned(k) or floatbin_case(k, obj, perm):
                            r = "ill-conditioned: " + name
                            excluded[r] = excluded.get(r, 0) + 1
                            continue
                        viol.append(V(
                            key + ":raises-differently:" + dtag,
                            "perm %s (%s)%s" % (perm, variant,
                                                (" lists %s" % (lists,))
                                                if lists else ""),
                            s[1] if s[0] == "exc" else _sigval(s),
                            b[1] if b[0] == "exc" else _sigval(b)))
                        continue
                    tol = _tol_of(m, n, Wtot)
                    if m is None:
                        if _multiset_equal(b[1], s[1], tol):
                            stats["relations_held"] = \
                                stats.get("relations_held", 0) + 1
                        else:
                            viol.append(V(
                                key + ":multiset-changed:" + dtag,
                                "unclassified method; perm %s (%s)" % (
                                    perm, variant), s[1], b[1]))
                        continue
                    try:
                        msg = _relate(m.kind, b[1], s[1], perm, tol, lists,
                                      m.sub)
                    except Exception as e:   # noqa
                        msg = "outputs not comparable: %r" % (e,)
                    if msg is None:
                        stats["relations_held"] = \
                            stats.get("relations_held", 0) + 1
                        continue
                    if lists and _sorted_order_form(m.kind, b[1], s[1], perm,
                                                    tol, lists):
                        root = "internal_link_attribute" if "key" in tag \
                            else "internal_adjacency"
                        viol.append(V(
                            "InteractingNetworks.%s:list-order:"
                            "unsorted-node-list=sorted-order" % root,
                            "%s%s: output follows the sorted node list, not "
                            "the list as given; perm %s lists %s" % (
                                name, ("[%s]" % tag) if tag else "", perm,
                                lists), s[1], b[1]))
                        continue
                    if ill_conditioned(k) or floatbin_case(k, obj, perm):
                        r = "ill-conditioned: " + name
                        excluded[r] = excluded.get(r, 0) + 1
                        continue
                    viol.append(V(
                        key + ":not-equivariant:" + dtag,
                        "perm %s (%s)%s: %s" % (
                            perm, variant,
                            (" lists (old1, old2, new1, new2) %s" % (lists,))
                            if lists else "", msg), s[1], b[1]))
    _clear_caches()
    return {"viol": viol, "evals": ev, "excluded": excluded, "stats": stats,
            "trivial": False, "sig": sig}


def _perm_list(n, spec):
    """spec: ["all", chunk, nchunks] | ["sample"]"""
    if spec[0] == "sample":
        return [tuple(p) for p in perms_sample(n, full=False)]
    allp = list(itertools.permutations(range(n)))
    c, nc = spec[1], spec[2]
    return allp[c::nc]


# ---------------------------------------------------------------------------
# families


def _net_builder(clsname, A, directed, w, W, check=None):
    classes = _all_classes()
    cls = classes[clsname]

    def mk(A_, w_, W_):
        net = cls(adjacency=np.array(A_), directed=bool(directed),
                  node_weights=np.array(w_, dtype=float), silence_level=3)
        net.set_link_attribute(mt.LA, np.array(W_, dtype=float))
        return net

    base = {}

    def build(perm, variant):
        if perm is None:
            if "o" not in base:
                base["o"] = mk(A, w, W)
            return base["o"]
        A2, w2, W2 = pA(A, perm), pv(w, perm), pA(W, perm)
        if variant == "rebuild":
            return mk(A2, w2, W2)
        # permuted_copy: the library's own relabelling; link attributes are
        # not carried over by it, they are renumbered by the caller
        net = build(None, None).permuted_copy(list(perm))
        if check is not None:
            check(net, A2, w2, perm)
        if type(net) is not cls:
            # permuted_copy returns a plain Network
            net = cls(adjacency=np.asarray(net.adjacency),
                      directed=bool(net.directed),
                      node_weights=np.asarray(net.node_weights),
                      silence_level=3)
        net.set_link_attribute(mt.LA, np.array(W2, dtype=float))
        return net

    def jitter_build(s):
        return mk(A, _jit(w, s), W)
    return build, jitter_build


def fam_net(case):
    n, directed, mask, widx, pspec = case[:5]
    alternate = len(case) > 5 and case[5] == "alt"
    A = adj(n, directed, mask).tolist()
    w = weights(n, widx) or [1.0] * n
    W = link_attr(np.array(A), 1).tolist()
    pre = []

    def check(net, A2, w2, perm):
        gA = np.asarray(net.adjacency)
        if not np.array_equal(gA, np.array(A2)) or \
                bool(net.directed) != bool(directed):
            pre.append(V("Network.permuted_copy:adjacency:" + (
                "directed" if directed else "undirected"),
                "perm %s" % (perm,), gA, A2))
        gw = np.asarray(net.node_weights, dtype=float)
        if gw.shape != (n,) or not np.array_equal(gw, np.array(w2)):
            pre.append(V("Network.permuted_copy:node-weights", "perm %s" % (
                perm,), gw, w2))

    build, jb = _net_builder("Network", A, directed, w, W, check)
    r = _explore_object("Network", build, ("permuted_copy", "rebuild"), n,
                        directed, A, _perm_list(n, pspec), None,
                        _group_pairs(n, 3), jitter_build=jb,
                        alternate=alternate)
    r["viol"] = pre + r["viol"]
    return r


def fam_groups(case):
    n, directed, mask, widx, pspec = case[:5]
    orders = tuple(case[5]) if len(case) > 5 else ("asis", "sorted")
    A = adj(n, directed, mask).tolist()
    w = weights(n, widx) or [1.0] * n
    W = link_attr(np.array(A), 1).tolist()
    build, jb = _net_builder("InteractingNetworks", A, directed, w, W)
    return _explore_object("InteractingNetworks", build, ("rebuild",), n,
                           directed, A, _perm_list(n, pspec),
                           ("InteractingNetworks",), _group_pairs(n, 9),
                           orders=orders, jitter_build=jb)


def fam_spatial(case):
    clsname, n, directed, mask, pspec = case
    classes = _all_classes()
    cls = classes[clsname]
    A = adj(n, directed, mask).tolist()
    W = link_attr(np.array(A), 1).tolist()
    R = link_attr(np.array(A), 2).tolist()
    t = np.arange(3.0)

    def mk(perm):
        p = perm if perm is not None else tuple(range(n))
        A2, W2 = pA(A, p), pA(W, p)
        if clsname == "SpatialNetwork":
            g = classes["Grid"](time_seq=t, space_seq=np.array(
                [pv(XS, p), pv(YS, p)]), silence_level=3)
            net = cls(grid=g, adjacency=np.array(A2), directed=bool(directed),
                      silence_level=3)
        else:
            g = classes["GeoGrid"](time_seq=t, lat_seq=np.array(pv(LAT, p)),
                                   lon_seq=np.array(pv(LON, p)),
                                   silence_level=3)
            if clsname == "GeoNetwork":
                net = cls(grid=g, adjacency=np.array(A2),
                          directed=bool(directed),
                          node_weight_type="surface", silence_level=3)
            else:
                net = cls(resistances=np.array(pA(R, p)), grid=g,
                          adjacency=np.array(A2), node_weight_type="surface",
                          silence_level=3)
        net.set_link_attribute(mt.LA, np.array(W2, dtype=float))
        return net

    def build(perm, variant):
        return mk(perm)

    owners = {"SpatialNetwork": ("SpatialNetwork",),
              "GeoNetwork": ("GeoNetwork", "SpatialNetwork"),
              "ResNetwork": ("ResNetwork",)}[clsname]
    return _explore_object(clsname, build, ("rebuild",), n, directed, A,
                           _perm_list(n, pspec), owners, _group_pairs(n, 2))


#  ways of fixing the recurrence criterion that do not depend on the order
#  of the samples (the crafted unit-cube series are full of tied distances;
#  the adaptive neighbourhood breaks ties by position and is not included)
RECNET_VARIANTS = {
    "threshold": None,
    "rate": {"recurrence_rate": 0.45},
    "local": {"local_recurrence_rate": 0.5},
    "local-manhattan": {"local_recurrence_rate": 0.34},
}


def fam_recnet(case):
    n, mask, widx, pspec = case[:4]
    variant = case[4] if len(case) > 4 else "threshold"
    from ..refmodel import craft
    classes = _all_classes()
    cls = classes["RecurrenceNetwork"]
    A = adj(n, False, mask).tolist()
    series = craft.realise(n, mask)
    if series is None:
        return {"viol": [], "evals": 0, "trivial": True,
                "excluded": {"no unit-cube realisation of the graph": 1}}
    w = weights(n, widx) or [1.0] * n
    par = RECNET_VARIANTS[variant] or {"threshold": craft.THRESHOLD}
    metric = "manhattan" if variant.endswith("manhattan") else "supremum"
    directed = False
    if variant != "threshold":
        b0 = cls(np.array(series), metric=metric, silence_level=3, **par)
        A = np.asarray(b0.adjacency).astype(int).tolist()
        directed = bool(b0.directed)
    W = link_attr(np.array(A), 1).tolist()
    pre = []

    def mk(perm, w_):
        p = perm if perm is not None else tuple(range(n))
        net = cls(np.array(series)[list(p)], metric=metric,
                  silence_level=3,
                  node_weights=np.array(pv(w_, p), dtype=float), **par)
        if perm is None and not np.array_equal(np.asarray(net.adjacency),
                                               np.array(A)):
            pre.append(V("RecurrenceNetwork.adjacency:crafted",
                         "crafted series does not realise the graph",
                         net.adjacency, A))
        if perm is not None and not np.array_equal(
                np.asarray(net.adjacency), np.array(pA(A, p))):
            pre.append(V("RecurrenceNetwork.adjacency:not-equivariant:"
                         + variant, "the network of the re-ordered samples "
                         "is not the re-ordered network (perm %s)" % (p,),
                         net.adjacency, pA(A, p)))
        net.set_link_attribute(mt.LA, np.array(pA(W, p), dtype=float))
        return net

    r = _explore_object(
        "RecurrenceNetwork", lambda perm, variant: mk(perm, w), ("rebuild",),
        n, directed, A, _perm_list(n, pspec),
        ("RecurrenceNetwork", "RecurrencePlot", "Network"),
        _group_pairs(n, 2), jitter_build=lambda s: mk(None, _jit(w, s)))
    r["viol"] = pre + r["viol"]
    return r


VG_ALPHABET = (0.0, 1.0, 2.0)


def _vg_series(n):
    """One series per distinct visibility adjacency (first in product
    order)."""
    from pyunicorn.timeseries import VisibilityGraph
    seen, out = set(), []
    for s in itertools.product(VG_ALPHABET, repeat=n):
        vg = VisibilityGraph(np.array(s), silence_level=3)
        k = np.asarray(vg.adjacency).tobytes()
        if k not in seen:
            seen.add(k)
            out.append(list(s))
    return out


def fam_visgraph(case):
    series, pspec = case
    n = len(series)
    classes = _all_classes()
    cls = classes["VisibilityGraph"]
    b0 = cls(np.array(series), silence_level=3)
    A = np.asarray(b0.adjacency).astype(int).tolist()
    W = link_attr(np.array(A), 1).tolist()

    def build(perm, variant):
        vg = cls(np.array(series), silence_level=3)
        if perm is not None:
            vg.adjacency = np.array(pA(A, perm))
            vg.set_link_attribute(mt.LA, np.array(pA(W, perm), dtype=float))
        else:
            vg.set_link_attribute(mt.LA, np.array(W, dtype=float))
        return vg

    return _explore_object("VisibilityGraph", build, ("assigned",), n, False,
                           A, _perm_list(n, pspec),
                           ("Network", "InteractingNetworks"),
                           _group_pairs(n, 3))


# ---------------------------------------------------------------------------
# family: scale  (fixed larger structured inputs, same relations)

SCALE_SKIP_BIG = ("local_vulnerability", "arenas_betweenness",
                  "nsi_arenas_betweenness",
                  "local_distance_weighted_vulnerability")


def _scale_perms(n):
    """A dozen fixed permutations of range(n).  Same recipe as
    domains.perms_sample (reversal, transpositions with the last node,
    cyclic shift, multiplicative map) - that function enumerates all n!
    permutations first and cannot be called for n > 9 - plus block moves
    that bring high-numbered nodes to the front and three scrambles."""
    ident = tuple(range(n))
    out = []

    def add(p):
        p = tuple(int(x) for x in p)
        if sorted(p) == list(range(n)) and p != ident and p not in out:
            out.append(p)
    add(reversed(range(n)))
    add([(i + 1) % n for i in range(n)])
    add([(i * 2 + 1) % n if n % 2 else (i + 2) % n for i in range(n)])
    for i in (0, n // 2, n - 2):                 # transpositions with n-1
        p = list(range(n))
        p[i], p[n - 1] = p[n - 1], p[i]
        add(p)
    h = n // 2
    add(list(range(h, n)) + list(range(h)))      # second half to the front
    add(list(range(0, n, 2)) + list(range(1, n, 2)))
    add(list(range(n - 1, -1, -2)) + list(range(n - 2, -1, -2)))
    for a, c in ((37, 11), (53, 5), (101, 3)):   # scrambles
        p = sorted(range(n),
                   key=lambda i: (((i * a + c) * (i + c)) % (7 * n + 1), i))
        add(p)
    return out[:12]


def _scale_pairs(n):
    ev, od = list(range(0, n, 2)), list(range(1, n, 2))
    return [(ev[:7], od[:8]), (od[:8], ev[:7]),
            (list(range(n // 2)), list(range(n // 2, n))),
            (list(range(0, n, 3)), list(range(1, n, 3))),
            ([n - 1], list(range(0, min(n - 1, 9))))]


def _scale_coords(n, big=False):
    xs = [1.5 * ((i * 37) % 101) + 0.25 * i for i in range(n)]
    ys = [2.0 * ((i * 53) % 89) + 0.125 * i for i in range(n)]
    if big:          # magnitudes > 1e5 (float32 spacing 0.125 at 1.9e6)
        xs = [1.9e6 + 6.0 * ((i * 37) % (2 * n)) for i in range(n)]
        ys = [1.2e5 + 3.0 * ((i * 53) % (2 * n)) for i in range(n)]
    lat = [-80.0 + 160.0 * ((i * 29) % n) / n + 0.01 * (i % 7)
           for i in range(n)]
    lon = [-175.0 + 350.0 * ((i * 53) % n) / n for i in range(n)]
    return xs, ys, lat, lon


def fam_scale(case):
    kind, name, chunk, nchunks = case[:4]
    classes = _all_classes()
    if kind == "recnet":
        n = int(name)
        cols = 15 if n == 150 else 20
        order = [(i * 37) % n for i in range(n)]
        pts = [(k % cols, k // cols) for k in order]
        series = 0.5 * np.array(pts, dtype=float)
        A = [[int(i != j and abs(pts[i][0] - pts[j][0]) <= 1 and
                  abs(pts[i][1] - pts[j][1]) <= 1) for j in range(n)]
             for i in range(n)]
        directed = False
    else:
        n, edges, directed = mt.scale_graph(name)
        A = mt.scale_adjacency(n, edges, directed)
    w = mt.scale_weights(n)
    W = link_attr(np.array(A), 1).tolist()
    perms = _scale_perms(n)[chunk::nchunks]
    skip = SCALE_SKIP_BIG if n >= 100 else ()
    pairs = _scale_pairs(n)
    dname = "directed" if directed else "undirected"
    if kind == "net":
        pre = []

        def check(net, A2, w2, perm):
            gA = np.asarray(net.adjacency)
            if not np.array_equal(gA, np.array(A2)) or \
                    bool(net.directed) != bool(directed):
                pre.append(V("Network.permuted_copy:adjacency:" + dname,
                             "perm %s" % (perm,), gA, A2))
            gw = np.asarray(net.node_weights, dtype=float)
            if gw.shape != (n,) or not np.array_equal(gw, np.array(w2)):
                pre.append(V("Network.permuted_copy:node-weights",
                             "perm %s" % (perm,), gw, w2))
        build, jb = _net_builder("Network", A, directed, w, W, check)
        r = _explore_object("Network", build, ("permuted_copy", "rebuild"),
                            n, directed, A, perms, None, pairs[:3],
                            jitter_build=jb, alternate=True, skip=skip)
        r["viol"] = pre + r["viol"]
        return r
    if kind == "groups":
        build, jb = _net_builder("InteractingNetworks", A, directed, w, W)
        return _explore_object("InteractingNetworks", build, ("rebuild",), n,
                               directed, A, perms, ("InteractingNetworks",),
                               pairs, orders=("asis", "sorted"),
                               jitter_build=jb, skip=skip)
    if kind == "recnet":
        from ..refmodel import craft
        cls = classes["RecurrenceNetwork"]
        pre = []

        def mk(perm, w_):
            p = perm if perm is not None else tuple(range(n))
            net = cls(series[list(p)], metric="supremum",
                      threshold=craft.THRESHOLD, silence_level=3,
                      node_weights=np.array(pv(w_, p), dtype=float))
            if perm is None and not np.array_equal(
                    np.asarray(net.adjacency), np.array(A)):
                pre.append(V("RecurrenceNetwork.adjacency:crafted",
                             "lattice series does not realise the king "
                             "graph", net.adjacency, A))
            net.set_link_attribute(mt.LA, np.array(pA(W, p), dtype=float))
            return net
        r = _explore_object(
            "RecurrenceNetwork", lambda perm, variant: mk(perm, w),
            ("rebuild",), n, False, A, perms,
            ("RecurrenceNetwork", "RecurrencePlot", "Network"), pairs[:2],
            jitter_build=lambda s_: mk(None, _jit(w, s_)), skip=skip)
        r["viol"] = pre + r["viol"]
        return r
    # spatial classes: kind in SpatialNetwork / SpatialNetwork-big /
    # GeoNetwork / ResNetwork
    clsname = kind.split("-")[0]
    cls = classes[clsname]
    xs, ys, lat, lon = _scale_coords(n, big=kind.endswith("-big"))
    R = link_attr(np.array(A), 2).tolist()
    t = 1.9e6 + 6.0 * np.arange(3.0) if kind.endswith("-big") \
        else np.arange(3.0)

    def build(perm, variant):
        p = perm if perm is not None else tuple(range(n))
        A2, W2 = pA(A, p), pA(W, p)
        if clsname == "SpatialNetwork":
            g = classes["Grid"](time_seq=t, space_seq=np.array(
                [pv(xs, p), pv(ys, p)]), silence_level=3)
            net = cls(grid=g, adjacency=np.array(A2), directed=bool(directed),
                      silence_level=3)
        else:
            g = classes["GeoGrid"](time_seq=t, lat_seq=np.array(pv(lat, p)),
                                   lon_seq=np.array(pv(lon, p)),
                                   silence_level=3)
            if clsname == "GeoNetwork":
                net = cls(grid=g, adjacency=np.array(A2),
                          directed=bool(directed),
                          node_weight_type="surface", silence_level=3)
            else:
                net = cls(resistances=np.array(pA(R, p)), grid=g,
                          adjacency=np.array(A2), node_weight_type="surface",
                          silence_level=3)
        net.set_link_attribute(mt.LA, np.array(W2, dtype=float))
        return net
    owners = {"SpatialNetwork": ("SpatialNetwork",),
              "GeoNetwork": ("GeoNetwork", "SpatialNetwork"),
              "ResNetwork": ("ResNetwork",)}[clsname]
    return _explore_object(clsname, build, ("rebuild",), n, directed, A,
                           perms, owners, pairs[:2], skip=skip)


FAMILIES = {"net": fam_net, "groups": fam_groups, "spatial": fam_spatial,
            "recnet": fam_recnet, "visgraph": fam_visgraph,
            "scale": fam_scale}


# ---------------------------------------------------------------------------


def _pspecs(n, thorough, nchunks):
    if n <= 4 or thorough:
        nc = nchunks if n == 5 else 1
        return [["all", c, nc] for c in range(nc)]
    return [["sample"]]


def run(ctx):
    thorough = ctx.tier == "thorough"
    ctx.rule = (
        "one representative per isomorphism class (undirected 2..5 nodes, "
        "directed 2..4 nodes) x %s permutations; per object every public "
        "method found by introspection that has a table entry (deny-list: "
        "mutators, constructors, file output, random output, time-ordered "
        "measures) in every argument pattern.  Every case is non-trivial; "
        "distinct = distinct vectors of base values." % (
            "all n!" if thorough else
            "all n! (n<=4) / 12 (n=5, domains.perms_sample)"))
    und = [g for n in range(2, 6) for g in iso(n, False)]
    dire = [g for n in range(2, 5) for g in iso(n, True)]
    # -- Network
    cases = []
    for (n, d, m) in und + dire:
        for wi in ((1, 2) if (thorough and n <= 4) else (1,)):
            for ps in _pspecs(n, thorough, 6):
                cases.append((n, d, m, wi, ps, "both" if thorough else "alt"))
    # a fixed list of larger disconnected graphs (components of 5 nodes
    # whose labels are not 0..Nc-1 after relabelling): component-wise
    # measures index per-component arrays, which 5-node graphs cannot reach
    from ..domains import mask_of
    for edges, nn in (
            ([(0, 1), (1, 2), (2, 3), (3, 4)], 6),                  # P5 + K1
            ([(0, 1), (1, 2), (2, 3), (3, 4), (4, 0)], 6),          # C5 + K1
            ([(0, 1), (1, 2), (2, 3), (3, 0), (0, 4), (1, 4)], 6),  # house+K1
            ([(0, 1), (0, 2), (0, 3), (0, 4), (1, 2)], 6),          # paw-star
            ([(0, 1), (1, 2), (2, 0), (3, 4), (4, 5), (5, 3)], 6),  # 2 x K3
            ([(0, 1), (1, 2), (2, 3), (3, 4), (5, 6)], 7)):         # P5 + K2
        A_ = np.zeros((nn, nn), dtype=int)
        for (i, j) in edges:
            A_[i, j] = A_[j, i] = 1
        cases.append((nn, False, mask_of(A_, False), 1, ["sample"], "alt"))
    probe = [c for c in cases if c[0] == 3 and not c[1]][-1]
    a, b = fam_net(probe), fam_net(probe)
    ctx.selftest_same(
        a["sig"] == b["sig"] and a["evals"] == b["evals"] and
        [v["key"] for v in a["viol"]] == [v["key"] for v in b["viol"]],
        "fam_net%r" % (probe,))
    ctx.explore("net", cases, desc="Network: permuted_copy and rebuild, "
                "all public measures")
    # -- InteractingNetworks
    cases = []
    for (n, d, m) in und:
        for ps in _pspecs(n, thorough, 6):
            cases.append((n, d, m, 1, ps, ["asis", "sorted", "rot"]
                          if thorough else ["asis", "sorted"]))
    # directed networks: the node lists are renumbered element by element
    # (that is what the property states); re-ordering a list is NOT applied
    # here, because the triangular loops of the directed cross clustering
    # count a one-way link by list position on the unchanged library
    for (n, d, m) in [g for g in dire if g[0] >= 3]:
        for ps in _pspecs(n, thorough, 6):
            cases.append((n, d, m, 1, ps, ["asis"]))
    ctx.explore("groups", cases, desc="InteractingNetworks: node-group "
                "methods, groups mapped through the permutation; list order "
                "as mapped, sorted by new number, rotated")
    # -- spatial classes
    cases = []
    for cn in ("SpatialNetwork", "GeoNetwork", "ResNetwork"):
        gs = und + ([] if cn == "ResNetwork" else
                    [g for g in dire if g[0] <= (4 if thorough else 3)])
        for (n, d, m) in gs:
            for ps in _pspecs(n, thorough, 2):
                cases.append((cn, n, d, m, ps))
    ctx.explore("spatial", cases, desc="SpatialNetwork / GeoNetwork / "
                "ResNetwork with permuted coordinates and resistances")
    # -- RecurrenceNetwork
    cases = []
    for (n, d, m) in und:
        for ps in _pspecs(n, thorough, 6):
            cases.append((n, m, 1, ps))
            if n >= 4:
                for var in ("rate", "local", "local-manhattan"):
                    cases.append((n, m, 1, ps, var))
    ctx.explore("recnet", cases, desc="RecurrenceNetwork from a crafted "
                "series with permuted rows; fixed threshold, fixed rate and "
                "fixed local rate (tied distances)")
    # -- VisibilityGraph
    cases = []
    for n in (3, 4, 5):
        for s in _vg_series(n):
            for ps in _pspecs(n, thorough, 2):
                cases.append((s, ps))
    ctx.explore("visgraph", cases, desc="VisibilityGraph: generic measures "
                "on the permuted adjacency")
    # -- scale: fixed larger structured inputs
    mid = mt.SCALE_MID + (mt.SCALE_MID_THOROUGH if thorough else [])
    big = mt.SCALE_BIG + (mt.SCALE_BIG_THOROUGH if thorough else [])
    cases = [("net", nm, 0, 1) for nm in mid]
    cases += [("net", nm, c, 4) for nm in big for c in range(4)]
    cases += [("groups", nm, 0, 1) for nm in mid
              if not mt.scale_graph(nm)[2] and mt.scale_graph(nm)[0] >= 16]
    for kind in ("SpatialNetwork", "SpatialNetwork-big", "GeoNetwork",
                 "ResNetwork"):
        cases.append((kind, "T12+C9ch+2K1", 0, 1))
        cases.append((kind, "grid3x11", 0, 1))
        if kind != "ResNetwork":
            cases += [(kind, nm, c, 2) for nm in big for c in range(2)]
    cases += [("recnet", str(k), c, 4)
              for k in ((150, 300) if thorough else (150,))
              for c in range(4)]
    ctx.explore("scale", cases, chunk=1, desc="fixed larger structured "
                "inputs: components of 9/12/15/23 nodes with interleaved "
                "labels and isolated nodes, connected bipartite N>=21, hub "
                "rings N=150/209(/300), dense directed N=24, coordinates "
                "> 1e5, 150(/300) state vectors; a dozen fixed permutations")
    ctx.notes["scale_inputs"] = {"mid": mid, "big": big,
                                 "permutations_per_input": 12}
    classes = _all_classes()
    cover, uncl, denied = {}, [], []
    for cn in ("Network", "InteractingNetworks", "SpatialNetwork",
               "GeoNetwork", "ResNetwork", "RecurrenceNetwork",
               "VisibilityGraph"):
        names = mt.discover(classes[cn])
        cover[cn] = len([1 for (nm, o, r) in names if nm not in mt.DENY and
                         mt.lookup(classes[cn], nm) is not None])
        for (nm, o, r) in names:
            if nm in mt.DENY:
                if "%s.%s" % (o, nm) not in denied:
                    denied.append("%s.%s" % (o, nm))
            elif mt.lookup(classes[cn], nm) is None and \
                    "%s.%s" % (o, nm) not in uncl:
                uncl.append("%s.%s" % (o, nm))
    ctx.notes.update({
        "undirected_nmax": 5, "directed_nmax": 4,
        "permutations": "all n!" if thorough else "all n! for n<=4, "
        "perms_sample(5) on 5 nodes",
        "methods_with_table_entry": cover, "unclassified": uncl,
        "denied": denied})
    ctx.assumptions += [
        "permutation convention of permuted_copy: new node k = old node "
        "perm[k]",
        "permuted_copy does not carry link attributes; they are renumbered "
        "by the check on both objects",
        "eigenvector centralities only on connected undirected graphs "
        "(random ARPACK start vector in a degenerate eigenspace), "
        "tolerance 1e-6",
        "measures flagged 'und' in the table are exercised on undirected "
        "graphs only; the node-group methods of InteractingNetworks are "
        "exercised on undirected networks only (class docstring: 'most "
        "methods only give meaningful results for undirected networks')",
        "RQA line measures and the time-directed visibility measures are "
        "order-dependent by definition and excluded (C08/C14)",
        "a mismatch is discarded as ill-conditioned only if a 1e-11 relative "
        "change of the node weights moves the original object's value "
        "beyond the tolerance"]
