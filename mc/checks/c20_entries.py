"""Entry points for C20: public API calls that reach the compiled kernels,
parametrised by small shapes / dtypes.  Executed inside the sanitiser-
instrumented interpreter (mc/asan_worker.py), one forked child per case.
A Python exception is a pass (the size was rejected); a sanitiser report or a
signal is what the check looks for."""
import ctypes
import os

import numpy as np


def preload():
    import pyunicorn.core  # noqa
    import pyunicorn.climate  # noqa
    import pyunicorn.timeseries  # noqa
    import pyunicorn.funcnet  # noqa
    import pyunicorn.eventseries  # noqa
    import igraph  # noqa
    import scipy.sparse.linalg  # noqa
    import scipy.stats  # noqa


def arr(shape, dtype="float64", order="C", noncontig=False, kind="ramp"):
    shape = tuple(shape)
    n = int(np.prod(shape)) if shape else 1
    if kind == "ramp":
        base = ((np.arange(n) * 7919) % 23) / 7.0 + np.arange(n) * 0.01
    elif kind == "const":
        base = np.ones(n)
    else:
        base = np.sin(np.arange(n) * 1.7) * 3
    a = base.reshape(shape)
    if noncontig and len(shape) == 2:
        big = np.zeros((shape[0], shape[1] * 2))
        big[:, ::2] = a
        a = big[:, ::2]
    a = a.astype(dtype)
    if order == "F" and not noncontig:
        a = np.asfortranarray(a)
    return a


def graph(n, kind):
    A = np.zeros((n, n), dtype=int)
    if kind == "path":
        for i in range(n - 1):
            A[i, i + 1] = A[i + 1, i] = 1
    elif kind == "cycle":
        for i in range(n):
            if n > 2 or i == 0:
                j = (i + 1) % n
                if i != j:
                    A[i, j] = A[j, i] = 1
    elif kind == "complete":
        A = 1 - np.eye(n, dtype=int)
    elif kind == "star":
        for i in range(1, n):
            A[0, i] = A[i, 0] = 1
    elif kind == "empty":
        pass
    elif kind == "forest":
        #  fewer links than nodes: one link, a short path, isolated rest
        for i, j in [(0, 1)] + [(k, k + 1) for k in range(3, 3 + n // 4)]:
            if j < n:
                A[i, j] = A[j, i] = 1
    elif kind == "mixed":
        for i in range(n):
            for j in range(i + 1, n):
                if (i * 3 + j * 5) % 3 != 0:
                    A[i, j] = A[j, i] = 1
    return A


def geogrid(n):
    from pyunicorn.core import GeoGrid
    lat = np.linspace(-80, 85, n) if n else np.array([])
    lon = np.linspace(-170, 175, n) if n else np.array([])
    return GeoGrid(time_seq=np.arange(4), lat_seq=lat, lon_seq=lon,
                   silence_level=3)


def climate_data(T, N, time_cycle=1):
    from pyunicorn.climate import ClimateData
    return ClimateData(observable=arr((T, N), kind="sin"), grid=_cgrid(T, N),
                       time_cycle=time_cycle, silence_level=3)


def _cgrid(T, N):
    from pyunicorn.core import GeoGrid
    return GeoGrid(time_seq=np.arange(T), lat_seq=np.linspace(-60, 60, N),
                   lon_seq=np.linspace(0, 300, N), silence_level=3)


class DrawLimit(Exception):
    pass


class limited_rng:
    """Bound the number of random draws of the rewiring kernels (their retry
    loops never end when no admissible swap exists - C17's business)."""

    def __init__(self, limit=3000):
        self.limit = limit

    def __enter__(self):
        import numpy.random as nr
        import pyunicorn.core._ext.numerics as cn
        self.nr, self.cn = nr, cn
        self.o_random = nr.random
        self.o_randint = getattr(cn, "randint", None)
        count = [0]
        lim = self.limit

        def random(*a, **k):
            count[0] += 1
            if count[0] > lim:
                raise DrawLimit()
            return self.o_random(*a, **k)

        def randint(*a, **k):
            count[0] += 1
            if count[0] > lim:
                raise DrawLimit()
            return self.o_randint(*a, **k)
        nr.random = random
        if self.o_randint is not None:
            cn.randint = randint
        return self

    def __exit__(self, *exc):
        self.nr.random = self.o_random
        if self.o_randint is not None:
            self.cn.randint = self.o_randint
        return False


def call_all(obj, names, *a, **k):
    """Call each method; Python exceptions of one do not stop the others."""
    for nm in names:
        try:
            getattr(obj, nm)(*a, **k)
        except Exception:   # noqa
            pass


# ---------------------------------------------------------------------------


def e_control(p):
    lib = ctypes.CDLL(p["lib"])
    lib.oob_read.restype = ctypes.c_int
    lib.oob_read(int(p.get("n", 4)))


def e_res(p):
    from pyunicorn.core import ResNetwork
    n = p["n"]
    A = graph(n, p["kind"])
    R = A * (1.0 + 0.5 * np.arange(n)[:, None] + 0.5 * np.arange(n)[None, :])
    if p.get("complex"):
        R = R * (1 + 0.5j)
    net = ResNetwork(R.astype(complex if p.get("complex") else float),
                     silence_level=3)
    call_all(net, ["edge_current_flow_betweenness",
                   "average_effective_resistance",
                   "diameter_effective_resistance", "admittive_degree",
                   "average_neighbors_admittive_degree",
                   "local_admittive_clustering",
                   "global_admittive_clustering"])
    for i in range(n):
        call_all(net, ["vertex_current_flow_betweenness",
                       "effective_resistance_closeness_centrality"], i)
    if n:
        call_all(net, ["effective_resistance"], 0, n - 1)


def e_sur_test(p):
    from pyunicorn.timeseries import Surrogates
    N, T = p["N"], p["T"]
    kw = dict(dtype=p.get("dtype", "float64"), order=p.get("order", "C"),
              noncontig=p.get("noncontig", False))
    if p.get("T_first"):
        # a call history in ONE process: the same N (and bins) with a
        # shorter series first (buffers kept between calls must not be
        # reused for a longer one)
        o1 = arr((N, p["T_first"]), **kw)
        s1 = arr((N, p["T_first"]), kind="sin", **kw)
        try:
            if p["which"] == "pearson":
                Surrogates.test_pearson_correlation(o1, s1)
            else:
                Surrogates.test_mutual_information(
                    o1, s1, n_bins=p.get("bins", 4))
        except Exception:   # noqa
            pass
    orig = arr((N, T), **kw)
    sur = arr((p.get("N2", N), p.get("T2", T)), kind="sin", **kw)
    if p["which"] == "pearson":
        Surrogates.test_pearson_correlation(orig, sur)
    else:
        Surrogates.test_mutual_information(orig, sur, n_bins=p.get("bins", 4))


def e_sur_gen(p):
    from pyunicorn.timeseries import Surrogates
    N, T = p["N"], p["T"]
    s = Surrogates(arr((N, T), dtype=p.get("dtype", "float64")),
                   silence_level=3)
    np.random.seed(1)
    call_all(s, ["white_noise_surrogates", "correlated_noise_surrogates",
                 "AAFT_surrogates"])
    call_all(s, ["refined_AAFT_surrogates"], 2)
    try:
        emb = Surrogates.embed_time_series_array(
            s.original_data, p.get("dim", 2), p.get("tau", 1))
    except Exception:   # noqa
        emb = None
    if emb is not None and len(emb):
        # (the embedding attribute is the 3-D array [index, time, dimension];
        # an earlier version of this entry assigned emb[0], on which twins()
        # raises before any kernel is reached - tools/kernel_reach.py)
        for f in (
                lambda: Surrogates.recurrence_plot(
                    emb[0], p.get("thr", 1.0), silence_level=3),
                lambda: setattr(s, "embedding", emb),
                lambda: s.twins(threshold=p.get("thr", 1.0),
                                min_dist=p.get("md", 1)),
                lambda: s.twin_surrogates(p.get("dim", 2), p.get("tau", 1),
                                          p.get("thr", 1.0),
                                          min_dist=p.get("md", 1)),
                lambda: s.twin_surrogates(p.get("dim", 2), p.get("tau", 1),
                                          100.0, min_dist=0)):
            try:
                f()
            except Exception:   # noqa
                pass
    call_all(s, ["normalize_original_data"])


def e_clim_mi(p):
    from pyunicorn.climate import MutualInfoClimateNetwork
    d = climate_data(p["T"], p["N"])
    net = MutualInfoClimateNetwork(d, threshold=0.1, winter_only=False,
                                   silence_level=3)
    net._cython_calculate_mutual_information(
        arr((p["T"], p["N"]), kind="sin"), n_bins=p.get("bins", 4))
    net.mutual_information()


def e_clim_rain(p):
    from pyunicorn.climate import RainfallClimateNetwork
    d = climate_data(p["T"], p["N"])
    net = RainfallClimateNetwork(d, threshold=0.1, silence_level=3,
                                 event_threshold=tuple(p.get("ev", (0, 1))))
    net.similarity_measure()


def e_clim_other(p):
    import pyunicorn.climate as C
    d = climate_data(p["T"], p["N"], time_cycle=p.get("cycle", 1))
    which = p["which"]
    if which == "tsonis":
        C.TsonisClimateNetwork(d, threshold=0.1, winter_only=False,
                               silence_level=3).correlation()
    elif which == "spearman":
        C.SpearmanClimateNetwork(d, threshold=0.1, winter_only=False,
                                 silence_level=3)
    elif which == "partial":
        C.PartialCorrelationClimateNetwork(d, threshold=0.1,
                                           winter_only=False, silence_level=3)
    elif which == "havlin":
        C.HavlinClimateNetwork(d, max_delay=p.get("delay", 1), threshold=0.1,
                               silence_level=3)
    elif which == "hilbert":
        C.HilbertClimateNetwork(d, threshold=0.1, silence_level=3)


RQA = ["diagline_dist", "vertline_dist", "white_vertline_dist",
       "determinism", "laminarity", "average_diaglength", "trapping_time",
       "diag_entropy", "vert_entropy", "white_vert_entropy",
       "max_diaglength", "max_vertlength", "max_white_vertlength",
       "mean_recurrence_time", "recurrence_rate", "rqa_summary",
       "permutation_entropy", "complexity_entropy"]


def _rp_kw(p):
    kw = {}
    mode = p.get("mode", "threshold")
    val = p.get("val", 1.0)
    kw[mode] = val
    if p.get("dim"):
        kw.update(dim=p["dim"], tau=p.get("tau", 1))
    return kw


def e_rp(p):
    from pyunicorn.timeseries import RecurrencePlot
    L, d = p["L"], p.get("d", 1)
    ts = arr((L, d), kind="sin") if d > 1 else arr((L,), kind="sin")
    if p.get("nan") and L:
        ts = ts.copy()
        ts.flat[0] = np.nan
    rp = RecurrencePlot(ts, metric=p.get("metric", "supremum"),
                        missing_values=bool(p.get("nan")),
                        sparse_rqa=bool(p.get("sparse")), silence_level=3,
                        **_rp_kw(p))
    call_all(rp, RQA)
    call_all(rp, ["recurrence_probability"], p.get("lag", 1))
    np.random.seed(2)
    import random
    random.seed(2)
    call_all(rp, ["twins"], p.get("md", 1))
    call_all(rp, ["twin_surrogates"], 1, p.get("md", 1))
    call_all(rp, ["resample_diagline_dist", "resample_vertline_dist"], 3)


def e_rp_static(p):
    from pyunicorn.timeseries import RecurrencePlot
    ts = arr((p["L"], 1), kind="sin")
    try:
        emb = RecurrencePlot.embed_time_series(ts, p["dim"], p["tau"])
    except Exception:   # noqa
        emb = None
    if emb is not None:
        np.random.seed(3)
        for m in ("manhattan", "euclidean", "supremum"):
            try:
                RecurrencePlot.bootstrap_distance_matrix(emb, m, p.get("M", 3))
            except Exception:   # noqa
                pass
    try:
        RecurrencePlot.legendre_coordinates(ts[:, 0], dim=p["dim"], t=None,
                                            p=None, tau_w=max(1, p["tau"]))
    except Exception:   # noqa
        pass


def e_crp(p):
    from pyunicorn.timeseries import CrossRecurrencePlot
    d = p.get("d")          # multi-dimensional series [time, component]
    x = arr((p["Lx"],) + ((d,) if d else ()), kind="sin")
    y = arr((p["Ly"],) + ((d,) if d else ()), kind="ramp")
    crp = CrossRecurrencePlot(x, y, metric=p.get("metric", "supremum"),
                              silence_level=3, **_rp_kw(p))
    call_all(crp, ["distance_matrix"], p.get("metric", "supremum"))
    call_all(crp, RQA + ["cross_recurrence_rate", "balance"])


def e_jrp(p):
    from pyunicorn.timeseries import JointRecurrencePlot, \
        JointRecurrenceNetwork
    x = arr((p["L"],), kind="sin")
    y = arr((p["L"],), kind="ramp")
    mode = p.get("mode", "threshold")
    kw = {mode: (p.get("val", 1.0), p.get("val", 1.0))}
    jrp = JointRecurrencePlot(x, y, lag=p.get("lag", 0), silence_level=3,
                              **kw)
    call_all(jrp, RQA)
    jrn = JointRecurrenceNetwork(x, y, lag=p.get("lag", 0), silence_level=3,
                                 **kw)
    call_all(jrn, ["degree", "local_clustering", "transitivity"])


def e_isrn(p):
    from pyunicorn.timeseries import InterSystemRecurrenceNetwork
    d = p.get("d")
    x = arr((p["Lx"],) + ((d,) if d else ()), kind="sin")
    y = arr((p["Ly"],) + ((d,) if d else ()), kind="ramp")
    mode = p.get("mode", "threshold")
    kw = {mode: (p.get("val", 1.0),) * 3}
    if p.get("dim"):
        kw.update(dim=p["dim"], tau=(p.get("tau", 1), p.get("tau2", 1)))
    net = InterSystemRecurrenceNetwork(x, y, metric=p.get("metric",
                                                          "supremum"),
                                       silence_level=3, **kw)
    call_all(net, ["cross_recurrence_rate", "cross_global_clustering_xy",
                   "cross_global_clustering_yx", "cross_transitivity_xy",
                   "cross_transitivity_yx", "internal_recurrence_rates"])


def e_rn(p):
    from pyunicorn.timeseries import RecurrenceNetwork
    L = p["L"]
    ts = arr((L,), kind="sin")
    rn = RecurrenceNetwork(ts, metric=p.get("metric", "supremum"),
                           silence_level=3, **_rp_kw(p))
    call_all(rn, ["transitivity", "local_clustering",
                  "transitivity_dim_single_scale",
                  "local_clustering_dim_single_scale", "degree",
                  "betweenness", "average_path_length"])


def e_vg(p):
    from pyunicorn.timeseries import VisibilityGraph
    L = p["L"]
    ts = arr((L,), kind="sin")
    if p.get("nan") and L:
        ts[L // 2] = np.nan
    vg = VisibilityGraph(ts, missing_values=bool(p.get("nan")),
                         horizontal=bool(p.get("horizontal")),
                         silence_level=3)
    call_all(vg, ["retarded_degree", "advanced_degree",
                  "retarded_local_clustering", "advanced_local_clustering",
                  "retarded_closeness", "advanced_closeness",
                  "retarded_betweenness", "advanced_betweenness",
                  "trans_betweenness", "boundary_corrected_degree",
                  "boundary_corrected_closeness", "visibility_relations",
                  "visibility_relations_horizontal"])
    for i in range(L):
        call_all(vg, ["visibility_single"], i)


def e_coupling(p):
    from pyunicorn.funcnet import CouplingAnalysis
    T, N = p["T"], p["N"]
    ca = CouplingAnalysis(arr((T, N), kind="sin",
                              dtype=p.get("dtype", "float64")),
                          silence_level=3)
    np.random.seed(4)
    which = p["which"]
    tm = p.get("tau_max", 0)
    if which == "cc":
        for lm in ("max", "all"):
            try:
                r = ca.cross_correlation(tau_max=tm, lag_mode=lm)
                if lm == "max":
                    ca.symmetrize_by_absmax(r[0], r[1])
            except Exception:   # noqa
                continue
            if lm != "max":
                continue
            #  caller-supplied matrices smaller than N x N (a row short, a
            #  column short, a node subset): rejecting them is fine, reading
            #  or writing behind them is not
            for cut in (lambda m: m[:-1], lambda m: m[:, :-1],
                        lambda m: m[:-1, :-1], lambda m: m[:1, :1]):
                for which_small in (0, 1, 2):
                    S = np.ascontiguousarray(
                        cut(r[0]) if which_small != 1 else r[0]).copy()
                    L = np.ascontiguousarray(
                        cut(r[1]) if which_small != 0 else r[1]).copy()
                    try:
                        ca.symmetrize_by_absmax(S, L)
                    except Exception:   # noqa
                        pass
    elif which == "mi":
        for lm in ("max", "all"):
            try:
                ca.mutual_information(tau_max=tm, estimator=p["est"],
                                      knn=p.get("knn", 2),
                                      bins=p.get("bins", 2), lag_mode=lm)
            except Exception:   # noqa
                pass
    else:
        for lm in ("max", "all"):
            for cm in ("ity", "mit"):
                try:
                    ca.information_transfer(
                        tau_max=tm, estimator=p["est"], knn=p.get("knn", 2),
                        past=p.get("past", 1), cond_mode=cm, lag_mode=lm)
                except Exception:   # noqa
                    pass


NET_Q = ["degree", "local_clustering", "transitivity", "global_clustering",
         "betweenness", "closeness", "path_lengths", "average_path_length",
         "nsi_betweenness", "nsi_degree", "nsi_local_clustering",
         "nsi_transitivity", "nsi_closeness", "nsi_harmonic_closeness",
         "nsi_exponential_closeness", "nsi_average_path_length",
         "nsi_global_efficiency", "nsi_twinness", "nsi_local_soffer_clustering",
         "newman_betweenness", "nsi_newman_betweenness",
         "nsi_arenas_betweenness", "arenas_betweenness", "matching_index",
         "local_vulnerability", "coreness", "assortativity",
         "average_neighbors_degree", "max_neighbors_degree",
         "nsi_average_neighbors_degree", "nsi_max_neighbors_degree",
         "local_cyclemotif_clustering", "local_midmotif_clustering",
         "local_inmotif_clustering", "local_outmotif_clustering",
         "nsi_local_cyclemotif_clustering", "nsi_local_midmotif_clustering",
         "nsi_local_inmotif_clustering", "nsi_local_outmotif_clustering",
         "link_betweenness", "edge_betweenness", "global_efficiency",
         "degree_distribution", "degree_cdf", "nsi_degree_histogram",
         "nsi_degree_cumulative_histogram", "laplacian", "nsi_laplacian",
         "spreading", "nsi_spreading", "msf_synchronizability",
         "eigenvector_centrality", "nsi_eigenvector_centrality", "pagerank",
         "interregional_betweenness", "diameter", "bildegree",
         "nsi_bildegree", "undirected_adjacency", "edge_list", "copy",
         "undirected_copy", "splitted_copy"]


def e_network(p):
    from pyunicorn.core import Network
    n = p["n"]
    A = graph(n, p["kind"])
    if p.get("directed"):
        A = np.triu(A)
    net = Network(adjacency=A.astype(p.get("dtype", "int64")),
                  directed=bool(p.get("directed")),
                  node_weights=None if not p.get("w") else
                  (np.arange(n) + 1.0), silence_level=3)
    call_all(net, NET_Q)
    for o in (3, 4, 5):
        call_all(net, ["local_cliquishness", "higher_order_transitivity"], o)
    import random
    random.seed(5)
    call_all(net, ["randomly_rewire"], 2)
    call_all(net, NET_Q[:6])


def e_models(p):
    from pyunicorn.core import Network
    import random
    random.seed(6)
    np.random.seed(6)
    n = p["n"]
    for f in (lambda: Network.Model("ErdosRenyi", n_nodes=n,
                                    link_probability=0.5, silence_level=3),
              lambda: Network.Model("ErdosRenyi", n_nodes=n, n_links=n,
                                    silence_level=3),
              lambda: Network.Model("BarabasiAlbert", n_nodes=n,
                                    n_links_each=p.get("m", 1),
                                    silence_level=3),
              lambda: Network.Model("BarabasiAlbert_igraph", n_nodes=n,
                                    n_links_each=p.get("m", 1),
                                    silence_level=3),
              lambda: Network.Model("ConfigurationModel",
                                    degree=[min(2, max(n - 1, 0))] * n,
                                    silence_level=3),
              lambda: Network.Model("WattsStrogatz", N=n, k=2, p=0.3,
                                    silence_level=3),
              lambda: Network.GrowWeights(n_nodes=n, n_initials=p.get("m", 1),
                                          exponent=1., mode="exp",
                                          split_prob=.5, split_weight=.5,
                                          beta=1.0, n_increases=3)):
        try:
            f()
        except Exception:   # noqa
            pass


def e_interacting(p):
    from pyunicorn.core import InteractingNetworks
    n = p["n"]
    A = graph(n, p["kind"])
    net = InteractingNetworks(adjacency=A, directed=False,
                              node_weights=np.arange(n) + 1.0,
                              silence_level=3)
    k = p.get("k", n // 2)
    L1, L2 = list(range(k)), list(range(k, n))
    for nm in dir(net):
        if nm.startswith(("cross_", "nsi_cross_", "total_cross",
                          "number_cross", "average_cross", "local_efficiency",
                          "global_efficiency")) and callable(getattr(net, nm)):
            if "attribute" in nm:
                continue
            try:
                getattr(net, nm)(L1, L2)
            except Exception:   # noqa
                pass
        if nm.startswith(("internal_", "nsi_internal_", "number_internal",
                          "subnetwork")) and callable(getattr(net, nm)):
            if "attribute" in nm:
                continue
            try:
                getattr(net, nm)(L1)
            except Exception:   # noqa
                pass
    np.random.seed(7)
    import random
    random.seed(7)
    C = A[np.ix_(L1, L2)] if L1 and L2 else np.zeros((0, 0))
    # the rewiring retries for ever when no admissible swap exists (that is
    # C17's business): only call it where two cross links can be swapped
    can_swap = C.sum() >= 2 and (C == 0).sum() >= 2 and min(C.shape) >= 2
    for f in ((lambda: _lim(lambda: InteractingNetworks.RandomlyRewireCrossLinks(
            net, L1, L2, swaps=p.get("swaps", 0.5)))) if can_swap
            else (lambda: None),
            lambda: InteractingNetworks.RandomlySetCrossLinks(
                net, L1, L2, cross_link_density=0.5),
            lambda: InteractingNetworks.RandomlySetCrossLinks(
                net, L1, L2, number_cross_links=p.get("ncl", 1)),
            lambda: InteractingNetworks.RandomlySetCrossLinks_sparse(
                net, L1, L2, cross_link_density=0.5)):
        try:
            f()
        except Exception:   # noqa
            pass


def e_spatial(p):
    from pyunicorn.core import SpatialNetwork, GeoNetwork, Grid
    n = p["n"]
    A = graph(n, p["kind"])
    grid = Grid(time_seq=np.arange(3),
                space_seq=arr((p.get("dims", 2), n), kind="sin"),
                silence_level=3)
    net = SpatialNetwork(grid=grid, adjacency=A, silence_level=3)
    call_all(net, ["average_link_distance", "inaverage_link_distance",
                   "outaverage_link_distance", "max_link_distance",
                   "distance_weighted_closeness",
                   "average_distance_weighted_path_length",
                   "local_distance_weighted_vulnerability"])
    call_all(net, ["link_distance_distribution"], 3)
    np.random.seed(8)
    import random
    random.seed(8)
    D = grid.distance()
    for g in ("I", "II", "III"):
        if A.sum() < 4 or n < 4:
            break    # no two links to swap: the kernel would retry for ever
        try:
            _lim(lambda: getattr(net, "randomly_rewire_geomodel_" + g)(
                distance_matrix=D, iterations=p.get("it", 2),
                inaccuracy=p.get("eps", 1e9)))
        except Exception:   # noqa
            pass
    call_all(net, ["set_random_links_by_distance"], 0., -0.5)
    gnet = GeoNetwork(grid=geogrid(n), adjacency=graph(n, p["kind"]),
                      silence_level=3)
    call_all(gnet, ["area_weighted_connectivity",
                    "inarea_weighted_connectivity",
                    "outarea_weighted_connectivity", "total_link_distance",
                    "intotal_link_distance", "outtotal_link_distance",
                    "connectivity_weighted_distance",
                    "inconnectivity_weighted_distance",
                    "outconnectivity_weighted_distance",
                    "local_geographical_clustering",
                    "average_neighbor_area_weighted_connectivity",
                    "max_neighbor_area_weighted_connectivity",
                    "max_link_distance", "average_link_distance"])
    call_all(gnet, ["area_weighted_connectivity_distribution",
                    "area_weighted_connectivity_cumulative_distribution",
                    "link_distance_distribution"], 3)
    if A.sum() >= 4 and n >= 4:
        try:
            _lim(lambda: gnet.randomly_rewire_geomodel_I(
                gnet.grid.angular_distance(), 2, 1e9))
        except Exception:   # noqa
            pass


def e_grid(p):
    from pyunicorn.core import Grid, GeoGrid
    n, d = p["n"], p.get("dims", 2)
    g = Grid(time_seq=np.arange(p.get("T", 3)),
             space_seq=arr((d, n), kind="sin", dtype=p.get("dtype",
                                                           "float64")),
             silence_level=3)
    call_all(g, ["distance", "euclidean_distance", "boundaries", "grid",
                 "grid_size"])
    call_all(g, ["geometric_distance_distribution"], 3)
    try:
        g.node_number(tuple([0.1] * d))
    except Exception:   # noqa
        pass
    gg = geogrid(n)
    call_all(gg, ["distance", "angular_distance", "cos_lat", "sin_lat",
                  "cos_lon", "sin_lon", "boundaries", "grid"])
    call_all(gg, ["geometric_distance_distribution"], 3)
    try:
        gg.node_number(10., 20.)
    except Exception:   # noqa
        pass
    try:
        Grid.RegularGrid(np.arange(2), (np.arange(p.get("a", 2)) * 1.0,
                                        np.arange(p.get("b", 2)) * 1.0),
                         silence_level=3)
        GeoGrid.RegularGrid(np.arange(2), (np.arange(p.get("a", 2)) * 1.0,
                                           np.arange(p.get("b", 2)) * 1.0),
                            silence_level=3)
    except Exception:   # noqa
        pass


def e_data(p):
    from pyunicorn.core import Data
    T, N = p["T"], p["N"]
    d = Data(observable=arr((T, N), kind="sin"), grid=_cgrid(T, N),
             silence_level=3)
    a = arr((T, N), kind="sin")
    for f in (lambda: Data.normalize_time_series_array(a),
              lambda: Data.next_power_2(T), lambda: Data.zero_pad_data(a),
              lambda: Data.cos_window(a, 0.3), lambda: d.observable()):
        try:
            f()
        except Exception:   # noqa
            pass


def e_mpi_chunks(p):
    """The chunk kernels of the distributed betweenness measures, called on
    every contiguous chunking of the node range exactly as the MPI master
    cuts it (row blocks with start > 0) - here under the sanitiser."""
    from . import c19
    c19.fam_chunks([p["n"], p["mask"], p["wk"]])


def _lim(f):
    with limited_rng():
        return f()


ENTRIES = {k[2:]: v for k, v in list(globals().items())
           if k.startswith("e_") and callable(v)}


def run_case(case):
    name, params = case
    ENTRIES[name](params)
