"""C01  Results always reflect the object's current state (cache coherence).

History BFS on real objects with a twin oracle (DESIGN.md section 7/C01):
for every memoising class (mc/drivers.py), every initial model and EVERY
sequence of public mutators up to depth d

  hist_all   populate every query -> mutator -> ... -> every query on the
             object, then every query on a freshly constructed twin of the
             reference-model state the history leads to; all must agree
  hist_one   the same for each single query in isolation (q, mutators, q):
             a side-effecting sibling query cannot mask a stale entry

A state is the event history that reaches it; histories are never merged.
"""
import hashlib
import itertools
import json

from ..core import V
from ..compare import same_outcome, brief, outcome
from .. import drivers as D

LEVEL = "model_checking"


def _cache_hits(cls):
    tot = 0
    for name in dir(cls):
        m = getattr(cls, name, None)
        ci = getattr(m, "cache_info", None)
        if ci is not None:
            try:
                tot += ci().hits
            except Exception:   # noqa
                pass
    return tot


def _mkey(spec):
    return str(spec[0])


def _replay_history(drv, model, hist, populate, single=None):
    """Construct, (populate, mutate)*, returning (obj, final model) or
    (None, None) when a step is outside the documented domain."""
    obj = drv.construct(model)
    for spec in hist:
        if populate:
            for q in ([single] if single is not None else drv.queries(model)):
                if drv.admits(model, q):
                    outcome(drv.call, obj, q)
        try:
            model = drv.apply(obj, model, spec)
        except Exception:   # noqa  a mutator that raises on this input is
            return None, None    # another property's business (C07/C17)
        if model is None:
            return None, None
    return obj, model


def _compare(drv, obj, model, qs, hist, viol, tag):
    cls = type(obj)
    h0 = _cache_hits(cls)
    got = [outcome(drv.call, obj, q) for q in qs]
    hits = _cache_hits(cls) - h0
    # the memo of a method is shared by all instances of a class: empty it
    # before the twin is evaluated, so that the twin can never be served an
    # entry that belongs to the object
    drv.clear_caches(obj)
    try:
        twin = drv.construct(model)
    except Exception as ex:   # noqa
        viol.append(V("%s:twin-construction-raises" % drv.name,
                      "a fresh object with the current inputs cannot be "
                      "constructed after history %s" % json.dumps(hist),
                      repr(ex), "constructible"))
        return hits
    if hist:
        pc = drv.primary_check(obj, twin, model, hist)
        if pc is not None:
            viol.append(V("%s.%s" % (drv.name, pc[0]),
                          "%s (history %s)" % (pc[1], json.dumps(hist)),
                          brief(("ok", pc[2])), brief(("ok", pc[3]))))
            return hits
    exp = [outcome(drv.call, twin, q) for q in qs]
    last = _mkey(hist[-1]) if hist else "construct"
    for q, g, e in zip(qs, got, exp):
        if not same_outcome(g, e, **drv.tol):
            viol.append(V(
                "%s.%s:stale-after:%s" % (drv.name, D.qpattern(q), last),
                "%s after history %s differs from a freshly constructed "
                "object with the same current inputs (%s)" % (
                    D.qlabel(q), json.dumps(hist), tag),
                brief(g), brief(e)))
    return hits


def fam_hist_all(case):
    dname, mi, hist = case
    drv = D.DRIVERS[dname]
    model0 = drv.models("thorough")[mi]
    obj, model = _replay_history(drv, model0, hist, populate=True)
    if obj is None:
        return {"excluded": {"mutator meaning undocumented in this state": 1},
                "trivial": True, "evals": 0}
    viol = []
    qs = drv.queries(model)
    hits = _compare(drv, obj, model, qs, hist, viol, "ALL")
    mh = hashlib.sha1(json.dumps(model, sort_keys=True, default=str)
                      .encode()).hexdigest()[:12]
    return {"viol": viol, "evals": 2 * len(qs), "sig": (dname, mh),
            "trivial": not hist, "states": 1, "transitions": len(hist),
            "traces": 1, "stats": {"hits_after_mutation": hits,
                                   "queries_compared": len(qs)}}


def fam_hist_one(case):
    dname, mi, hist = case
    drv = D.DRIVERS[dname]
    model0 = drv.models("thorough")[mi]
    viol, ev, hits, excl = [], 0, 0, 0
    final = None
    for q in drv.queries(model0):
        obj, model = _replay_history(drv, model0, hist, populate=True,
                                     single=q)
        if obj is None:
            excl += 1
            continue
        if not drv.admits(model, q):
            continue
        final = model
        hits += _compare(drv, obj, model, [q], hist, viol, "ONE")
        ev += 2
    mh = hashlib.sha1(json.dumps(final, sort_keys=True, default=str)
                      .encode()).hexdigest()[:12]
    return {"viol": viol, "evals": ev, "sig": (dname, mh, "one"),
            "trivial": not hist, "states": 1, "transitions": len(hist),
            "traces": 1, "stats": {"hits_after_mutation": hits},
            "excluded": {"mutator meaning undocumented": excl} if excl else {}}


FAMILIES = {"hist_all": fam_hist_all, "hist_one": fam_hist_one}


def histories(drv, model0, depth):
    """All mutator sequences up to `depth` (BFS order).  The menu of the next
    mutator depends on the model state, which is tracked symbolically through
    drv.apply on a throw-away object."""
    out = [[]]
    frontier = [([], model0)]
    for _ in range(depth):
        nxt = []
        for hist, model in frontier:
            for label, spec in drv.mutators(model):
                obj = drv.construct(model)
                try:
                    m2 = drv.apply(obj, model, spec)
                except Exception:   # noqa
                    m2 = None
                h2 = hist + [spec]
                out.append(h2)
                if m2 is not None:
                    nxt.append((h2, m2))
        frontier = nxt
    return out


def run(ctx):
    thorough = ctx.tier == "thorough"
    d_all = 3 if thorough else 2
    d_one = 2 if thorough else 1
    ctx.rule = (
        "every sequence of public mutators up to depth %d (mode ALL: all "
        "queries populated before each mutator) and up to depth %d (mode "
        "ONE: each query in isolation), for every class driver and initial "
        "model; every query of the object is compared with a freshly "
        "constructed twin of the reference-model state.  A history is "
        "non-trivial when it contains a mutator; distinct = distinct "
        "(class, final reference-model state)." % (d_all, d_one))
    import pyunicorn  # noqa  (mirror already on sys.path)
    only = [x for x in (ctx_env("VERIF_C01_CLASSES") or "").split(",") if x]
    nq = {}
    for dname, drv in D.DRIVERS.items():
        if (only and dname not in only) or getattr(drv, "c06_only", False):
            continue
        models = drv.models(ctx.tier)
        call, cone = [], []
        for mi, model0 in enumerate(models):
            nq[dname] = len(drv.queries(model0))
            da = max(min(d_all, getattr(drv, "max_depth", d_all)),
                     getattr(drv, "min_depth", 0))
            for h in histories(drv, model0, da):
                call.append([dname, mi, h])
            for h in histories(drv, model0, min(d_one, da)):
                if h:
                    cone.append([dname, mi, h])
        ctx.explore("hist_all", call, chunk=4,
                    desc="ALL-mode histories (%s)" % dname)
        ctx.explore("hist_one", cone, chunk=2,
                    desc="ONE-mode histories (%s)" % dname)
    ctx.notes.update({"depth_all": d_all, "depth_one": d_one,
                      "queries_per_class": nq})
    if ctx.stats.get("hits_after_mutation", 0) == 0:
        raise RuntimeError("C01 self-test failed: no memo hit was observed "
                           "after any mutation (vacuous run)")
    ctx.assumptions += [
        "the twin is built from the reference-model state that each mutator "
        "means by its documentation; combinations whose meaning is "
        "undocumented (link attributes after a rewiring) are excluded",
        "random queries are evaluated under identically reseeded numpy/"
        "python generators on object and twin",
        "eigenvector-type centralities only on connected undirected inputs "
        "(ARPACK returns an arbitrary vector of a degenerate eigenspace)"]


def ctx_env(name):
    import os
    return os.environ.get(name)
