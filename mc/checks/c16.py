"""C16  Event synchronisation / coincidence follow their counting rules.

Bounded-exhaustive enumeration on the real ``EventSeries`` code:
  pairs    every ordered pair of binary sequences of length 1..T  x  taumax
           in {1, 2, inf}  x  lag in {0, 1}  x  timestamps in {indices, a
           dyadic non-uniform increasing set}: ES and ECA (static methods and
           the three ECA window types of the instance path) against the
           Fraction transcription of the counting rules, range [0,1], exchange
           of the two series, common time shift, time scaling by 4 and 1/4
           (ES, taumax = inf); pairs of length <= 5, matrices whose columns
           all have >= 3 events and the scale series also by the exact dyadic
           factors 2^-40, 2^-30, 2^-20, 2^20, 2^30 (ES with taumax = inf; ECA
           with window and lag rescaled alike)
  matrix   every 3-column event matrix of length 5  x  taumax  x  lag  x
           timestamps, and every 2-column matrix of length 7 (taumax 1, 2):
           event_series_analysis under every symmetrisation option against
           the pairwise values
  thresh   every data array (4,2) over {0,1,2}  x  method  x  quantile/value
           menu  x  threshold type: make_event_matrix (static and through the
           constructor) marks exactly x > threshold / x < threshold
  scale    beyond the exhaustive bound: four structured event series (regular,
           drifting regular, clustered, pseudo-random; 10-40 events) of 60,
           150, 257, 300 samples (thorough also 200, 513)  x  timestamps
           {indices, 1.9e6 + 6k, the same with dyadic jitter}  x  taumax {1, 3
           sampling steps, inf}  x  lag {0, 1, 1.5 steps}: every pair through
           the pairwise functions and the whole matrix through
           event_series_analysis, same oracles and relations
"""
import warnings

import numpy as np

from ..core import V
from ..compare import equal, F32, F64
from ..refmodel import eventsync as ref

LEVEL = "exploration"

# dyadic, strictly increasing, non-uniform (gaps .5 1.25 .75 2 .25 1.5 1)
TS_NONUNI = [0.0, 0.5, 1.75, 2.5, 4.5, 4.75, 6.25, 7.25]
TAUMAX = [1, 2, None, 0]       # None = unbounded; 0 = instantaneous only
LAGS = [0, 1]
SHIFT = 2.5
SCALES = [4.0, 0.25]
# exact dyadic factors: very fine and very coarse time axes (k * 2**-40 is
# exact in double precision)
FINE_SCALES = [2.0 ** -40, 2.0 ** -30, 2.0 ** -20, 2.0 ** 20, 2.0 ** 30]
WINDOWS = ["advanced", "retarded", "symmetric"]
SYM_ES = ["directed", "symmetric", "antisym", "mean", "max", "min"]
SYM_ECA = ["directed", "mean", "max", "min"]
FINE_TMAX = 5      # pairs up to this length get the fine/coarse rescalings


def worker_init():
    warnings.simplefilter("ignore")
    np.seterr(all="ignore")


def _ES():
    from pyunicorn.eventseries import EventSeries
    return EventSeries


def _bits(b, T):
    return [b >> i & 1 for i in range(T)]


def _ts(kind, T):
    return list(range(T)) if kind == "idx" else TS_NONUNI[:T]


def _tm(taumax):
    return np.inf if taumax is None else taumax


def _cls(lag, taumax):
    return "lag%s0" % ("!=" if lag else "=")


def _call(f, *a, **k):
    try:
        return "ok", f(*a, **k)
    except Exception as e:   # noqa
        return "exc", "%s: %s" % (type(e).__name__, str(e)[:100])


def _close(a, b, tol):
    return equal(a, b, **tol)


def _pair_config(ES, x, y, xa, ya, ts, tsa, kind, taumax, lag, viol, ex,
                 stats, sig, fine=False):
    """One configuration of one pair of series: ES and ECA (static and
    instance path) against the counting rules plus the relations.
    Returns the number of library evaluations."""
    ev = 0
    c = _cls(lag, taumax)
    # ---------------- event synchronisation (static) ---------
    want = ref.es_values(x, y, ts, taumax, lag)
    kw = dict(taumax=_tm(taumax), lag=float(lag))
    if kind == "idx":
        st, got = _call(ES.event_synchronization, xa, ya, **kw)
    else:
        st, got = _call(ES.event_synchronization, xa, ya,
                        ts1=tsa, ts2=tsa, **kw)
    ev += 1
    if want is None:
        ex("ES undefined: a series has no interior event "
           "(fewer than 3 events)")
        sig.append(None)
    elif st == "exc":
        viol.append(V("EventSeries.event_synchronization:raises:"
                      + c, got, got, want))
    else:
        got = (float(got[0]), float(got[1]))
        sig.append(want)
        stats["es_pairs_judged"] += 1
        stats["es_nonzero"] += bool(want[0] or want[1])
        if not _close(got, want, F64):
            viol.append(V(
                "EventSeries.event_synchronization:value:" + c,
                "ts=%s taumax=%s lag=%s: differs from the counting"
                " rule" % (kind, taumax, lag), got, want))
        if not all(-1e-12 <= g <= 1 + 1e-12 for g in got):
            viol.append(V(
                "EventSeries.event_synchronization:range:" + c,
                "ts=%s taumax=%s lag=%s: outside [0,1]" % (
                    kind, taumax, lag), got, "in [0,1]"))
        # exchange of the two series (the lag belongs to the
        # second series, so it changes sign with the exchange)
        kw2 = dict(taumax=_tm(taumax), lag=-float(lag))
        st2, sw = _call(ES.event_synchronization, ya, xa,
                        ts1=tsa, ts2=tsa, **kw2)
        ev += 1
        if st2 == "exc" or not _close(
                (float(sw[1]), float(sw[0])), got, F64):
            viol.append(V(
                "EventSeries.event_synchronization:swap:" + c,
                "ts=%s taumax=%s lag=%s: ES(y,x) is not the "
                "exchanged ES(x,y)" % (kind, taumax, lag),
                sw, (got[1], got[0])))
        # common time shift
        st3, sh = _call(ES.event_synchronization, xa, ya,
                        ts1=tsa + SHIFT, ts2=tsa + SHIFT, **kw)
        ev += 1
        if st3 == "exc" or not _close(
                (float(sh[0]), float(sh[1])), got, F64):
            viol.append(V(
                "EventSeries.event_synchronization:shift:" + c,
                "ts=%s taumax=%s lag=%s: changes under a common "
                "time shift" % (kind, taumax, lag), sh, got))
        if kind == "idx":
            # explicit index timestamps = implicit ones
            st4, e2 = _call(ES.event_synchronization, xa, ya,
                            ts1=tsa, ts2=tsa, **kw)
            ev += 1
            if st4 == "exc" or not _close(
                    (float(e2[0]), float(e2[1])), got, F64):
                viol.append(V(
                    "EventSeries.event_synchronization:"
                    "timestamps:" + c,
                    "explicit timestamps 0..T-1 differ from the "
                    "default", e2, got))
        if taumax is None:
            for a in SCALES + (FINE_SCALES if fine else []):
                st5, sc = _call(
                    ES.event_synchronization, xa, ya,
                    ts1=tsa * a, ts2=tsa * a, taumax=np.inf,
                    lag=float(lag) * a)
                ev += 1
                stats["rescalings_judged"] = stats.get(
                    "rescalings_judged", 0) + 1
                if st5 == "exc" or not _close(
                        (float(sc[0]), float(sc[1])), got, F64):
                    viol.append(V(
                        "EventSeries.event_synchronization:"
                        "scale:" + c,
                        "taumax=inf: changes when time is "
                        "rescaled by %r" % a, sc, got))
                elif not all(-1e-12 <= float(g) <= 1 + 1e-12 for g in sc):
                    viol.append(V(
                        "EventSeries.event_synchronization:range:" + c,
                        "time rescaled by %r: outside [0,1]" % a, sc,
                        "in [0,1]"))
    # ---------------- event coincidence analysis -------------
    if taumax is None:
        ex("ECA with unbounded window (library demands a finite "
           "window)")
        return ev
    want = ref.eca(x, y, ts, taumax, lag)
    if want is None:
        ex("ECA undefined: a series has no events")
        return ev
    if kind == "idx":
        st, got = _call(ES.event_coincidence_analysis, xa, ya,
                        taumax, lag=lag)
    else:
        st, got = _call(ES.event_coincidence_analysis, xa, ya,
                        taumax, ts1=tsa, ts2=tsa, lag=lag)
    ev += 1
    names = ("precursorXY", "triggerXY", "precursorYX",
             "triggerYX")
    if st == "exc":
        viol.append(V("EventSeries.event_coincidence_analysis:"
                      "raises:" + c, got, got, want))
        return ev
    got = [float(g) for g in got]
    for k in range(4):
        if want[k] is None:
            ex("ECA rate undefined: zero denominator (all events "
               "excluded at the boundary)")
            continue
        w = float(want[k])
        stats["eca_rates_judged"] += 1
        stats["eca_rates_nonzero"] += bool(w)
        if not _close(got[k], w, F32):
            viol.append(V(
                "EventSeries.event_coincidence_analysis:value:"
                + c, "%s ts=%s taumax=%s lag=%s" % (
                    names[k], kind, taumax, lag), got[k], w))
        if not -1e-6 <= got[k] <= 1 + 1e-6:
            viol.append(V(
                "EventSeries.event_coincidence_analysis:range:"
                + c, names[k], got[k], "in [0,1]"))
    sig.append(tuple(want))
    # exchange (same lag: the lag separates cause and effect)
    st2, sw = _call(ES.event_coincidence_analysis, ya, xa,
                    taumax, ts1=tsa, ts2=tsa, lag=lag)
    ev += 1
    if st2 == "exc":
        viol.append(V("EventSeries.event_coincidence_analysis:"
                      "swap:" + c, sw, sw, got))
    else:
        sw = [float(g) for g in sw]
        sw = [sw[2], sw[3], sw[0], sw[1]]
        for k in range(4):
            if want[k] is not None and not _close(
                    sw[k], got[k], F32):
                viol.append(V(
                    "EventSeries.event_coincidence_analysis:"
                    "swap:" + c, names[k], sw, got))
                break
    st3, sh = _call(ES.event_coincidence_analysis, xa, ya,
                    taumax, ts1=tsa + SHIFT, ts2=tsa + SHIFT,
                    lag=lag)
    ev += 1
    if st3 == "exc":
        viol.append(V("EventSeries.event_coincidence_analysis:"
                      "shift:" + c, sh, sh, got))
    else:
        sh = [float(g) for g in sh]
        for k in range(4):
            if want[k] is not None and not _close(
                    sh[k], got[k], F32):
                viol.append(V(
                    "EventSeries.event_coincidence_analysis:"
                    "shift:" + c, names[k], sh, got))
                break
    # time rescaling: window and lag scale with the time axis
    for a in (FINE_SCALES if fine else []):
        st8, sc = _call(ES.event_coincidence_analysis, xa, ya, taumax * a,
                        ts1=tsa * a, ts2=tsa * a, lag=lag * a)
        ev += 1
        stats["rescalings_judged"] = stats.get("rescalings_judged", 0) + 1
        if st8 == "exc":
            viol.append(V("EventSeries.event_coincidence_analysis:"
                          "scale:" + c, sc, sc, got))
            continue
        sc = [float(g) for g in sc]
        for k in range(4):
            if want[k] is None:
                continue
            if not _close(sc[k], got[k], F32):
                viol.append(V(
                    "EventSeries.event_coincidence_analysis:scale:" + c,
                    "%s changes when time, window and lag are rescaled by "
                    "%r" % (names[k], a), sc, got))
                break
            if not -1e-6 <= sc[k] <= 1 + 1e-6:
                viol.append(V(
                    "EventSeries.event_coincidence_analysis:range:" + c,
                    "%s, time rescaled by %r" % (names[k], a), sc[k],
                    "in [0,1]"))
                break
    # instance path, the three window types (2-column matrix)
    mat = np.column_stack([xa, ya])
    st6, obj = _call(ES, mat, timestamps=(
        None if kind == "idx" else tsa), taumax=taumax, lag=lag)
    if st6 == "exc":
        ex("constructor rejects matrices that do not contain "
           "both 0 and 1")
        return ev
    for w in WINDOWS:
        wantw = ref.eca_window(x, y, ts, taumax, lag, w)
        st7, G = _call(obj.event_series_analysis, method="ECA",
                       symmetrization="directed", window_type=w)
        ev += 1
        if st7 == "exc":
            viol.append(V(
                "EventSeries.event_series_analysis:raises:ECA-"
                + w, G, G, wantw))
            continue
        for (i, j), wv in (((0, 1), wantw[0]),
                           ((1, 0), wantw[1])):
            if wv is None:
                ex("ECA rate undefined: zero denominator (all "
                   "events excluded at the boundary)")
                continue
            g = float(G[i][j])
            stats["eca_window_rates_judged"] += 1
            if not _close(g, float(wv), F32):
                viol.append(V(
                    "EventSeries.event_series_analysis:value:"
                    "ECA-%s,%s" % (w, c),
                    "entry %s ts=%s taumax=%s lag=%s" % (
                        (i, j), kind, taumax, lag), g, float(wv)))
            if not -1e-6 <= g <= 1 + 1e-6:
                viol.append(V(
                    "EventSeries.event_series_analysis:range:"
                    "ECA-" + w, "", g, "in [0,1]"))
    return ev


def fam_pairs(case):
    T, xb, yb = case
    ES = _ES()
    x, y = _bits(xb, T), _bits(yb, T)
    xa, ya = np.array(x), np.array(y)
    viol, excl, sig = [], {}, []
    stats = {"es_pairs_judged": 0, "es_nonzero": 0, "eca_rates_judged": 0,
             "eca_rates_nonzero": 0, "eca_window_rates_judged": 0}
    ev = 0

    def ex(reason, n=1):
        excl[reason] = excl.get(reason, 0) + n

    for kind in ("idx", "nonuni"):
        ts = _ts(kind, T)
        tsa = np.array(ts, dtype=float)
        for taumax in TAUMAX:
            for lag in LAGS:
                ev += _pair_config(ES, x, y, xa, ya, ts, tsa, kind, taumax,
                                   lag, viol, ex, stats, sig,
                                   fine=(T <= FINE_TMAX))
    nx, ny = sum(x), sum(y)
    return {"viol": viol, "evals": ev, "excluded": excl, "stats": stats,
            "trivial": nx == 0 or ny == 0,
            "sig": str(sig)}


def _matrix_config(ES, mat, cols, ts, kind, taumax, lag, viol, ex, nj, sig,
                   fine=False):
    """One configuration of one event matrix: event_series_analysis under
    every symmetrisation against the pairwise values."""
    N = mat.shape[1]
    ev = 0
    tsa = np.array(ts, dtype=float)
    st, obj = _call(ES, mat.copy(), timestamps=(
        None if kind == "idx" else tsa), taumax=_tm(taumax), lag=lag)
    if st == "exc":
        ex("constructor rejects matrices that do not contain both 0 "
           "and 1")
        return ev
    # ES: entries = pairwise values of the static method
    D = [[0.0] * N for _ in range(N)]
    for i in range(N):
        for j in range(i + 1, N):
            a, b = ES.event_synchronization(
                mat[:, i], mat[:, j], ts1=tsa, ts2=tsa,
                taumax=_tm(taumax), lag=float(lag))
            D[i][j], D[j][i] = float(a), float(b)
    for sym in SYM_ES:
        want = ref.symmetrise(D, sym)
        st, G = _call(obj.event_series_analysis, method="ES",
                      symmetrization=sym)
        ev += 1
        if st == "exc":
            viol.append(V("EventSeries.event_series_analysis:raises:ES-"
                          + sym, G, G, want))
        elif not _close(np.asarray(G, dtype=float), np.array(want), F64):
            viol.append(V(
                "EventSeries.event_series_analysis:value:ES-" + sym,
                "ts=%s taumax=%s lag=%s: matrix is not the pairwise "
                "values under the symmetrisation" % (kind, taumax, lag),
                G, want))
    sig.append(str(D))
    nj[1] += sum(1 for r in D for v in r if v == v and v != 0)
    # time rescaling (window and lag scale with the time axis)
    scaled = []
    for a in (FINE_SCALES if fine else []):
        st, o2 = _call(ES, mat.copy(), timestamps=tsa * a,
                       taumax=_tm(taumax) * a, lag=lag * a)
        if st == "ok":
            scaled.append((a, o2))
    if taumax is None:
        for a, o2 in scaled:
            st, G = _call(o2.event_series_analysis, method="ES",
                          symmetrization="directed")
            ev += 1
            Dn = np.array(D)
            if st == "exc" or not _close(np.asarray(G, dtype=float), Dn, F64):
                viol.append(V(
                    "EventSeries.event_series_analysis:scale:ES",
                    "ts=%s taumax=inf lag=%s: changes when time is rescaled "
                    "by %r" % (kind, lag, a), G, D))
                break
            Gf = np.asarray(G, dtype=float)
            Gf = Gf[np.isfinite(Gf)]
            if Gf.size and (Gf.min() < -1e-12 or Gf.max() > 1 + 1e-12):
                viol.append(V(
                    "EventSeries.event_series_analysis:range:ES",
                    "time rescaled by %r" % a, G, "in [0,1]"))
                break
    if taumax is None:
        st, G = _call(obj.event_series_analysis, method="ECA")
        ex("ECA with unbounded window (library demands a finite "
           "window)")
        return ev
    if any(sum(c) == 0 for c in cols):
        ex("ECA undefined: a series has no events", len(WINDOWS))
        return ev
    for w in WINDOWS:
        E = [[0.0] * N for _ in range(N)]
        for i in range(N):
            for j in range(i + 1, N):
                r = ref.eca_window(cols[i], cols[j], ts, taumax, lag, w)
                E[i][j], E[j][i] = r
        for a, o2 in scaled:
            st, G = _call(o2.event_series_analysis, method="ECA",
                          symmetrization="directed", window_type=w)
            ev += 1
            if st == "exc":
                viol.append(V("EventSeries.event_series_analysis:scale:ECA-"
                              + w, G, G, None))
                break
            bad = None
            for i in range(N):
                for j in range(N):
                    if i != j and E[i][j] is not None:
                        g = float(G[i][j])
                        if not _close(g, float(E[i][j]), F32) or \
                                not -1e-6 <= g <= 1 + 1e-6:
                            bad = bad or (i, j, g, float(E[i][j]))
            if bad:
                viol.append(V(
                    "EventSeries.event_series_analysis:scale:ECA-" + w,
                    "ts=%s taumax=%s lag=%s: entry (%d,%d) changes when "
                    "time, window and lag are rescaled by %r" % (
                        kind, taumax, lag, bad[0], bad[1], a),
                    bad[2], bad[3]))
                break
        for sym in SYM_ECA:
            st, G = _call(obj.event_series_analysis, method="ECA",
                          symmetrization=sym, window_type=w)
            ev += 1
            if st == "exc":
                viol.append(V(
                    "EventSeries.event_series_analysis:raises:ECA-%s-%s"
                    % (w, sym), G, G, None))
                continue
            G = np.asarray(G, dtype=float)
            bad = None
            for i in range(N):
                for j in range(N):
                    if i == j:
                        if G[i][j] != 0:
                            bad = (i, j, G[i][j], 0.0)
                        continue
                    a, b = E[i][j], E[j][i]
                    if a is None or (sym != "directed" and b is None):
                        ex("ECA rate undefined: zero denominator (all "
                           "events excluded at the boundary)")
                        continue
                    a = float(a)
                    b = float(b) if b is not None else 0.0
                    wv = ref.symmetrise([[0.0, a], [b, 0.0]], sym)[0][1]
                    nj[0] += 1
                    if not _close(float(G[i][j]), wv, F32):
                        bad = bad or (i, j, float(G[i][j]), wv)
            if bad:
                viol.append(V(
                    "EventSeries.event_series_analysis:value:ECA-%s-%s"
                    % (w, sym),
                    "ts=%s taumax=%s lag=%s entry (%d,%d)" % (
                        kind, taumax, lag, bad[0], bad[1]),
                    bad[2], bad[3]))
        sig.append(str(E))
    return ev


def fam_matrix(case):
    T, N, bits, configs = case
    ES = _ES()
    mat = np.array([[bits >> (t * N + i) & 1 for i in range(N)]
                    for t in range(T)])
    cols = [list(mat[:, i]) for i in range(N)]
    # rescaling relation on the matrices whose columns all have interior
    # events (>= 3 events each): 16^3 of the 5x3, 99^2 of the 7x2 matrices
    fine = all(sum(c) >= 3 for c in cols)
    viol, excl, sig = [], {}, []
    nj = [0, 0]
    ev = 0

    def ex(reason, n=1):
        excl[reason] = excl.get(reason, 0) + n

    for (kind, taumax, lag) in configs:
        ev += _matrix_config(ES, mat, cols, _ts(kind, T), kind, taumax, lag,
                             viol, ex, nj, sig, fine=fine)
    nev = [sum(c) for c in cols]
    return {"viol": viol, "evals": ev, "excluded": excl,
            "stats": {"matrix_eca_entries_judged": nj[0],
                      "matrix_es_nonzero_pairwise_entries": nj[1]},
            "trivial": min(nev) == 0, "sig": str(sig)}


Q_MENU = [None, 0, 0.25, 0.5, 0.75, 1]
V_MENU = [None, -0.5, 0, 0.5, 1, 1.5, 2, 3]
TYPE_MENU = [None, "above", "below", ["above", "below"], ["below", "above"]]


def fam_thresh(case):
    T, N, code = case[:3]
    # the caller's data in another element type (all values exactly
    # representable), optionally shifted so that negative values occur
    dtype = case[3] if len(case) > 3 else "float64"
    shift = case[4] if len(case) > 4 else 0
    ES = _ES()
    data = np.array([[code // 3 ** (t * N + i) % 3 - shift for i in range(N)]
                     for t in range(T)], dtype=float)
    cols = [[int(v) for v in data[:, i]] for i in range(N)]
    data = data.astype(dtype)
    viol, excl, sig = [], {}, []
    ev = 0

    def ex(reason, n=1):
        excl[reason] = excl.get(reason, 0) + n

    combos = []
    for q in Q_MENU:
        combos.append(("quantile", q))
    combos.append(("quantile", [0.25, 0.75]))
    for v in V_MENU:
        combos.append(("value", v))
    combos.append(("value", [0.5, 1.5]))
    combos.append((["quantile", "value"], [0.75, 1.0]))
    for method, val in combos:
        for ttype in TYPE_MENU:
            want, used = [], []
            oob = False
            for i in range(N):
                m = method if isinstance(method, str) else method[i]
                v = val[i] if isinstance(val, list) else val
                tt = ttype[i] if isinstance(ttype, list) else ttype
                r = ref.threshold_events(cols[i], m, v, tt)
                if r == "out-of-range":
                    oob = True
                    break
                want.append(r[0])
                used.append(r[1])
            if oob:
                ex("value threshold outside the data range (documented "
                   "error)")
                continue
            want = np.array(want).T
            tag = "%s-%s" % (
                method if isinstance(method, str) else "mixed",
                "default-type" if ttype is None else "given-type")
            for path in ("static", "ctor"):
                if path == "static":
                    st, G = _call(ES.make_event_matrix, data.copy(),
                                  threshold_method=method,
                                  threshold_values=val,
                                  threshold_types=ttype)
                else:
                    st, G = _call(ES, data.copy(), threshold_method=method,
                                  threshold_values=val,
                                  threshold_types=ttype)
                    if st == "ok":
                        G = G.get_event_matrix()
                ev += 1
                if st == "exc":
                    viol.append(V("EventSeries.make_event_matrix:raises:"
                                  + tag, "%s %r %r: %s" % (
                                      path, val, ttype, G), G, want))
                    continue
                G = np.asarray(G)
                if G.shape != want.shape or not np.array_equal(G, want):
                    viol.append(V(
                        "EventSeries.make_event_matrix:value:" + tag + (
                            "" if dtype == "float64" else ":" + dtype),
                        "%s method=%r values=%r types=%r: events are not "
                        "exactly the samples beyond the threshold" % (
                            path, method, val, ttype), G, want))
            sig.append(want.tolist())
    return {"viol": viol, "evals": ev, "excluded": excl,
            "trivial": all(len(set(c)) == 1 for c in cols),
            "sig": str(sig)}


# ---------------------------------------------------------------------------
# larger structured inputs (beyond the exhaustive bound)


def scale_matrix(T, dense=0):
    """Four deterministic event series of length T with 10-40 events each:
    regular, regular with another period (drifting against the first),
    clustered (bursts of three) and pseudo-random (fixed LCG).  dense=1:
    about twice as many events."""
    div, ncl = (38, 12) if dense else (20, 6)
    p = max(2 if dense else 3, T // div)
    reg1 = [1 if t % p == 1 else 0 for t in range(T)]
    reg2 = [1 if t % (p + 1) == 0 else 0 for t in range(T)]
    c = T // ncl
    clu = [0] * T
    for k in range(ncl):
        for d in (0, 1, 3):
            if 2 + k * c + d < T:
                clu[2 + k * c + d] = 1
    m = max(3, T // 38) if dense else max(4, T // 25)
    state, rnd = 12345, []
    for t in range(T):
        state = (1103515245 * state + 12345) % (1 << 31)
        rnd.append(1 if (state >> 16) % m == 0 else 0)
    return np.array([reg1, reg2, clu, rnd]).T.copy()


def scale_ts(kind, T):
    """Timestamps: indices; '6-hourly, hours since 1800' (1.9e6 + 6 k); the
    same with a dyadic jitter down to 1/16 (non-uniform, strictly increasing;
    not representable in single precision at this magnitude)."""
    if kind == "idx":
        return [float(k) for k in range(T)]
    if kind == "big":
        return [1.9e6 + 6.0 * k for k in range(T)]
    jit = (0.0, 0.0625, 0.5, 1.0625)
    return [1.9e6 + 6.0 * k + jit[(7 * k) % 4] for k in range(T)]


def fam_scale(case):
    T, dense, kind, part = case
    ES = _ES()
    mat = scale_matrix(T, dense)
    N = mat.shape[1]
    cols = [[int(v) for v in mat[:, i]] for i in range(N)]
    ts = scale_ts(kind, T)
    tsa = np.array(ts, dtype=float)
    step = 1.0 if kind == "idx" else 6.0
    # small windows (one and three sampling steps), unbounded; lags that are
    # and are not multiples of the sampling step
    configs = [(tm, lg) for tm in (step, 3 * step, None)
               for lg in (0.0, step, 1.5 * step)]
    viol, excl, sig = [], {}, []
    stats = {"es_pairs_judged": 0, "es_nonzero": 0, "eca_rates_judged": 0,
             "eca_rates_nonzero": 0, "eca_window_rates_judged": 0}
    nj = [0, 0]
    ev = 0

    def ex(reason, n=1):
        excl[reason] = excl.get(reason, 0) + n

    for (taumax, lag) in configs:
        if part == "matrix":
            ev += _matrix_config(ES, mat, cols, ts, kind, taumax, lag, viol,
                                 ex, nj, sig, fine=True)
        else:
            i, j = part
            ev += _pair_config(ES, cols[i], cols[j], mat[:, i].copy(),
                               mat[:, j].copy(), ts, tsa, kind, taumax, lag,
                               viol, ex, stats, sig, fine=True)
    stats["matrix_eca_entries_judged"] = nj[0]
    stats["matrix_es_nonzero_pairwise_entries"] = nj[1]
    seen, uniq = set(), []
    for v in viol:          # one record per key and case
        if v["key"] not in seen:
            seen.add(v["key"])
            uniq.append(v)
    return {"viol": uniq, "evals": ev, "excluded": excl, "stats": stats,
            "trivial": False, "sig": str(sig)}


FAMILIES = {"pairs": fam_pairs, "matrix": fam_matrix, "thresh": fam_thresh,
            "scale": fam_scale}


def run(ctx):
    thorough = ctx.tier == "thorough"
    Tmax = 8 if thorough else 6
    ctx.rule = (
        "pairs: every ordered pair of 0/1 sequences of length 1..%d x taumax "
        "{1,2,inf} x lag {0,1} x timestamps {indices, %s}; a pair is "
        "non-trivial when both series have events; distinct = distinct "
        "vectors of oracle values over the 12 configurations.  matrix: every "
        "5x3 and 7x2 event matrix x configurations x all symmetrisation "
        "options; "
        "thresh: every (4,2) array over {0,1,2} x threshold menu." % (
            Tmax, TS_NONUNI))
    cases = []
    for T in range(1, Tmax + 1):
        order = sorted(range(1 << T), key=lambda b: (bin(b).count("1"), b))
        for xb in order:
            for yb in order:
                cases.append((T, xb, yb))
    ctx.explore("pairs", cases, desc="all ordered pairs of event sequences")
    if thorough:
        configs = [(k, tm, lg) for k in ("idx", "nonuni") for tm in TAUMAX
                   for lg in LAGS]
    else:
        configs = [("idx", 1, 0), ("idx", None, 0), ("nonuni", 2, 1)]
    order = sorted(range(1 << 15), key=lambda b: (bin(b).count("1"), b))
    ctx.explore("matrix", [(5, 3, b, configs) for b in order],
                desc="all 5x3 event matrices, all symmetrisations")
    # 5 samples cannot make the two directed rates of the *symmetric* ECA
    # window differ; two columns of length 7 can
    order = sorted(range(1 << 14), key=lambda b: (bin(b).count("1"), b))
    ctx.explore("matrix", [(7, 2, b, [("idx", 1, 0), ("nonuni", 2, 0)])
                           for b in order],
                desc="all 7x2 event matrices, all symmetrisations")
    th = [(4, 2, c) for c in range(3 ** 8)]
    step = 1 if thorough else 13
    for dt in ("int64", "int32", "float32"):
        for sh in (0, 1):
            th += [(4, 2, c, dt, sh) for c in range(0, 3 ** 8, step)]
    th += [(4, 2, c, "float64", 1) for c in range(0, 3 ** 8, step)]
    ctx.explore("thresh", th,
                desc="make_event_matrix on all (4,2) arrays over {0,1,2}; "
                "the same as int64/int32/float32 input and shifted to "
                "{-1,0,1}%s" % ("" if thorough else " (every 13th array)"))
    # beyond the exhaustive bound: series of 60-300 (thorough 513) samples,
    # 10-40 events, large time offsets; same oracles
    sT = [60, 150, 257, 300] + ([200, 513] if thorough else [])
    sc = []
    for T in sT:
        for dense in (0, 1):
            for kind in ("idx", "big", "bigjit"):
                sc += [(T, dense, kind, [i, j]) for i in range(4)
                       for j in range(i + 1, 4)]
                sc.append((T, dense, kind, "matrix"))
    ctx.explore("scale", sc, chunk=1, desc="structured event series of "
                "%s samples, 4 patterns, timestamps {indices, 1.9e6+6k, "
                "jittered}, taumax {1,3 steps, inf}, lag {0, 1, 1.5 steps}"
                % sT)
    ctx.notes["scale_T"] = sT
    ctx.notes.update({"pairs_Tmax": Tmax, "matrix_shapes": [[5, 3], [7, 2]],
                      "matrix_configs": len(configs),
                      "thresh_shape": [4, 2]})
    ctx.assumptions += [
        "ES restricted to interior events and normalised by "
        "sqrt((lx-2)(ly-2)); ECA boundary exclusion measured from the first/"
        "last event of the series (library convention, pinned by its tests)",
        "with lag != 0 the matrix applies the lag to the series with the "
        "larger column index (library convention, not judged)",
        "numpy.quantile's default (linear interpolation) is the 'stated "
        "quantile'"]
