"""C09  Similarity networks link exactly the pairs above the threshold.

Bounded-exhaustive exploration of the real ``pyunicorn.climate.ClimateNetwork``
(and of the subclasses that derive the similarity from data) against the
reference model ``refmodel/climnet.py``:

  step   every similarity matrix of the stated families x grid x directed x
         non_local: every threshold of the menu and every requested density as
         a *construction*, then the same values as setter calls on one object
         (a fixed long history), with monotonicity in the threshold
  hist   ALL histories up to the depth bound over {set_threshold(t),
         set_link_density(rho), set_non_local(b)} on a subset of the matrices;
         after every history the object is compared with the reference model
         and with a freshly constructed network with the same parameters
  sub    the data-derived subclasses on tiny ClimateData sets, both
         construction modes, followed by a short setter chain - only the
         thresholding relation on the similarity the object reports

Model-checking accounting: states = distinct (similarity, grid, directed,
threshold, non_local) states of the reference model reachable with the
operation menu (computed on the model), transitions = mutator applications
executed on the implementation, traces = histories executed.
"""
import hashlib

import numpy as np

from ..core import V
from ..refmodel import climnet as M

LEVEL = "model_checking"

ALPHA4 = [-0.8, 0.3, 0.3 + 1e-9, 0.6]     # 0.3 and 0.3+1e-9 tie once stored
ALPHA3 = [-0.8, 0.3, 0.6]
DIAGS = [1.0, 0.0]
DENSITIES = [0.0, 1 / 6, 1 / 3, 1 / 2, 2 / 3, 1.0]
TAU0 = 0.5

# lat, lon in degrees; the first N points are used
GRIDS = {
    "collinear": ([0.0, 0.0, 0.0, 0.0], [0.0, 10.0, 20.0, 35.0]),
    "clustered": ([0.0, 0.0, 0.0, 1.0], [0.0, 1.0, 2.5, 4.0]),
    "antipodal": ([0.0, 0.0, 90.0, -90.0], [0.0, 180.0, 0.0, 0.0]),
}
GRID_NAMES = ["collinear", "clustered", "antipodal"]


# --------------------------------------------------------------------------
# domains


def n_matrices(N, sym, alpha):
    P = N * (N - 1)
    return len(alpha) ** (P // 2 if sym else P)


def matrix(N, sym, code, diag):
    """Matrix number `code` of the family: digits of `code` in base
    len(alphabet) fill the upper triangle (symmetric) or all off-diagonal
    entries row by row."""
    alpha = ALPHA4 if N == 3 else ALPHA3
    b = len(alpha)
    S = [[diag] * N for _ in range(N)]
    if sym:
        pos = [(i, j) for i in range(N) for j in range(i + 1, N)]
    else:
        pos = [(i, j) for i in range(N) for j in range(N) if i != j]
    for (i, j) in pos:
        code, d = divmod(code, b)
        S[i][j] = alpha[d]
        if sym:
            S[j][i] = alpha[d]
    return S


def thresholds_menu(values):
    """Every realised value, the (single precision) midpoints between
    consecutive distinct values, -1 and 2."""
    vals = sorted(set(values))
    out = list(vals)
    for a, b in zip(vals, vals[1:]):
        m = M.f32((a + b) / 2)
        if a < m < b:
            out.append(m)
    out += [-1.0, 2.0]
    return sorted(set(out))


def ops_menu(Sabs):
    vals = [v for row in Sabs for v in row]
    return ([["thr", t] for t in thresholds_menu(vals)] +
            [["dens", r] for r in DENSITIES] +
            [["nl", False], ["nl", True]])


# --------------------------------------------------------------------------
# implementation side


def _grid(name, N, T=2):
    from pyunicorn.core import GeoGrid
    lat, lon = GRIDS[name]
    return GeoGrid(np.arange(float(T)), np.array(lat[:N]), np.array(lon[:N]),
                   silence_level=3)


def _distances(grid, lat, lon, excl):
    """The angular distances *as the library reports them* (their accuracy is
    property C12); a coarse comparison with the float64 great-circle formula
    guards against judging the distance weight on nonsense."""
    D = np.asarray(grid.angular_distance(), dtype=float)
    ref = np.array(M.great_circle(lat, lon))
    if D.shape != ref.shape or not np.all(np.abs(D - ref) <= 2.0 ** -10):
        excl["angular distances off by more than 2^-10 (C12): non-local "
             "cases not judged"] = 1
        return None
    return D.tolist()


def _mk(grid, S, directed, non_local, **mode):
    from pyunicorn.climate import ClimateNetwork
    return ClimateNetwork(grid, np.array(S, dtype=float), non_local=non_local,
                          directed=directed, silence_level=3, **mode)


def _first_per_key(viol):
    """One record per key and case (the first = simplest)."""
    seen, out = set(), []
    for v in viol:
        if v["key"] not in seen:
            seen.add(v["key"])
            out.append(v)
    return out


def _brief(A, E=None):
    """Matrices of more than 8 nodes are recorded by their shape and the
    first differing positions only."""
    A = np.asarray(A)
    if A.ndim != 2 or A.shape[0] <= 8:
        return A
    out = {"shape": list(A.shape), "nonzero": int(np.count_nonzero(A))}
    if E is not None and np.asarray(E).shape == A.shape:
        d = np.argwhere(A != np.asarray(E))
        out["differs_at(first 10 of %d)" % len(d)] = d[:10].tolist()
    return out


def _bits(A):
    return int("".join(str(int(x)) for x in np.asarray(A).ravel()) or "0", 2)


def _check(net, mdl, op, viol, excl, stats, cname="ClimateNetwork",
           support_only=False):
    """Judge the observable state of `net` after operation `op` (kind, arg)
    against the reference model `mdl` (already advanced by `op`).  Returns the
    adjacency observed (numpy) or None when observation failed."""
    kind, arg = op
    sub_name, cname = cname, "ClimateNetwork"   # thresholding, counting and
    # the setters are base class code: one key whatever subclass shows it
    n = mdl.n
    P = n * (n - 1)
    dcls = "diag-max" if mdl.diag_max() else "diag-not-max"
    try:
        tau_r = net.threshold()
        nl_r = net.non_local()
        A = np.array(net.adjacency)
        n_links = net.n_links
        dens = net.link_density
    except Exception as ex:   # noqa
        viol.append(V("%s.observe:raises:after:%s" % (cname, kind),
                      "observing threshold/adjacency/n_links raised", repr(ex),
                      "values"))
        return None
    nnz = int(np.count_nonzero(A))
    # ---- reported threshold
    tau_ok = True
    try:
        tau_f = float(tau_r)
    except Exception:   # noqa
        tau_f = None
    if tau_f is None or tau_f != tau_f:
        viol.append(V("%s.threshold:not-a-number:after:%s" % (cname, kind),
                      "", repr(tau_r), "a number"))
        return A
    if kind == "dens":
        acc = mdl.accepted
        offs = mdl.offs()
        tau_ok = any((a is not None and tau_f == a) or
                     (a is None and tau_f >= offs[-1]) for a in acc)
        if not tau_ok:
            allv = mdl.allv()
            form = ""
            if any(tau_f == allv[k] for k in M.quantile_index(arg, P)):
                form = "=order-statistic-incl-diagonal"
            viol.append(V(
                "ClimateNetwork.threshold_from_link_density:value:%s%s" % (
                    dcls, form),
                "requested density %r: threshold is not the stated order "
                "statistic of the off-diagonal similarities; realised density "
                "%r" % (arg, nnz / P), tau_f, acc))
    elif kind in ("thr", "ctor-thr"):
        if tau_f != float(arg):
            tau_ok = False
            viol.append(V("%s.threshold:after:%s" % (cname, kind),
                          "threshold() is not the value just set", tau_f, arg))
    elif mdl.tau is not None and tau_f != float(mdl.tau):
        tau_ok = False
        viol.append(V("%s.threshold:after:%s" % (cname, kind),
                      "threshold() changed by an operation that does not set "
                      "it", tau_f, mdl.tau))
    mdl.tau = tau_f            # judge the rest against the reported value
    # ---- reported non_local
    if bool(nl_r) != mdl.non_local:
        viol.append(V("%s.non_local:after:%s" % (cname, kind), "", nl_r,
                      mdl.non_local))
        mdl.non_local = bool(nl_r)
    # ---- adjacency relation
    E, U = mdl.expected()
    E, U = np.array(E), np.array(U, dtype=bool)
    nu = int(U.sum())
    if nu:
        excl["pairs within single precision rounding of the threshold "
             "(not judged)"] = excl.get(
            "pairs within single precision rounding of the threshold "
            "(not judged)", 0) + nu
    loc = "non_local" if mdl.non_local else "local"
    if A.shape != E.shape:
        viol.append(V("%s.adjacency:shape" % cname, "", A.shape, E.shape))
        return A
    if np.any(np.diag(A) != 0):
        viol.append(V("%s.adjacency:self-loop:%s" % (cname, loc), "",
                      _brief(A, E), _brief(E)))
    if support_only:
        k = "Hilbert directed: direction of a link chosen by the phase " \
            "(class documentation); only the undirected support is judged"
        excl[k] = excl.get(k, 0) + 1
        bad = ((A > E) | ((A | A.T) != (E | E.T))) & ~U & ~U.T
        try:
            zero = np.asarray(net.phase_shift()) == 0
        except Exception:   # noqa
            zero = np.zeros_like(bad)
        if np.any(bad & zero):
            k = "Hilbert directed: pairs with phase shift exactly 0 get no " \
                "link in either direction (direction rule, not judged)"
            excl[k] = excl.get(k, 0) + int(np.sum(bad & zero)) // 2
            bad = bad & ~zero
    else:
        bad = (A != E) & ~U
    rel_ok = not np.any(bad)
    if not rel_ok:
        Ege = np.array(mdl.at_or_above(tau_f))
        if support_only:
            key = "%s.adjacency:support:%s" % (sub_name, loc)
        elif np.array_equal(A, Ege):
            key = "ClimateNetwork.adjacency:relation=links-at-equality"
        else:
            key = "ClimateNetwork.adjacency:relation:%s" % loc
        viol.append(V(key,
                      "adjacency is not (|S|*w > threshold) off the diagonal "
                      "(threshold %r as reported, after %s %r)" % (
                          tau_f, kind, arg), _brief(A, E), _brief(E, A)))
    elif mdl.symmetric() and not nu and not support_only:
        if not np.array_equal(A, A.T):
            viol.append(V("%s.adjacency:asymmetric-on-symmetric-similarity"
                          % cname, "", _brief(A, A.T), _brief(E)))
    # ---- link count and density against the adjacency reported
    symA = np.array_equal(A, A.T)
    if mdl.directed:
        exp_links = nnz
    elif symA:
        exp_links = nnz // 2
    else:
        exp_links = None
        k = "n_links of an undirected network with asymmetric adjacency " \
            "(asymmetric similarity, directed=False: outside Network's domain)"
        excl[k] = excl.get(k, 0) + 1
    dtag = "directed" if mdl.directed else "undirected"
    if exp_links is not None and n_links != exp_links:
        viol.append(V("%s.n_links:inconsistent-with-adjacency:%s" % (
            cname, dtag), "after %s %r" % (kind, arg), n_links, exp_links))
    if not abs(float(dens) - nnz / P) <= 1e-12:
        viol.append(V("%s.link_density:inconsistent-with-adjacency:%s" % (
            cname, dtag), "after %s %r" % (kind, arg), dens, nnz / P))
    # ---- density bounds
    if kind == "dens" and tau_ok and rel_ok:
        lo, hi = mdl.bounds(arg, tau_f)
        if nnz > hi:
            viol.append(V("ClimateNetwork.set_link_density:density>request:"
                          + dcls, "requested %r" % arg,
                          "%d of %d ordered pairs" % (nnz, P),
                          "<= %s" % float(hi)))
        if support_only or mdl.non_local:
            k = "lower density bound under a distance weight / phase mask " \
                "(pairs can be removed for other reasons than ties)"
            excl[k] = excl.get(k, 0) + 1
        elif nnz < lo:
            viol.append(V("ClimateNetwork.set_link_density:density<request-"
                          "ties:" + dcls, "requested %r" % arg,
                          "%d of %d ordered pairs" % (nnz, P),
                          ">= %s" % float(lo)))
        stats["density_requests"] = stats.get("density_requests", 0) + 1
        if nnz == lo and not (support_only or mdl.non_local):
            stats["density_missed_by_exactly_the_ties"] = stats.get(
                "density_missed_by_exactly_the_ties", 0) + 1
    return A


def _apply(net, op):
    kind, arg = op
    if kind == "thr":
        net.set_threshold(arg)
    elif kind == "dens":
        net.set_link_density(arg)
    elif kind == "nl":
        net.set_non_local(arg)
    else:
        raise ValueError(op)


def _twin(net, grid, S, directed, op, viol, cname="ClimateNetwork"):
    """A freshly constructed network with the same current parameters."""
    try:
        tw = _mk(grid, S, directed, net.non_local(),
                 threshold=net.threshold())
        a = (np.array(net.adjacency), net.n_links, float(net.link_density))
        b = (np.array(tw.adjacency), tw.n_links, float(tw.link_density))
    except Exception as ex:   # noqa
        viol.append(V("%s:fresh-twin:raises" % cname, "", repr(ex), ""))
        return
    if not (np.array_equal(a[0], b[0]) and a[1] == b[1] and
            abs(a[2] - b[2]) <= 1e-12):
        viol.append(V("%s:!=fresh-twin:after:%s" % (cname, op[0]),
                      "state after the history differs from a network "
                      "constructed with threshold()/non_local() as reported",
                      (_brief(a[0], b[0]), a[1], a[2]),
                      (_brief(b[0], a[0]), b[1], b[2])))


def _stale_degree(net, A, stats):
    """Not judged here (cache coherence of Network measures is C01): count
    how often degree() disagrees with the adjacency after a setter."""
    A = np.asarray(A)
    exp = A.sum(axis=1) + (A.sum(axis=0) if net.directed else 0)
    try:
        k = np.asarray(net.degree())
        if not np.array_equal(k, exp):
            stats["degree()_differs_from_adjacency_row_sums (C01, not judged"
                  " here)"] = stats.get(
                "degree()_differs_from_adjacency_row_sums (C01, not judged"
                " here)", 0) + 1
    except Exception:   # noqa
        pass


# --------------------------------------------------------------------------
# families


def fam_step(case):
    N, sym, code, diag, gname, directed, nl = case
    viol, excl, stats = [], {}, {}
    S = matrix(N, sym, code, diag)
    Sabs = M.stored(S)
    lat, lon = GRIDS[gname]
    grid = _grid(gname, N)
    D = _distances(grid, lat[:N], lon[:N], excl)
    if D is None:
        if nl:
            return {"viol": _first_per_key(viol), "excluded": excl, "trivial": True,
                    "evals": 0}
        D = [[0.0] * N for _ in range(N)]
    Vw, _ = M.weighted(Sabs, D, nl)
    menu = thresholds_menu([v for row in Sabs for v in row] +
                           [Vw[i][j] for i in range(N) for j in range(N)
                            if i != j])
    ev = 0
    sig = []
    # constructions with a threshold; monotonicity on the way (ascending)
    prev = None
    for t in menu:
        mdl = M.Model(Sabs, D, directed, t, nl)
        mdl.accepted = None
        try:
            net = _mk(grid, S, directed, nl, threshold=t)
        except Exception as ex:   # noqa
            viol.append(V("ClimateNetwork.__init__:raises:threshold-mode", "",
                          repr(ex), "a network"))
            continue
        A = _check(net, mdl, ("ctor-thr", t), viol, excl, stats)
        ev += 1
        if A is None:
            continue
        sig.append((t, _bits(A)))
        if prev is not None and np.any(A > prev):
            viol.append(V("ClimateNetwork.adjacency:not-monotone-in-threshold",
                          "raising the threshold to %r added a link" % t, A,
                          prev))
        prev = A
    # constructions with a density
    for r in DENSITIES:
        mdl = M.Model(Sabs, D, directed, None, nl)
        mdl.apply(["dens", r])
        try:
            net = _mk(grid, S, directed, nl, link_density=r)
        except Exception as ex:   # noqa
            viol.append(V("ClimateNetwork.__init__:raises:link_density-mode",
                          "", repr(ex), "a network"))
            continue
        A = _check(net, mdl, ("dens", r), viol, excl, stats)
        ev += 1
        if A is not None:
            sig.append((r, _bits(A), float(net.threshold())))
    # one object, the fixed long history: thresholds descending, densities,
    # toggling non_local, thresholds ascending
    chain = ([["thr", t] for t in reversed(menu)] +
             [["dens", r] for r in DENSITIES] + [["nl", not nl]] +
             [["dens", 1 / 2], ["thr", menu[len(menu) // 2]], ["nl", nl],
              ["dens", 1 / 3]])
    try:
        net = _mk(grid, S, directed, nl, threshold=TAU0)
        mdl = M.Model(Sabs, D, directed, TAU0, nl)
    except Exception as ex:   # noqa
        viol.append(V("ClimateNetwork.__init__:raises:threshold-mode", "",
                      repr(ex), "a network"))
        chain = []
    ntr = 0
    prev_t, prev_A = None, None
    for op in chain:
        mdl.apply(op)
        try:
            _apply(net, op)
        except Exception as ex:   # noqa
            viol.append(V("ClimateNetwork.%s:raises" % {
                "thr": "set_threshold", "dens": "set_link_density",
                "nl": "set_non_local"}[op[0]], "history step %r" % (op,),
                repr(ex), "no exception"))
            break
        ntr += 1
        A = _check(net, mdl, op, viol, excl, stats)
        ev += 1
        if A is None:
            break
        if op[0] == "thr":
            if prev_t is not None and (
                    (op[1] > prev_t and np.any(A > prev_A)) or
                    (op[1] < prev_t and np.any(A < prev_A))):
                viol.append(V(
                    "ClimateNetwork.adjacency:not-monotone-in-threshold",
                    "set_threshold %r -> %r" % (prev_t, op[1]), A, prev_A))
            prev_t, prev_A = op[1], A
        else:
            prev_t = None
    if chain:
        _twin(net, grid, S, directed, chain[-1], viol)
        _stale_degree(net, np.array(net.adjacency), stats)
    distinct = len(set(b for (_, b, *_) in sig))
    return {"viol": _first_per_key(viol), "evals": ev, "excluded": excl, "stats": stats,
            "trivial": distinct < 2, "sig": str(sig),
            "transitions": ntr, "traces": 1 if chain else 0}


def _histories(nops, first, depth):
    yield (first,)
    if depth >= 2:
        for b in range(nops):
            yield (first, b)
    if depth >= 3:
        for b in range(nops):
            for c in range(nops):
                yield (first, b, c)


def fam_hist(case):
    N, sym, code, diag, gname, directed, depth, first = case
    viol, excl, stats = [], {}, {}
    S = matrix(N, sym, code, diag)
    Sabs = M.stored(S)
    lat, lon = GRIDS[gname]
    grid = _grid(gname, N)
    D = _distances(grid, lat[:N], lon[:N], excl)
    if D is None:
        return {"viol": _first_per_key(viol), "excluded": excl, "trivial": True, "evals": 0}
    ops = ops_menu(Sabs)
    names = {"thr": "set_threshold", "dens": "set_link_density",
             "nl": "set_non_local"}
    h = hashlib.sha1()
    ntr = ntraces = 0
    outcomes = set()
    for hist in _histories(len(ops), first, depth):
        net = _mk(grid, S, directed, False, threshold=TAU0)
        mdl = M.Model(Sabs, D, directed, TAU0, False)
        ok = True
        for pos, oi in enumerate(hist):
            op = ops[oi]
            mdl.apply(op)
            try:
                _apply(net, op)
            except Exception as ex:   # noqa
                viol.append(V("ClimateNetwork.%s:raises" % names[op[0]],
                              "history %r" % ([ops[i] for i in hist],),
                              repr(ex), "no exception"))
                ok = False
                break
            ntr += 1
            if pos < len(hist) - 1 and op[0] == "dens":
                # the prefix is judged as a history of its own; here the
                # model only follows the threshold the object reports
                mdl.tau = float(net.threshold())
        if not ok:
            continue
        ntraces += 1
        nv = len(viol)
        A = _check(net, mdl, ops[hist[-1]], viol, excl, stats)
        if A is not None:
            if len(hist) <= 2 and len(viol) == nv:
                # differential second opinion (the direct oracle above is
                # complete; the twin is skipped on the longest histories)
                _twin(net, grid, S, directed, ops[hist[-1]], viol)
            _stale_degree(net, A, stats)
            b = _bits(A)
            outcomes.add(b)
            h.update(("%d:%r;" % (b, float(net.threshold()))).encode())
        for v in viol[nv:]:
            v["msg"] = "history %s :: %s" % (
                [ops[i] for i in hist], v["msg"])
    return {"viol": _first_per_key(viol), "evals": ntraces, "excluded": excl, "stats": stats,
            "trivial": len(outcomes) < 2, "sig": h.hexdigest(),
            "transitions": ntr, "traces": ntraces}


# ---- data-derived subclasses ---------------------------------------------

# fixed tiny data sets: (T, N, time_cycle, rows); values chosen by hand so that
# no column is constant and, in "dup", columns are exact multiples of each
# other (|correlation| = 1 off the diagonal -> ties with the diagonal)
def _dataset(name):
    if name == "a":      # T=8, N=3
        X = [[1, 5, 2], [4, 3, 7], [2, 8, 1], [7, 1, 6], [3, 6, 9], [9, 2, 4],
             [5, 9, 3], [8, 4, 8]]
        c = 1
    elif name == "b":    # T=12, N=4, cycle 2
        X = [[3, 1, 4, 1], [5, 9, 2, 6], [5, 3, 5, 8], [9, 7, 9, 3],
             [2, 3, 8, 4], [6, 2, 6, 4], [3, 3, 8, 3], [2, 7, 9, 5],
             [0, 2, 8, 8], [4, 1, 9, 7], [1, 6, 9, 3], [9, 9, 3, 7]]
        c = 2
    elif name == "c":    # T=24, N=3, cycle 12 (winter_only possible)
        X = [[(7 * t * t + 3 * t) % 11, (5 * t + t * t * t) % 13,
              (2 * t * t + 9 * t + 1) % 7 + (t % 3)] for t in range(24)]
        c = 12
    elif name == "dup":  # T=10, N=4, cycle 5; col2 = -2*col0, col3 = col1
        base = [[2, 7], [9, 1], [4, 4], [6, 8], [1, 3], [8, 2], [3, 9],
                [7, 5], [5, 6], [0, 0.5]]
        X = [[a, b, -2 * a, b] for a, b in base]
        c = 5
    else:
        raise ValueError(name)
    return np.array(X, dtype=float), c


DATASETS = ["a", "b", "c", "dup"]
SUB_THRESHOLDS = [0.25, 0.5, 0.75, 1.5]
SUB_DENSITIES = [0.0, 1 / 3, 1 / 2, 1.0]
LATS = [0.0, 1.0, 20.0, -60.0, 5.0, 45.0]
LONS = [0.0, 1.5, 100.0, -170.0, 3.0, 10.0]


def _climate_data(name, cols=None):
    from pyunicorn.core import GeoGrid
    from pyunicorn.climate import ClimateData
    X, c = _dataset(name)
    if cols is not None:
        X = X[:, cols]
    T, N = X.shape
    off = 0 if cols is None else cols[0]
    grid = GeoGrid(np.arange(float(T)), np.array(LATS[off:off + N]),
                   np.array(LONS[off:off + N]), silence_level=3)
    return ClimateData(X.copy(), grid, time_cycle=c, silence_level=3)


def _events(name):
    """A binary event matrix derived from a data set (value above the column
    median)."""
    X, c = _dataset(name)
    E = (X > np.median(X, axis=0)).astype(float)
    return E, c


SUBCLASSES = ["Tsonis", "Spearman", "PartialCorrelation", "MutualInfo",
              "Havlin", "Hilbert", "HilbertUndirected", "CoupledTsonis",
              "EventSeriesES", "EventSeriesES-symmetric",
              "EventSeriesES-antisym", "EventSeriesECA",
              "EventSeriesECA-mean"]


def _build_sub(cls, ds, mode, nl, winter):
    """Construct a data-derived network (fresh ClimateData every time: some
    classes normalise the shared anomaly array in place, see C06)."""
    import pyunicorn.climate as pc
    from pyunicorn.core import GeoGrid
    kw = dict(non_local=nl, silence_level=3)
    kw.update(mode)
    if cls in ("Tsonis", "Spearman", "PartialCorrelation", "MutualInfo"):
        k = getattr(pc, cls + "ClimateNetwork")
        return k(_climate_data(ds), winter_only=winter, **kw)
    if cls == "Havlin":
        return pc.HavlinClimateNetwork(_climate_data(ds), max_delay=3, **kw)
    if cls == "Hilbert":
        return pc.HilbertClimateNetwork(_climate_data(ds), directed=True, **kw)
    if cls == "HilbertUndirected":
        return pc.HilbertClimateNetwork(_climate_data(ds), directed=False,
                                        **kw)
    if cls == "CoupledTsonis":
        n = _dataset(ds)[0].shape[1]
        c1 = list(range(0, n // 2 + n % 2))
        c2 = list(range(n // 2 + n % 2, n))
        return pc.CoupledTsonisClimateNetwork(
            _climate_data(ds, c1), _climate_data(ds, c2), **kw)
    if cls.startswith("EventSeries"):
        E, c = _events(ds)
        T, N = E.shape
        grid = GeoGrid(np.arange(float(T)), np.array(LATS[:N]),
                       np.array(LONS[:N]), silence_level=3)
        data = pc.ClimateData(E, grid, time_cycle=c, silence_level=3)
        method = "ECA" if "ECA" in cls else "ES"
        symm = cls.split("-")[1] if "-" in cls else "directed"
        return pc.EventSeriesClimateNetwork(
            data, method=method, taumax=2.0, symmetrization=symm,
            non_local=nl, silence_level=3)
    raise ValueError(cls)


def fam_sub(case):
    cls, ds, mkind, mval, nl, winter = case
    viol, excl, stats = [], {}, {}
    cname = ("EventSeries" if cls.startswith("EventSeries") else
             cls.replace("Undirected", "")) + "ClimateNetwork"
    mode = {"thr": {"threshold": mval}, "dens": {"link_density": mval},
            "fixed": {}}[mkind]
    import glob
    import os
    for f in glob.glob("mutual_information_*.data"):
        os.remove(f)       # MutualInfoClimateNetwork would load it
    try:
        net = _build_sub(cls, ds, mode, nl, winter)
        net.adjacency
    except Exception as ex:   # noqa
        viol.append(V("%s.__init__:raises:%s-mode" % (
            cname, {"thr": "threshold", "dens": "link_density",
                    "fixed": "threshold"}[mkind]),
            "construction from data raised", repr(ex), "a network"))
        return {"viol": _first_per_key(viol), "evals": 1, "sig": "raises", "trivial": False}
    Sabs = np.asarray(net.similarity_measure(), dtype=float)
    if not np.all(np.isfinite(Sabs)):
        excl["similarity with nan/inf entries"] = 1
        return {"viol": _first_per_key(viol), "excluded": excl, "evals": 1, "trivial": True}
    Sabs = Sabs.tolist()
    D = np.asarray(net.grid.angular_distance(), dtype=float).tolist()
    directed = bool(net.directed)
    sup = (cls == "Hilbert")
    if mkind == "dens":
        mdl = M.Model(Sabs, D, directed, None, nl)
        op = ["dens", mval]
        mdl.apply(op)
    else:
        t = 0 if mkind == "fixed" else mval
        mdl = M.Model(Sabs, D, directed, t, nl)
        mdl.accepted = None
        op = ["ctor-thr", t]
    sig = []
    A = _check(net, mdl, op, viol, excl, stats, cname=cname, support_only=sup)
    ev = ntr = 1
    if A is not None:
        sig.append(_bits(A))
    offs = M.offdiag_sorted(Sabs)
    mid = M.f32((offs[0] + offs[-1]) / 2)
    chain = [["thr", mid], ["dens", 1 / 2], ["nl", not nl], ["dens", 1 / 3],
             ["thr", M.f32(offs[len(offs) // 2])], ["nl", nl]]
    names = {"thr": "set_threshold", "dens": "set_link_density",
             "nl": "set_non_local"}
    nl_now = nl
    for op in chain:
        mdl.apply(op)
        try:
            _apply(net, op)
        except Exception as ex:   # noqa
            viol.append(V("ClimateNetwork.%s:raises" % names[op[0]],
                          "step %r" % (op,), repr(ex), "no exception"))
            break
        ntr += 1
        # after a setter the phase mask of the directed Hilbert network is
        # gone (the plain relation holds, which the weaker check accepts)
        A = _check(net, mdl, op, viol, excl, stats, cname=cname,
                   support_only=sup)
        ev += 1
        if A is None:
            break
        sig.append(_bits(A))
        if op[0] == "nl":
            nl_now = op[1]
        if sup:
            # the orientation rule of the directed Hilbert network is not
            # part of the reference model: after every setter the network
            # must be the one a FRESH object with the same threshold and
            # non_local setting is (the subclass overrides set_threshold)
            try:
                twin = _build_sub(cls, ds, {"threshold": float(
                    net.threshold())}, nl_now, winter)
                At = np.asarray(twin.adjacency)
                ev += 1
                if At.shape != np.asarray(A).shape or \
                        not np.array_equal(At, np.asarray(A)):
                    viol.append(V(
                        "%s.%s:differs-from-fresh-object" % (
                            cname, names[op[0]]),
                        "after %r the adjacency is not that of a newly "
                        "built network with threshold %r, non_local=%s" % (
                            op, float(net.threshold()), nl_now),
                        np.asarray(A), At))
                    break
            except Exception:   # noqa
                pass
    if ds == "c" and cls in ("Tsonis", "Spearman", "PartialCorrelation",
                             "MutualInfo"):
        # regenerate from the other season selection: same threshold, new
        # similarity
        try:
            if cls == "MutualInfo":
                # dump=True (the default) writes the matrix to the current
                # directory - not part of this property
                net.set_winter_only(not winter, dump=False)
            else:
                net.set_winter_only(not winter)
            S2 = np.asarray(net.similarity_measure(), dtype=float)
            if np.all(np.isfinite(S2)):
                m2 = M.Model(np.abs(S2).tolist(), D, directed, mdl.tau,
                             mdl.non_local)
                m2.accepted = None
                A = _check(net, m2, ["regen", None], viol, excl, stats,
                           cname=cname)
                ev += 1
                ntr += 1
                if A is not None:
                    sig.append(_bits(A))
        except NotImplementedError:
            excl["set_winter_only needs time_cycle 12 or 360"] = 1
        except Exception as ex:   # noqa
            viol.append(V("%s.set_winter_only:raises" % cname, "", repr(ex),
                          "no exception"))
    return {"viol": _first_per_key(viol), "evals": ev, "excluded": excl, "stats": stats,
            "trivial": len(set(sig)) < 2, "sig": "%s|%s|%s" % (cls, ds, sig),
            "transitions": ntr, "traces": 1}


# ---- scale: a few hundred nodes ------------------------------------------

SCALE_LEVELS = 41


def scale_matrix(N, sym, diag):
    """Deterministic similarity matrix with 41 levels k/40 (so ~N^2/41 ties
    per level), alternating signs; the three largest entries are put on the
    highest-numbered nodes (flat index beyond 2^15 for N >= 182)."""
    i = np.arange(N)[:, None]
    j = np.arange(N)[None, :]
    if sym:
        a, b = np.minimum(i, j), np.maximum(i, j)
    else:
        a, b = i, j
    S = ((a * 7 + b * 13 + a * b) % SCALE_LEVELS) / 40.0
    S = S * np.where((a + 2 * b) % 3 == 0, -1.0, 1.0)
    S[N - 1, N - 2] = 1.5
    S[N - 2, N - 1] = 1.5 if sym else -1.25
    S[N - 1, 0] = -1.375
    S[0, N - 1] = -1.375 if sym else 0.0
    np.fill_diagonal(S, diag)
    return S


def scale_grid(N, T=2):
    """N points: a spiral over the sphere, every 9th point within the 0.05
    rad local radius of its predecessor, two exact antipodes, one duplicate
    location."""
    from pyunicorn.core import GeoGrid
    k = np.arange(N)
    lat = -80.0 + 160.0 * ((k * 37) % N) / N
    lon = (k * 137.5) % 360.0 - 180.0
    near = (k % 9 == 8)
    lat[near] = lat[k[near] - 1] + 0.75
    lon[near] = lon[k[near] - 1] + 0.5
    lat[0], lon[0], lat[1], lon[1] = 10.0, 20.0, -10.0, -160.0
    lat[N - 1], lon[N - 1] = lat[N - 3], lon[N - 3]
    return lat, lon, GeoGrid(np.arange(float(T)), lat, lon, silence_level=3)


def _great_circle_np(lat, lon):
    la, lo = np.radians(lat), np.radians(lon)
    P = np.stack([np.cos(la) * np.cos(lo), np.cos(la) * np.sin(lo),
                  np.sin(la)], axis=1)
    dot = P @ P.T
    cr = np.linalg.norm(np.cross(P[:, None, :], P[None, :, :]), axis=2)
    return np.arctan2(cr, dot)


def fam_scale(case):
    N, sym, diag, directed, nl = case
    viol, excl, stats = [], {}, {}
    S = scale_matrix(N, sym, diag)
    Sabs = np.abs(S.astype(np.float32)).astype(float)
    lat, lon, grid = scale_grid(N)
    D = np.asarray(grid.angular_distance(), dtype=float)
    if not np.all(np.abs(D - _great_circle_np(lat, lon)) <= 2.0 ** -10):
        excl["angular distances off by more than 2^-10 (C12): scale case not "
             "judged"] = 1
        return {"viol": viol, "excluded": excl, "trivial": True, "evals": 0}
    lv = np.unique(Sabs)
    mid = M.f32((lv[len(lv) // 2] + lv[len(lv) // 2 + 1]) / 2)
    thresholds = [float(lv[len(lv) // 2]), mid, float(lv[-3]), float(lv[1]),
                  -1.0, 2.0]
    densities = [0.0, 0.003, 1 / 3, 0.5, 0.77, 1.0]
    ev = ntr = 0
    sig = []

    def model(tau):
        m = M.NpModel(Sabs, D, directed, tau, nl)
        m.accepted = None
        return m
    prev = None
    for t in sorted(thresholds):
        try:
            net = _mk(grid, S, directed, nl, threshold=t)
        except Exception as ex:   # noqa
            viol.append(V("ClimateNetwork.__init__:raises:threshold-mode",
                          "N=%d" % N, repr(ex), "a network"))
            continue
        A = _check(net, model(t), ("ctor-thr", t), viol, excl, stats)
        ev += 1
        if A is None:
            continue
        sig.append((t, int(A.sum()), int(A[-1].sum())))
        if prev is not None and np.any(A > prev):
            viol.append(V("ClimateNetwork.adjacency:not-monotone-in-threshold",
                          "raising the threshold to %r added a link" % t,
                          _brief(A, prev), _brief(prev)))
        prev = A
    for r in densities:
        mdl = model(None)
        mdl.apply(["dens", r])
        try:
            net = _mk(grid, S, directed, nl, link_density=r)
        except Exception as ex:   # noqa
            viol.append(V("ClimateNetwork.__init__:raises:link_density-mode",
                          "N=%d" % N, repr(ex), "a network"))
            continue
        A = _check(net, mdl, ("dens", r), viol, excl, stats)
        ev += 1
        if A is not None:
            sig.append((r, int(A.sum()), float(net.threshold())))
    # a setter history on the last object (>= 4 calls of each kind of setter
    # path on the same instance)
    chain = [["thr", mid], ["dens", 0.5], ["nl", not nl], ["dens", 0.003],
             ["thr", float(lv[-3])], ["dens", 0.77], ["nl", nl],
             ["thr", float(lv[1])], ["dens", 1 / 3], ["thr", 2.0]]
    names = {"thr": "set_threshold", "dens": "set_link_density",
             "nl": "set_non_local"}
    try:
        net = _mk(grid, S, directed, nl, threshold=TAU0)
        mdl = model(TAU0)
    except Exception as ex:   # noqa
        viol.append(V("ClimateNetwork.__init__:raises:threshold-mode",
                      "N=%d" % N, repr(ex), "a network"))
        chain = []
    for op in chain:
        mdl.apply(op)
        try:
            _apply(net, op)
        except Exception as ex:   # noqa
            viol.append(V("ClimateNetwork.%s:raises" % names[op[0]],
                          "N=%d history step %r" % (N, op), repr(ex),
                          "no exception"))
            break
        ntr += 1
        A = _check(net, mdl, op, viol, excl, stats)
        ev += 1
        if A is None:
            break
        sig.append((op[0], int(A.sum())))
    else:
        if chain:
            if not viol:
                _twin(net, grid, S, directed, chain[-1], viol)
            _stale_degree(net, np.array(net.adjacency), stats)
    for v in viol:
        v["msg"] = "N=%d :: %s" % (N, v["msg"])
        v["key"] += ":scale"      # input class: networks of > 128 nodes
    return {"viol": _first_per_key(viol), "evals": ev, "excluded": excl,
            "stats": stats, "trivial": len(set(sig)) < 3, "sig": str(sig),
            "transitions": ntr, "traces": 1 if chain else 0}


FAMILIES = {"step": fam_step, "hist": fam_hist, "sub": fam_sub,
            "scale": fam_scale}


# --------------------------------------------------------------------------


def _matrix_cases(tier, seed):
    """(N, sym, code, diag) of the single-step family."""
    thorough = tier == "thorough"
    out = []
    for diag in DIAGS:                       # N=3 symmetric: all
        for code in range(n_matrices(3, True, ALPHA4)):
            out.append((3, True, code, diag))
    tot = n_matrices(3, False, ALPHA4)
    stride = 1 if thorough else 32
    for diag in DIAGS:                       # N=3, all 4^6 (quick: every 8th)
        for code in range((seed % stride) if not thorough else 0, tot,
                          stride):
            out.append((3, False, code, diag))
    tot = n_matrices(4, True, ALPHA3)
    stride = 1 if thorough else 24
    for diag in DIAGS:
        for code in range((seed % stride) if not thorough else 0, tot,
                          stride):
            out.append((4, True, code, diag))
    return out


def _hist_matrices(seed):
    """The 64 matrices of the history family: 24 symmetric and 24 general
    N=3, 16 symmetric N=4, spread over the enumeration by a fixed stride
    (VERIF_SEED shifts the general ones; the symmetric N=3 ones are fixed)."""
    out = []
    n = n_matrices(3, True, ALPHA4)
    for i in range(24):
        out.append((3, True, (i * 37 + 5) % n, DIAGS[i % 2]))
    n = n_matrices(3, False, ALPHA4)
    for i in range(24):
        out.append((3, False, (i * 1237 + 101 + 7 * seed) % n,
                    DIAGS[(i // 2) % 2]))
    n = n_matrices(4, True, ALPHA3)
    for i in range(16):
        out.append((4, True, (i * 53 + 11 + 3 * seed) % n, DIAGS[i % 2]))
    return out


def run(ctx):
    thorough = ctx.tier == "thorough"
    depth = 3 if thorough else 2
    ctx.rule = (
        "step: similarity matrices N=3 over %s (all 4^3 symmetric and all 4^6 "
        "general ones; quick: every 32nd general) and N=4 symmetric over %s "
        "(quick: every 24th), diagonal in %s, x directed x (non_local on 3 grids, local on one);"
        " per case every threshold of the menu (realised plain and weighted "
        "values, midpoints, -1, 2) and every density %s as a construction and "
        "as setter calls on one object.  hist: all histories of length <= %d "
        "over the operation menu on 64 matrices x directed x one grid "
        "(rotating; the two other grids one step shorter), one case per "
        "first operation.  sub: 13 data-derived configurations x 4 "
        "data sets x construction mode x non_local.  A case is non-trivial "
        "when at least two different adjacency matrices were observed in it; "
        "distinct = distinct (threshold, adjacency) outcome sequences.  scale: "
        "fixed structured matrices (41 similarity levels with ties, signs, "
        "largest entries on the last nodes; symmetric/undirected and "
        "asymmetric/directed, diagonal 1 and 0) on a 130..300-node spiral grid with "
        "local clusters, antipodes and a duplicate location." % (
            ALPHA4, ALPHA3, DIAGS, [round(r, 4) for r in DENSITIES], depth))
    # ---- self-test: the first case twice gives the same observation
    c0 = [3, True, 1, 1.0, "clustered", False, True]
    ctx.selftest_same(fam_step(c0)["sig"] == fam_step(c0)["sig"],
                      "fam_step%r" % (c0,))
    # ---- step
    mats = _matrix_cases(ctx.tier, ctx.seed)
    cases = []
    for (N, sym, code, diag) in mats:
        asym = not M.is_symmetric(matrix(N, sym, code, diag))
        for g in GRID_NAMES:
            for d in (False, True):
                if asym and not d and code % 8 != ctx.seed % 8:
                    # asymmetric similarity in an undirected network is
                    # outside Network's documented domain: every 8th only
                    continue
                for nl in (False, True):
                    if not nl and g != GRID_NAMES[code % 3]:
                        continue    # a local network does not see the grid
                    cases.append([N, sym, code, diag, g, d, nl])
    ctx.explore("step", cases, desc="constructions and one fixed setter "
                "history per matrix x grid x directed x non_local")
    # ---- hist
    hm = _hist_matrices(ctx.seed)
    cases = []
    nstates = 0
    for mi, (N, sym, code, diag) in enumerate(hm):
        Sabs = M.stored(matrix(N, sym, code, diag))
        ops = ops_menu(Sabs)
        reach = len(M.reachable_states(Sabs, ops, TAU0))
        for gi, g in enumerate(GRID_NAMES):
            for d in (False, True):
                nstates += reach
                # the full depth on one grid per matrix (rotating), one step
                # less on the other two
                dep = depth if gi == mi % 3 else depth - 1
                for first in range(len(ops)):
                    cases.append([N, sym, code, diag, g, d, dep, first])
    ctx.explore("hist", cases, desc="all setter histories up to depth %d"
                % depth)
    ctx.states += nstates
    # ---- sub
    cases = []
    for cls in SUBCLASSES:
        for ds in DATASETS:
            winters = [False]
            if ds == "c" and cls in ("Tsonis", "Spearman",
                                     "PartialCorrelation", "MutualInfo"):
                winters = [False, True]
            for nl in (False, True):
                for w in winters:
                    if cls.startswith("EventSeries"):
                        cases.append([cls, ds, "fixed", 0, nl, w])
                        continue
                    for t in SUB_THRESHOLDS:
                        cases.append([cls, ds, "thr", t, nl, w])
                    for r in SUB_DENSITIES:
                        cases.append([cls, ds, "dens", r, nl, w])
    ctx.explore("sub", cases, desc="data-derived subclasses, both "
                "construction modes + setter chain")
    # ---- scale
    sizes = [130, 150, 209, 300] + ([129, 257, 183] if thorough else [])
    cases = []
    for N in sizes:
        confs = [(True, False), (False, True)]
        if thorough:
            confs += [(True, True)]
        for (sym, d) in confs:
            for diag in (1.0, 0.0):
                for nl in (False, True):
                    cases.append([N, sym, diag, d, nl])
    ctx.explore("scale", cases, chunk=1, desc="networks of 130-300 nodes "
                "(row blocks of 128/256, flat index beyond int16): "
                "construction by threshold and by density, 10-step setter "
                "history, numpy oracle")
    ctx.notes.update({
        "scale_sizes": sizes,
        "history_depth": depth, "history_matrices": len(hm),
        "step_matrices": len(mats),
        "operation_menu": "set_threshold(realised values, midpoints, -1, 2), "
                          "set_link_density(%s), set_non_local(False/True)"
                          % [round(r, 4) for r in DENSITIES],
        "model_states": nstates})
    ctx.assumptions += [
        "angular distances are taken as the grid reports them (accuracy is "
        "C12); the distance weight and the thresholding are by definition",
        "similarities are judged as stored (absolute value of the float32 "
        "image); pairs within float32 rounding of the threshold under a "
        "distance weight are excluded and counted",
        "data-derived subclasses: the similarity the object reports is taken "
        "as given (its value is C10)",
        "cached Network measures (degree etc.) after a setter are C01; the "
        "number of stale degree() observations is only counted in stats"]
