"""C14  Visibility graphs realise the geometric visibility criterion.

Bounded-exhaustive enumeration on the real VisibilityGraph kernels:
  vg   every series of length 2..6 over {0,1,2,3} (quick: ..5; thorough also
       length 7 over {0,1,2}) x three timings (uniform and two dyadic
       non-uniform increasing sets) x {natural, horizontal}; every series of
       length 2..5 (quick: ..4) over {0,1,2,3,NaN} with missing_values=True
Per case: adjacency against the criterion decided in rational arithmetic
(refmodel/visibility.py); visibility()/visibility_single(); retarded +
advanced degree = degree; retarded/advanced degree, local clustering,
closeness, betweenness and trans_betweenness against their definitions
evaluated on the library's own adjacency (family scale: the same on a fixed
list of structured integer series with 130/260/300 samples, uniform, gapped
and "hours since 1800" timings, missing samples around positions 128/256,
exact integer oracle; family mid: lengths 17..64, patterns built around
record highs/lows and their positions, each reversed, negated and - for
lengths 17 and 20 - in every cyclic rotation); invariance of the adjacency under
x -> a x + b and t -> c t + d (dyadic a, c > 0); time reversal mirrors the
adjacency and exchanges the retarded and advanced measures.
"""
import itertools

import numpy as np

from ..core import V
from ..refmodel import visibility as vis

LEVEL = "exploration"
F64 = dict(rtol=1e-9, atol=1e-12)
NAN = float("nan")
TIMINGS = [None,
           [0.0, 1.0, 3.0, 4.0, 8.0, 9.0, 10.0],
           [0.0, 0.5, 2.0, 2.25, 4.0, 6.5, 7.0]]
VALUE_MAPS = [(2.0, 0.0), (0.5, 1.5), (1.5, -3.0)]
TIME_MAPS = [(2.0, 0.0), (0.5, -1.0)]
MEASURES = ["degree", "local_clustering", "closeness", "betweenness"]


def _arr(x):
    return np.array([NAN if v is None else v for v in x], dtype=float)


def _mk(x, t, horizontal, mv):
    from pyunicorn.timeseries import VisibilityGraph
    return VisibilityGraph(_arr(x), timings=None if t is None else
                           np.array(t, dtype=float), missing_values=mv,
                           horizontal=horizontal, silence_level=3)


def _adj(g):
    return np.asarray(g.adjacency).astype(int)


def _exc(e):
    return "%s: %s" % (type(e).__name__, str(e)[:100])


def _on_line(x, t, i, j, k):
    xs, ts = vis._prep(x, t)
    return xs[k] == xs[i] + (xs[j] - xs[i]) * (ts[k] - ts[i]) / \
        (ts[j] - ts[i])


def _classify(A, E, x, t, horizontal):
    """Name the class of an adjacency mismatch on a series without missing
    samples."""
    n = len(x)
    only_boundary = True
    for i in range(n):
        for j in range(i + 1, n):
            if A[i, j] == E[i][j]:
                continue
            if not (A[i, j] == 1 and E[i][j] == 0):
                return "value"
            for k in range(i + 1, j):
                if horizontal:
                    lim = min(x[i], x[j])
                    if x[k] > lim:
                        only_boundary = False
                elif not _on_line(x, t, i, j, k):
                    xs, ts = vis._prep(x, t)
                    line = xs[i] + (xs[j] - xs[i]) * (ts[k] - ts[i]) / \
                        (ts[j] - ts[i])
                    if xs[k] > line:
                        only_boundary = False
    return "boundary-not-strict" if only_boundary else "value"


def _vec(f):
    return np.asarray(f(), dtype=float)


def _cmp(got, exp):
    """Compare a float vector with a list of Fractions/None; returns
    (ok, number of undefined entries skipped)."""
    skipped, ok = 0, True
    if len(got) != len(exp):
        return False, 0
    for g, e in zip(got, exp):
        if e is None:
            skipped += 1
            continue
        if not np.isclose(g, float(e), **F64):
            ok = False
    return ok, skipped


def _measures(g, A, viol, excl):
    """Library measures against the definitions on the library's adjacency
    (the graph type plays no role here, so the keys carry no type tag).
    Returns (evals, dict name -> vector, set of names that failed)."""
    ev = 0
    out, failed = {}, set()
    Al = A.tolist()

    def get(name):
        nonlocal ev
        ev += 1
        try:
            r = _vec(getattr(g, name))
            out[name] = r
            return r
        except Exception as e:   # noqa
            failed.add(name)
            viol.append(V("VisibilityGraph.%s:raises" % name, _exc(e),
                          _exc(e), "a value per node"))
            return None

    deg = get("degree")
    for side in ("retarded", "advanced"):
        for name, orc in (
                ("degree", vis.directed_degree),
                ("local_clustering", vis.directed_clustering),
                ("closeness", vis.directed_closeness),
                ("betweenness", vis.directed_betweenness)):
            full = "%s_%s" % (side, name)
            got = get(full)
            if got is None:
                continue
            if name == "local_clustering" and side + "_degree" in failed:
                failed.add(full)    # normalised by the (wrong) degree
                continue
            exp = orc(Al, side)
            ok, skipped = _cmp(got, exp)
            if skipped:
                r = "%s undefined (%s on that side)" % (name, {
                    "local_clustering": "fewer than two neighbours",
                    "closeness": "no or unreachable nodes"}.get(name, "?"))
                excl[r] = excl.get(r, 0) + skipped
            if not ok:
                failed.add(full)
                viol.append(V("VisibilityGraph.%s:value" % full,
                              "differs from the definition evaluated on the "
                              "library's adjacency", got,
                              [None if e is None else float(e) for e in exp]))
    rd, ad = out.get("retarded_degree"), out.get("advanced_degree")
    if deg is not None and rd is not None and ad is not None and \
            not ({"retarded_degree", "advanced_degree"} & failed):
        ev += 1
        if not np.array_equal(rd + ad, deg):
            failed.add("degree")
            viol.append(V("VisibilityGraph.degree:identity",
                          "retarded_degree + advanced_degree != degree",
                          (rd + ad), deg))
    got = get("trans_betweenness")
    if got is not None:
        exp = vis.trans_betweenness(Al)
        ok, _ = _cmp(got, exp)
        if not ok:
            failed.add("trans_betweenness")
            viol.append(V("VisibilityGraph.trans_betweenness:value", "", got,
                          [float(e) for e in exp]))
    return ev, out, failed


def fam_vg(case):
    x, tid, hor, mv = case["x"], case["tid"], bool(case["h"]), bool(case["mv"])
    n = len(x)
    t = None if TIMINGS[tid] is None else TIMINGS[tid][:n]
    viol, excl, stats = [], {}, {}
    ev = 1
    missing = [v is None for v in x]
    kind = "horizontal" if hor else "natural"
    tag = kind + ("+mv" if mv else "")
    try:
        g = _mk(x, t, hor, mv)
    except Exception as e:   # noqa
        viol.append(V("VisibilityGraph.__init__:raises:" + tag, _exc(e),
                      _exc(e), "a graph"))
        return {"viol": viol, "evals": ev, "trivial": n <= 2, "sig": "exc"}
    A = _adj(g)
    E = vis.horizontal(x) if hor else vis.natural(x, t)
    adjacency_ok = A.shape == (n, n) and np.array_equal(A, np.array(E))
    if not adjacency_ok:
        if A.shape != (n, n):
            viol.append(V("VisibilityGraph.adjacency:shape:" + tag, "",
                          A.shape, (n, n)))
        elif any(missing):
            clean = vis.clean_pairs(x)
            bad_clean = [(i, j) for (i, j) in clean if A[i, j] != E[i][j]]
            if bad_clean or not np.array_equal(A, A.T):
                viol.append(V("VisibilityGraph.adjacency:value:" + tag,
                              "pairs %r (no missing sample in range) violate "
                              "the criterion" % bad_clean[:4], A, E))
            else:
                viol.append(V(
                    "VisibilityGraph.adjacency:missing-ignored:" + kind,
                    "links at or across a missing sample (missing samples "
                    "must block visibility and stay isolated)", A, E))
        else:
            viol.append(V("VisibilityGraph.adjacency:%s:%s" % (
                _classify(A, E, x, t, hor), tag),
                "adjacency differs from the visibility criterion", A, E))
    # visibility(), visibility_single()
    ev += 1
    if A.shape == (n, n):
        vs = np.array([[int(g.visibility(i, j)) for j in range(n)]
                       for i in range(n)])
        v1 = np.array([np.asarray(g.visibility_single(i)).astype(int)
                       for i in range(n)])
        if not (np.array_equal(vs, A) and np.array_equal(v1, A)):
            viol.append(V("VisibilityGraph.visibility:value:" + tag, "", vs,
                          A))
    e_, base, failed = _measures(g, A, viol, excl)
    ev += e_
    if not adjacency_ok:
        stats["relations skipped (adjacency already wrong)"] = 1
        return {"viol": viol, "evals": ev, "excluded": excl, "stats": stats,
                "trivial": n <= 2, "sig": (tag, A.tolist())}
    # -- affine invariance
    tt = t if t is not None else [float(i) for i in range(n)]
    variants = [("value-affine", [None if v is None else a * v + b
                                  for v in x], t) for a, b in VALUE_MAPS]
    variants += [("time-affine", x, [c * u + d for u in tt])
                 for c, d in TIME_MAPS]
    a, b = VALUE_MAPS[1]
    c, d = TIME_MAPS[1]
    variants.append(("value+time-affine",
                     [None if v is None else a * v + b for v in x],
                     [c * u + d for u in tt]))
    for name, x2, t2 in variants:
        ev += 1
        try:
            A2 = _adj(_mk(x2, t2, hor, mv))
        except Exception as e:   # noqa
            viol.append(V("VisibilityGraph.__init__:raises:%s:%s" % (
                name, tag), _exc(e), _exc(e), A))
            continue
        if not np.array_equal(A2, A):
            viol.append(V("VisibilityGraph.adjacency:not-invariant:%s:%s" % (
                name, tag), "x=%r t=%r" % (x2, t2), A2, A))
    # -- time reversal
    xr = list(reversed(x))
    tr = None if t is None else [tt[-1] - u for u in reversed(tt)]
    ev += 1
    try:
        gr = _mk(xr, tr, hor, mv)
        Ar = _adj(gr)
    except Exception as e:   # noqa
        viol.append(V("VisibilityGraph.__init__:raises:time-reversal:" + tag,
                      _exc(e), _exc(e), "a graph"))
        Ar = None
    if Ar is not None:
        if not np.array_equal(Ar, np.array(vis.mirror(A.tolist()))):
            viol.append(V("VisibilityGraph.adjacency:not-mirrored:"
                          "time-reversal:" + tag, "", Ar,
                          vis.mirror(A.tolist())))
        else:
            e_, rev, failed_r = _measures(gr, Ar, [], {})
            ev += e_
            failed = failed | failed_r
            pairs = [("%s_%s" % (s1, m), "%s_%s" % (s2, m))
                     for m in MEASURES for s1, s2 in (
                         ("retarded", "advanced"), ("advanced", "retarded"))]
            pairs.append(("trans_betweenness", "trans_betweenness"))
            for n1, n2 in pairs:
                a_, b_ = rev.get(n1), base.get(n2)
                if a_ is None or b_ is None or n1 in failed or n2 in failed:
                    continue        # already reported against the definition
                ev += 1
                if not np.allclose(a_, b_[::-1], equal_nan=True, **F64):
                    viol.append(V(
                        "VisibilityGraph.%s:not-exchanged:time-reversal" % n1,
                        "%s of the reversed series != reversed %s" % (n1, n2),
                        a_, b_[::-1]))
    sig = (tag, A.tolist(), tuple(
        tuple(np.round(np.nan_to_num(base[k], nan=-1.0), 6))
        for k in sorted(base)))
    return {"viol": viol, "evals": ev, "excluded": excl, "stats": stats,
            "trivial": n <= 2, "sig": sig}



# --------------------------------------------------------------------------
# family scale: 130 / 260 / 300 samples (beyond 128 / 256, flat index i*N+j
# >= 32768), integer values 0..15 and integer timings (incl. "hours since
# 1800", 6-hourly: t ~ 1.9e6, step 6), exact integer oracle

SCALE_MV = [1, 60, 127, 128, 129, 255, 256]


def _pattern(name, n):
    i = np.arange(n)
    if name == "plateau":
        x = (i // 7) % 4
    elif name == "ramps":             # straight ramps: collinear triples
        x = i % 9
    elif name == "tri":
        x = np.abs((i % 16) - 8)
    elif name == "qres":
        x = (i * i) % 13
    elif name == "stairs":            # one long monotone staircase
        x = i // 20
    elif name == "const":
        x = np.full(n, 3)
    elif name == "valley":            # first and last sample see each other
        x = i % 2
        x[0] = x[-1] = 15
    else:
        raise ValueError(name)
    return x.astype(int)


def _timing(name, n):
    i = np.arange(n)
    if name == "uni":
        return i
    if name == "hours":               # 6-hourly, hours since 1800
        return 1900000 + 6 * i
    if name == "gaps":
        return np.cumsum(1 + (i % 4)) - 1
    if name == "biggaps":             # uneven sampling far from the origin
        return 2 ** 20 + np.cumsum(1 + (i % 4)) - 1
    if name == "biggaps22":
        return 2 ** 22 + np.cumsum(1 + (i * i % 5)) - 1
    raise ValueError(name)


def _sizeclass(n):
    return "N>256" if n > 256 else ("N>128" if n > 128 else "N<=128")


def _cmp_np(got, exp):
    ok, skipped = True, 0
    for g, e in zip(got, exp):
        if e is None:
            skipped += 1
        elif not np.isclose(g, e, **F64):
            ok = False
    return ok and len(got) == len(exp), skipped


def _scale_measures(g, A, bw, viol, excl, sc):
    """Measures against the definitions on the library's own adjacency."""
    ev = 0
    out, failed = {}, set()
    D, S = vis.np_apsp(A)
    names = [("degree", lambda side: vis.np_directed_degree(A, side)),
             ("local_clustering",
              lambda side: vis.np_directed_clustering(A, side)),
             ("closeness", lambda side: vis.np_directed_closeness(D, side))]
    if bw:
        names.append(("betweenness",
                      lambda side: vis.np_directed_betweenness(D, S, side)))
    deg = _vec(g.degree)
    for side in ("retarded", "advanced"):
        for name, orc in names:
            full = "%s_%s" % (side, name)
            ev += 1
            try:
                got = _vec(getattr(g, full))
            except Exception as e:   # noqa
                failed.add(full)
                viol.append(V("VisibilityGraph.%s:raises:%s" % (full, sc),
                              _exc(e), _exc(e), "a value per node"))
                continue
            out[full] = got
            if name == "local_clustering" and side + "_degree" in failed:
                failed.add(full)
                continue
            exp = orc(side)
            ok, skipped = _cmp_np(got, exp)
            if skipped:
                r = "%s undefined (%s on that side)" % (name, {
                    "local_clustering": "fewer than two neighbours",
                    "closeness": "no or unreachable nodes"}.get(name, "?"))
                excl[r] = excl.get(r, 0) + skipped
            if not ok:
                failed.add(full)
                bad = [k for k, (a, b) in enumerate(zip(got, exp))
                       if b is not None and not np.isclose(a, b, **F64)]
                viol.append(V("VisibilityGraph.%s:value:%s" % (full, sc),
                              "differs from the definition on the library's "
                              "adjacency at nodes %r..." % bad[:5],
                              [float(got[k]) for k in bad[:5]],
                              [exp[k] for k in bad[:5]]))
    rd, ad = out.get("retarded_degree"), out.get("advanced_degree")
    if rd is not None and ad is not None and \
            not ({"retarded_degree", "advanced_degree"} & failed):
        ev += 1
        if not np.array_equal(rd + ad, deg):
            viol.append(V("VisibilityGraph.degree:identity:" + sc,
                          "retarded_degree + advanced_degree != degree",
                          int(np.abs(rd + ad - deg).sum()), 0))
    if bw:
        ev += 1
        try:
            got = _vec(g.trans_betweenness)
            out["trans_betweenness"] = got
            exp = vis.np_trans_betweenness(D, S)
            if not np.allclose(got, exp, **F64):
                failed.add("trans_betweenness")
                viol.append(V("VisibilityGraph.trans_betweenness:value:" + sc,
                              "", got[:6], exp[:6]))
        except Exception as e:   # noqa
            viol.append(V("VisibilityGraph.trans_betweenness:raises:" + sc,
                          _exc(e), _exc(e), "a value per node"))
    return ev, out, failed


def fam_scale(case):
    pat, n, tname = case["pat"], case["n"], case["t"]
    xi, ti = _pattern(pat, n), _timing(tname, n)
    missing = np.zeros(n, dtype=bool)
    if case["mv"]:
        missing[[q for q in SCALE_MV + [n - 1] if q < n]] = True
    return _judge_long(xi, ti, tname == "uni", missing, bool(case["h"]),
                       bool(case["mv"]), bool(case.get("bw")), _sizeclass(n),
                       (pat, tname))


def _judge_long(xi, ti, uniform, missing, hor, mv, bw, sc, label):
    """Judge one integer series (values xi, integer timings ti) with the
    exact integer oracle and all relations of the property."""
    n = len(xi)
    pat, tname = label
    x = [None if missing[k] else float(xi[k]) for k in range(n)]
    t = None if uniform else [float(v) for v in ti]
    kind = "horizontal" if hor else "natural"
    tag = "%s%s:%s" % (kind, "+mv" if mv else "", sc)
    viol, excl, stats = [], {}, {}
    ev = 2
    # self-test of the fast oracle against the by-definition oracle: whole
    # series when short, else two windows (one across position 128)
    wins = [slice(0, n)] if n <= 24 else [
        slice(a, a + 14) for a in (0, min(121, n - 14))]
    for w in wins:
        ref = vis.horizontal(x[w]) if hor else vis.natural(
            x[w], [float(v) for v in ti[w]])
        fast = vis.fast_horizontal(xi[w], missing[w]) if hor else \
            vis.fast_natural(xi[w], ti[w], missing[w])
        assert np.array_equal(fast, np.array(ref)), "fast oracle disagrees"
    E = vis.fast_horizontal(xi, missing) if hor else \
        vis.fast_natural(xi, ti, missing)
    try:
        g = _mk(x, t, hor, mv)
    except Exception as e:   # noqa
        viol.append(V("VisibilityGraph.__init__:raises:" + tag, _exc(e),
                      _exc(e), "a graph"))
        return {"viol": viol, "evals": ev, "sig": "exc"}
    A = _adj(g)
    ok = A.shape == (n, n) and np.array_equal(A, E)
    if not ok:
        if A.shape != (n, n):
            viol.append(V("VisibilityGraph.adjacency:shape:" + tag, "",
                          A.shape, (n, n)))
        else:
            idx = np.argwhere(A != E)
            clean = [(i, j) for i, j in idx
                     if not missing[min(i, j):max(i, j) + 1].any()]
            msg = "%d entries differ, first %r (got %d)" % (
                len(idx), idx[0].tolist(), A[tuple(idx[0])])
            if mv and not clean and np.array_equal(A, A.T):
                viol.append(V(
                    "VisibilityGraph.adjacency:missing-ignored:" + kind,
                    "links at or across a missing sample; " + msg,
                    idx[:6].tolist(), "no such links"))
            else:
                viol.append(V("VisibilityGraph.adjacency:value:" + tag,
                              "adjacency differs from the visibility "
                              "criterion; " + msg, idx[:6].tolist(),
                              [int(E[tuple(k)]) for k in idx[:6]]))
    e_, base, failed = _scale_measures(g, A, bw, viol, excl, sc)
    ev += e_
    sig = (tag, pat, tname, int(A.sum()), tuple(
        float(np.nansum(base[k])) for k in sorted(base)))
    if not ok:
        stats["relations skipped (adjacency already wrong)"] = 1
        return {"viol": viol, "evals": ev, "excluded": excl, "stats": stats,
                "sig": sig}
    # -- affine invariance (dyadic maps keep float32 exact)
    tt = [float(v) for v in ti]
    variants = [("value-affine", [None if v is None else 2.0 * v - 3.0
                                  for v in x], t),
                ("value-affine", [None if v is None else 0.5 * v + 1.5
                                  for v in x], t),
                ("time-affine", x, [2.0 * u for u in tt]),
                ("time-affine", x, [0.5 * u - 1.0 for u in tt])]
    for name, x2, t2 in variants:
        ev += 1
        A2 = _adj(_mk(x2, t2, hor, mv))
        if not np.array_equal(A2, A):
            viol.append(V("VisibilityGraph.adjacency:not-invariant:%s:%s" % (
                name, tag), "%d entries differ" % int((A2 != A).sum()),
                np.argwhere(A2 != A)[:6].tolist(), "identical adjacency"))
    # -- time reversal
    ev += 1
    gr = _mk(list(reversed(x)), None if t is None else
             [tt[-1] - u for u in reversed(tt)], hor, mv)
    Ar = _adj(gr)
    if not np.array_equal(Ar, A[::-1, ::-1]):
        viol.append(V("VisibilityGraph.adjacency:not-mirrored:time-reversal:"
                      + tag, "%d entries differ" % int(
                          (Ar != A[::-1, ::-1]).sum()),
                      np.argwhere(Ar != A[::-1, ::-1])[:6].tolist(),
                      "mirrored adjacency"))
    else:
        for m in ("degree", "local_clustering", "closeness"):
            for s1, s2 in (("retarded", "advanced"), ("advanced", "retarded")):
                n1, n2 = "%s_%s" % (s1, m), "%s_%s" % (s2, m)
                if n1 in failed or n2 in failed or n2 not in base:
                    continue
                ev += 1
                a_ = _vec(getattr(gr, n1))
                if not np.allclose(a_, base[n2][::-1], equal_nan=True, **F64):
                    viol.append(V(
                        "VisibilityGraph.%s:not-exchanged:time-reversal:%s" % (
                            n1, sc), "%s of the reversed series != reversed "
                        "%s" % (n1, n2), a_[:6], base[n2][::-1][:6]))
    return {"viol": viol, "evals": ev, "excluded": excl, "stats": stats,
            "sig": sig}


def _scale_cases(tier):
    thorough = tier == "thorough"
    out = []
    pats = ["plateau", "ramps", "tri", "qres", "stairs", "const", "valley"]
    for n in (130, 260, 300):
        for k, p in enumerate(pats):
            for tname in ("uni", "hours", "gaps"):
                if not thorough and tname != ("uni", "hours", "gaps")[k % 3] \
                        and not (tname == "uni" and p in ("qres", "valley")):
                    continue
                bw = tname == "uni" and p in ("qres", "valley") and (
                    n == 130 or thorough)
                out.append({"pat": p, "n": n, "t": tname, "h": False,
                            "mv": False, "bw": bw})
            out.append({"pat": p, "n": n, "t": "uni", "h": True, "mv": False,
                        "bw": p == "tri" and n == 130})
            if p in ("plateau", "ramps", "qres", "valley") or thorough:
                out.append({"pat": p, "n": n, "t": ("hours", "gaps")[k % 2],
                            "h": False, "mv": True, "bw": False})
                out.append({"pat": p, "n": n, "t": "uni", "h": True,
                            "mv": True, "bw": False})
    if thorough:
        for p in pats:
            out.append({"pat": p, "n": 183, "t": "hours", "h": False,
                        "mv": False, "bw": True})
    out.sort(key=lambda c: c["n"])
    return out



# --------------------------------------------------------------------------
# family mid: 17..64 samples, patterns built around record highs / lows and
# their positions (what a divide-and-conquer or stack based kernel has to get
# right), all variants reversed / negated, all rotations for 17 and 20

MID_LENGTHS = [17, 18, 20, 24, 33, 40, 64]
MID_PATTERNS = ["convex", "concave", "ramp", "saw_grow", "peaks_decr",
                "max_first", "max_last", "max_mid", "stairs_max_last",
                "bitrev", "qres"]


def _mid_pattern(name, n):
    i = np.arange(n)
    if name == "convex":
        x = i * i
    elif name == "concave":
        x = i * (2 * n - i)
    elif name == "ramp":                  # collinear throughout
        x = 3 * i
    elif name == "saw_grow":              # sawtooth with growing peaks
        x = (i % 4) * (i // 4 + 1)
    elif name == "peaks_decr":            # isolated peaks of decreasing height
        x = np.where(i % 3 == 1, n - i, 0)
    elif name in ("max_first", "max_last", "max_mid"):
        x = (i * 7) % 5
        x[{"max_first": 0, "max_last": n - 1, "max_mid": n // 2}[name]] = 100
    elif name == "stairs_max_last":
        x = i // 3
        x[-1] = n
    elif name == "bitrev":
        bits = int(np.ceil(np.log2(n)))
        x = np.array([int(format(k, "0%db" % bits)[::-1], 2) for k in i])
    elif name == "qres":
        x = (i * i) % 13
    else:
        raise ValueError(name)
    return np.asarray(x).astype(int)


def _mid_series(case):
    x = _mid_pattern(case["pat"], case["n"])
    v = case["var"]
    if v & 1:
        x = x[::-1].copy()
    if v & 2:
        x = -x
    return np.roll(x, case["rot"])


def fam_mid(case):
    n = case["n"]
    xi = _mid_series(case)
    ti = _timing(case["t"], n)
    missing = np.zeros(n, dtype=bool)
    if case["mv"]:
        missing[[n // 3, (2 * n) // 3 + 1]] = True
    return _judge_long(xi, ti, case["t"] == "uni", missing, bool(case["h"]),
                       bool(case["mv"]), bool(case.get("bw")), "mid",
                       (case["pat"], case["t"]))


def _mid_cases():
    out = []

    def add(pat, n, var, rot, nan):
        bw = n <= 24 and rot == 0 and var == 0
        out.append({"pat": pat, "n": n, "var": var, "rot": rot, "t": "uni",
                    "h": False, "mv": False, "bw": bw})
        out.append({"pat": pat, "n": n, "var": var, "rot": rot, "t": "gaps",
                    "h": False, "mv": False, "bw": False})
        if rot == 0:
            for tn in ("biggaps", "biggaps22"):
                out.append({"pat": pat, "n": n, "var": var, "rot": rot,
                            "t": tn, "h": False, "mv": False, "bw": False})
        out.append({"pat": pat, "n": n, "var": var, "rot": rot, "t": "uni",
                    "h": True, "mv": False, "bw": False})
        if nan:
            out.append({"pat": pat, "n": n, "var": var, "rot": rot,
                        "t": "gaps", "h": False, "mv": True, "bw": False})
            out.append({"pat": pat, "n": n, "var": var, "rot": rot,
                        "t": "uni", "h": True, "mv": True, "bw": False})
    for n in MID_LENGTHS:
        for pat in MID_PATTERNS:
            for var in range(4):          # as is, reversed, negated, both
                add(pat, n, var, 0, var in (0, 3))
    for n in (17, 20):
        for pat in MID_PATTERNS:
            for rot in range(1, n):
                add(pat, n, 0, rot, False)
                add(pat, n, 2, rot, False)
    out.sort(key=lambda c: c["n"])
    return out


FAMILIES = {"vg": fam_vg, "scale": fam_scale, "mid": fam_mid}


def _cases(tier):
    thorough = tier == "thorough"
    lmax = 6 if thorough else 5
    series = []
    for L in range(2, lmax + 1):
        series += [list(map(float, s))
                   for s in itertools.product(range(4), repeat=L)]
    if thorough:
        series += [list(map(float, s))
                   for s in itertools.product(range(3), repeat=7)]
    out = []
    for s in series:
        for tid in range(3):
            out.append({"x": s, "tid": tid, "h": False, "mv": False})
        out.append({"x": s, "tid": 0, "h": True, "mv": False})
        if len(s) <= 4:
            out.append({"x": s, "tid": 1, "h": True, "mv": False})
    mmax = 5 if thorough else 4
    alpha = [0.0, 1.0, 2.0, 3.0, None]
    for L in range(2, mmax + 1):
        for s in itertools.product(alpha, repeat=L):
            s = list(s)
            for tid in range(3):
                if None not in s and tid != 0:
                    continue
                out.append({"x": s, "tid": tid, "h": False, "mv": True})
            out.append({"x": s, "tid": 0, "h": True, "mv": True})
    out.sort(key=lambda c: len(c["x"]))
    return out, lmax, mmax


def run(ctx):
    cases, lmax, mmax = _cases(ctx.tier)
    ctx.rule = (
        "every series of length 2..%d over {0,1,2,3}%s x timings {uniform, "
        "%s, %s} (natural) / uniform (horizontal); every series of length "
        "2..%d over {0,1,2,3,NaN} with missing_values=True, both graph types. "
        "A case is trivial when it has no non-neighbouring pair (length 2); "
        "distinct = distinct (graph type, adjacency, vector of all "
        "time-directed measures)." % (
            lmax, " and length 7 over {0,1,2}" if ctx.tier == "thorough"
            else "", TIMINGS[1], TIMINGS[2], mmax))
    ctx.explore("vg", cases, desc="visibility criterion, measures, "
                "affine invariance, time reversal")
    mc_ = _mid_cases()
    ctx.explore("mid", mc_, desc="17..64 samples: convex/concave/ramps/"
                "growing and decreasing peaks/maximum first, last, middle/"
                "bit reversal, reversed, negated, all rotations of 17 and 20")
    ctx.notes.update({"mid_cases": len(mc_), "mid_lengths": MID_LENGTHS,
                      "mid_patterns": MID_PATTERNS})
    sc = _scale_cases(ctx.tier)
    ctx.explore("scale", sc, chunk=1, desc="130/260/300 samples: plateaus, "
                "ramps, collinear triples, missing samples around 128/256, "
                "timings ~1.9e6 with step 6")
    ctx.notes.update({"scale_cases": len(sc),
                      "scale_sizes": [130, 260, 300] + (
                          [183] if ctx.tier == "thorough" else [])})
    ctx.notes.update({"length_max": lmax, "missing_length_max": mmax,
                      "length7_alphabet3": ctx.tier == "thorough",
                      "value_maps": VALUE_MAPS, "time_maps": TIME_MAPS})
    ctx.assumptions += [
        "small integer / dyadic values and timings are exact in the "
        "library's float32 storage; slopes of such points are distinct "
        "rationals far apart relative to float32 resolution, equal rationals "
        "give identical correctly rounded quotients",
        "undefined entries of clustering (fewer than two neighbours on the "
        "side) and closeness (no or unreachable nodes on the side) are not "
        "judged",
        "betweenness normalisation: sum over ordered pairs, the convention "
        "of Network.nsi_betweenness(sources, targets) with unit weights"]
