"""C10  Similarity and coupling estimates equal reference statistics.

Bounded-exhaustive enumeration on the real estimators (quick: arrays (3,2),
(4,2) over {0,1,2} and (5,2) over {0,1}; thorough adds (3,3) over {0,1,2}):
  coupling  every data array  x  tau_max in {0,1,2}  x  lag modes: compiled
            CouplingAnalysis cross_correlation, mutual_information (gauss,
            binning with 2 and 3 bins), information_transfer (gauss; ity, mit),
            symmetrize_by_absmax of the reported maxima
  purepy    the same arrays: CouplingAnalysisPurePython cross_correlation and
            mutual_information (all / max / sum, only_tri off / on) against its
            own window definition, and agreement with the compiled class on
            the common sub-domain tau_max = 0
  climate   the same arrays as ClimateData (time_cycle 1, and 2 for T >= 4):
            Tsonis (Pearson), Spearman, partial-correlation and
            mutual-information climate networks
  partial   every array (4,3) and (5,3) over {0,1} (thorough: (4,3) over
            {0,1,2} up to column order): partial correlation with a
            non-trivial condition
  surr      Surrogates.test_pearson_correlation / test_mutual_information on
            all pairs (original, surrogate) of small arrays
  symabs    symmetrize_by_absmax on all small value / lag matrices
  perms     all pairs of permutations of 0..T-1 (tie-free series): compiled
            binned MI = pure-Python MI * log(bins) where bins | T
  knn       fixed data sets (AR(1) families, duplicates, sign flips, permuted
            columns; T = 20, 40, 60; 12 in thorough, 4 in quick)  x  k in
            {1,2,5}: k-nearest-neighbour MI / information transfer against
            brute-force counts with the same injected tie-breaking noise
  fixed     the 12 data sets: Gaussian information transfer with past in
            {1,2}, climate classes, compiled vs pure Python
  meta      affine maps x -> a x + b (dyadic, a > 0) per column and all
            column permutations: invariance / equivariance of every estimate
  scale     beyond the exhaustive bound: coupled AR(1) data sets (tie-free and
            quantised-with-ties) with T in {40, 130, 131, 136, 300, 320}
            (thorough also 257, 272, 306, 513, 640) and N = 3..5: binned MI
            with bins {8, 16, 17, 20, 32} and tau_max in {0, one of 1..4, 5}
            in the compiled and the pure-Python class and their agreement,
            Surrogates test matrices (odd and even T; 32 and 17 bins), cross-
            correlation / Gaussian MI / information transfer, the climate
            classes on a time axis 1.9e6 + 6k, kNN MI; same oracles
            (vectorised, cross-checked against the loop versions)

Where a statistic is undefined (constant window: 0/0; |rho| = 1: infinite
Gaussian MI; collinear conditions; singular covariance) the entry is excluded
and counted; definedness is decided in exact rational arithmetic on the small
arrays.
"""
import itertools
import math
import warnings

import numpy as np

from ..core import V
from ..compare import equal, F32
from ..refmodel import coupling as R

LEVEL = "exploration"
TOL = dict(F32)
ATOL = 2e-5            # absolute slack for O(1) statistics in single precision
TAUS = (0, 1, 2)
KNN_SEED = 12345


def worker_init():
    warnings.simplefilter("ignore")
    np.seterr(all="ignore")


def _close(a, b):
    return equal(a, b, **TOL)


def _near(a, b, atol=ATOL):
    return abs(float(a) - float(b)) <= atol + 2e-5 * abs(float(b))


def _call(f, *a, **k):
    try:
        return "ok", f(*a, **k)
    except Exception as e:   # noqa
        return "exc", "%s: %s" % (type(e).__name__, str(e)[:100])


def decode(case):
    T, N, base, code = case[:4]
    return np.array([[code // base ** (t * N + i) % base for i in range(N)]
                     for t in range(T)], dtype=float)


class Acc:
    """Violation / exclusion / statistics bookkeeping of one case."""

    def __init__(self):
        self.viol, self.excl, self.stats = [], {}, {}
        self.ev = 0
        self.sig = []
        self._seen = set()

    def ex(self, reason, n=1):
        self.excl[reason] = self.excl.get(reason, 0) + n

    def st(self, name, n=1):
        self.stats[name] = self.stats.get(name, 0) + n

    def v(self, key, msg, got, want):
        if key in self._seen:
            return
        self._seen.add(key)
        self.viol.append(V(key, msg, got, want))

    def result(self, trivial=False):
        return {"viol": self.viol, "evals": self.ev, "excluded": self.excl,
                "stats": self.stats, "trivial": trivial,
                "sig": str(self.sig)}


def _compare_array(acc, key, msg, G, want, judged_name):
    """Compare entries where `want` is finite; count the others."""
    G = np.asarray(G, dtype=float)
    want = np.asarray(want, dtype=float)
    if G.shape != want.shape:
        acc.v(key + ":shape", msg, G.shape, want.shape)
        return False
    m = np.isfinite(want)
    acc.st(judged_name, int(m.sum()))
    if (~m).sum():
        acc.ex("statistic undefined or infinite for this window (constant "
               "series, |rho| = 1)", int((~m).sum()))
    if not np.allclose(G[m], want[m], **TOL):
        acc.v(key, msg, G, want)
        return False
    return True


def _check_summary(acc, key, msg, S, Lg, func, use_abs, offdiag_only=True,
                   lag_of=None):
    """func[i][j] = {lag: value} or None (entry not judged)."""
    N = len(func)
    for i in range(N):
        for j in range(N):
            if offdiag_only and i == j:
                continue
            f = func[i][j]
            if f is None:
                continue
            acc.st("max_summaries_judged")
            lag = int(Lg[i][j]) if lag_of is None else lag_of(Lg[i][j])
            val = float(S[i][j])
            m = R.check_absmax(val, lag, f, ATOL, use_abs)
            if m is not None:
                acc.v(key, "%s entry (%d,%d): %s" % (msg, i, j, m),
                      [val, lag], f)
                return


def _lagdict(L, i, j):
    v = [float(x) for x in L[i, j, :]]
    if not all(math.isfinite(x) for x in v):
        return None
    return {tau: x for tau, x in enumerate(v)}


def _mi_summary_func(L, i, j):
    """MI-type lag function for the 'max' summary: judged only when its
    maximum is positive and dominates in absolute value (the library scans
    for the largest estimate starting from 0)."""
    f = _lagdict(L, i, j)
    if f is None:
        return None, "undefined"
    mx = max(f.values())
    if mx <= 0 or mx < max(abs(x) for x in f.values()) - 1e-12:
        return None, "nonpositive"
    return f, None


# ---------------------------------------------------------------------------
# compiled CouplingAnalysis on the exhaustive small arrays


def _CA(data):
    from pyunicorn.funcnet import CouplingAnalysis
    return CouplingAnalysis(np.array(data, dtype=float), silence_level=3)


def _check_cc(acc, ca, data, tau_max):
    N = data.shape[1]
    L = R.cc_lagfunc(data, tau_max)
    st, G = _call(ca.cross_correlation, tau_max=tau_max, lag_mode="all")
    acc.ev += 1
    if st == "exc":
        acc.v("CouplingAnalysis.cross_correlation:raises:lag_mode=all", G, G,
              None)
    else:
        _compare_array(acc, "CouplingAnalysis.cross_correlation:value:"
                       "lag_mode=all", "tau_max=%d" % tau_max, G, L,
                       "cc_entries_judged")
        G = np.asarray(G, float)
        if np.abs(G).max() > 1 + ATOL:
            acc.v("CouplingAnalysis.cross_correlation:bound", "|cc| > 1", G,
                  "<= 1")
        if not np.allclose(G[:, :, 0], G[:, :, 0].T, atol=ATOL):
            acc.v("CouplingAnalysis.cross_correlation:symmetry",
                  "lag 0 slice is not symmetric", G[:, :, 0], None)
    st, r = _call(ca.cross_correlation, tau_max=tau_max, lag_mode="max")
    acc.ev += 1
    if st == "exc":
        acc.v("CouplingAnalysis.cross_correlation:raises:lag_mode=max", r, r,
              None)
        return
    S, Lg = np.array(r[0], dtype=float), np.array(r[1])
    func = [[_lagdict(L, i, j) for j in range(N)] for i in range(N)]
    nund = sum(1 for i in range(N) for j in range(N)
               if i != j and func[i][j] is None)
    if nund:
        acc.ex("max summary over a lag function with undefined entries",
               nund)
    _check_summary(acc, "CouplingAnalysis.cross_correlation:max-summary",
                   "tau_max=%d" % tau_max, S, Lg, func, True)
    for i in range(N):
        if not R.is_const(data[tau_max:, i]):
            if not (_near(S[i, i], 1.0) and int(Lg[i, i]) == 0):
                acc.v("CouplingAnalysis.cross_correlation:diag:lag_mode=max",
                      "diagonal is not (1, lag 0)", [S[i, i], Lg[i, i]],
                      [1, 0])
    # symmetrisation of exactly what the library reported
    _check_symabs(acc, ca, S.astype(np.float32), Lg.astype(np.int8))
    acc.sig.append(np.round(L, 4).tolist())


def _check_symabs(acc, ca, S, Lg):
    N = len(S)
    want = R.symmetrize_by_absmax(S.tolist(), Lg.tolist(), tol=0.0)
    st, r = _call(ca.symmetrize_by_absmax, S.copy(), Lg.copy())
    acc.ev += 1
    if st == "exc":
        acc.v("CouplingAnalysis.symmetrize_by_absmax:raises", r, r, None)
        return
    S2, L2 = np.asarray(r[0], float), np.asarray(r[1])
    for (i, j), opts in want.items():
        got = (float(S2[i, j]), float(S2[j, i]), int(L2[i, j]),
               int(L2[j, i]))
        acc.st("symabs_pairs_judged")
        if not any(abs(got[0] - o[0]) <= 1e-6 and abs(got[1] - o[1]) <= 1e-6
                   and got[2] == o[2] and got[3] == o[3] for o in opts):
            acc.v("CouplingAnalysis.symmetrize_by_absmax:value",
                  "pair (%d,%d) of S=%s lags=%s" % (i, j, S.tolist(),
                                                   Lg.tolist()), got, opts)
            return
    for i in range(N):
        if float(S2[i, i]) != float(S[i, i]) or int(L2[i, i]) != int(
                Lg[i, i]):
            acc.v("CouplingAnalysis.symmetrize_by_absmax:diag",
                  "diagonal changed", [S2[i, i], L2[i, i]],
                  [S[i, i], Lg[i, i]])


def _gauss_lagfunc(data, tau_max):
    """Gaussian MI lag function and whether some window is constant."""
    T, N = data.shape
    L = np.full((N, N, tau_max + 1), np.nan)
    any_const = False
    for i in range(N):
        for j in range(N):
            for tau in range(tau_max + 1):
                x = data[tau_max - tau:T - tau, i]
                y = data[tau_max:T, j]
                s = R.corr_status(x, y)
                if s == "undef":
                    any_const = True
                elif s == "one":
                    L[i, j, tau] = np.inf
                else:
                    L[i, j, tau] = R.gauss_mi(R.pearson(x, y))
    return L, any_const


def _check_mi(acc, ca, data, tau_max, estimator, bins, fast=False,
              do_max=True):
    T, N = data.shape
    tag = estimator if estimator == "gauss" else "binning"
    kw = dict(tau_max=tau_max, estimator=estimator)
    if estimator == "binning":
        kw["bins"] = bins
        L = (R.binned_mi_lagfunc_np if fast else R.binned_mi_lagfunc)(
            data, tau_max, bins)
        any_const = False
    else:
        L, any_const = _gauss_lagfunc(data, tau_max)
    st, G = _call(ca.mutual_information, lag_mode="all", **kw)
    if do_max:
        st2, r = _call(ca.mutual_information, lag_mode="max", **kw)
    else:
        st2, r = "skip", None
    acc.ev += 2 if do_max else 1
    if any_const:
        acc.ex("gauss estimator on a constant window (0/0; the library "
               "raises)", 2)
        return
    if st == "exc" or st2 == "exc":
        acc.v("CouplingAnalysis.mutual_information:raises:" + tag,
              "tau_max=%d bins=%s" % (tau_max, bins),
              G if st == "exc" else r, None)
        return
    G = np.asarray(G, float)
    Lj = np.where(np.isinf(L), np.nan, L)
    m = np.isfinite(Lj)
    ok = np.allclose(G[m], Lj[m], **TOL)
    acc.st("mi_entries_judged", int(m.sum()))
    if (~m).sum():
        acc.ex("statistic undefined or infinite for this window (constant "
               "series, |rho| = 1)", int((~m).sum()))
    if not ok:
        key = "CouplingAnalysis.mutual_information:value:" + tag
        if tag == "binning" and tau_max > 0 and np.allclose(
                G[m], Lj[m] * (T - tau_max) / T, **TOL):
            key += ",tau_max>0=x(T-tau_max)/T"
        acc.v(key, "tau_max=%d bins=%s lag_mode=all" % (tau_max, bins), G, L)
    if G[m].size and G[m].min() < -ATOL:
        acc.v("CouplingAnalysis.mutual_information:bound:" + tag,
              "negative MI", G, ">= 0")
    if not np.allclose(G[:, :, 0], G[:, :, 0].T, atol=ATOL, equal_nan=True):
        acc.v("CouplingAnalysis.mutual_information:symmetry:" + tag,
              "lag 0 slice is not symmetric", G[:, :, 0], None)
    acc.sig.append(np.round(Lj, 4).tolist())
    if not do_max:
        return
    # value / lag at the maximum, against the lag function the library
    # itself reports (same loop, so one defect gives one key)
    S, Lg = np.asarray(r[0], float), np.asarray(r[1])
    func = [[None] * N for _ in range(N)]
    for i in range(N):
        for j in range(N):
            if not np.isfinite(L[i, j]).all():
                acc.ex("max summary over a lag function with undefined "
                       "entries")
                continue
            f, why = _mi_summary_func(G, i, j)
            if f is None:
                acc.ex("max summary of a lag function without a positive "
                       "maximum (library reports 0 at lag 0)")
            func[i][j] = f
    _check_summary(acc, "CouplingAnalysis.mutual_information:max-summary:"
                   + tag, "tau_max=%d bins=%s" % (tau_max, bins), S, Lg, func,
                   False, offdiag_only=False)


def _it_lagfunc(data, tau_max, past, cond_mode, exact=True):
    """Gaussian conditional information transfer, off-diagonal entries.
    Returns (L, any_const): NaN = undefined, inf = |rho| = 1."""
    T, N = data.shape
    max_lag = tau_max + past
    L = np.full((N, N, tau_max + 1), np.nan)
    any_const = False
    status = R.exact_partial_status if exact else R.numeric_partial_status
    for i in range(N):
        for j in range(N):
            for tau in range(tau_max + 1):
                X, Y, Z = R.it_spec(i, j, tau, past, cond_mode)
                rows = R.window_rows(data, [X, Y] + Z, max_lag)
                if any(R.is_const(r) for r in rows):
                    any_const = True
                    continue
                if i == j:
                    continue
                s = status(rows[0], rows[1], rows[2:])
                if s == "one":
                    L[i, j, tau] = np.inf
                elif s == "ok":
                    rho = R.partial_corr(rows[0], rows[1], rows[2:])
                    L[i, j, tau] = R.gauss_mi(rho)
    return L, any_const


def _check_it_gauss(acc, ca, data, tau_max, past, cond_mode, exact=True):
    T, N = data.shape
    if T - tau_max - past < 2:
        return
    tag = "gauss-" + cond_mode
    kw = dict(tau_max=tau_max, estimator="gauss", past=past,
              cond_mode=cond_mode)
    L, any_const = _it_lagfunc(data, tau_max, past, cond_mode, exact)
    st, G = _call(ca.information_transfer, lag_mode="all", **kw)
    st2, r = _call(ca.information_transfer, lag_mode="max", **kw)
    acc.ev += 2
    if any_const:
        acc.ex("gauss estimator on a constant window (0/0; the library "
               "raises)", 2)
        return
    Lj = np.where(np.isinf(L), np.nan, L)
    if st == "exc":
        acc.v("CouplingAnalysis.information_transfer:raises:lag_mode=all",
              "tau_max=%d past=%d %s: %s" % (tau_max, past, cond_mode, G), G,
              "a lag function")
    else:
        G = np.asarray(G, float)
        _compare_array(acc, "CouplingAnalysis.information_transfer:value:"
                       + tag + ",lag_mode=all", "tau_max=%d past=%d" % (
                           tau_max, past), G, Lj, "it_entries_judged")
    if st2 == "exc":
        acc.v("CouplingAnalysis.information_transfer:raises:lag_mode=max,"
              + tag, r, r, None)
        return
    S, Lg = np.asarray(r[0], float), np.asarray(r[1])
    func = [[None] * N for _ in range(N)]
    for i in range(N):
        for j in range(N):
            if i == j:
                continue
            if not np.isfinite(L[i, j]).all():
                acc.ex("max summary over a lag function with undefined "
                       "entries")
                continue
            f, why = _mi_summary_func(Lj, i, j)
            if f is None:
                acc.ex("max summary of a lag function without a positive "
                       "maximum (library reports 0 at lag 0)")
            func[i][j] = f
    acc.st("it_summaries_offered", sum(1 for row in func for f in row
                                        if f is not None))
    _check_summary(acc, "CouplingAnalysis.information_transfer:max-summary:"
                   + tag, "tau_max=%d past=%d" % (tau_max, past), S, Lg, func,
                   False)
    acc.sig.append(np.round(Lj, 4).tolist())


def fam_coupling(case):
    data = decode(case)
    T, N = data.shape
    acc = Acc()
    ca = _CA(data)
    for tau_max in TAUS:
        if tau_max >= T:
            continue
        _check_cc(acc, ca, data, tau_max)
        _check_mi(acc, ca, data, tau_max, "gauss", None)
        for bins in (2, 3):
            _check_mi(acc, ca, data, tau_max, "binning", bins)
        for cond in ("ity", "mit"):
            _check_it_gauss(acc, ca, data, tau_max, 1, cond)
    if not np.array_equal(ca.data, data):
        acc.v("CouplingAnalysis:input-modified", "", ca.data, data)
    return acc.result(trivial=all(R.is_const(data[:, i]) for i in range(N)))


# ---------------------------------------------------------------------------
# pure-Python class


def _PP(data, only_tri):
    from pyunicorn.funcnet.coupling_analysis_pure_python import \
        CouplingAnalysisPurePython
    return CouplingAnalysisPurePython(np.array(data, dtype=float),
                                      only_tri=only_tri, silence_level=3)


def _pp_expect(C, tau_max, mode):
    """From the two-sided lag function C[t,i,j] (NaN = undefined) to the
    documented outputs.  Returns array(s) with NaN where not judged."""
    A = np.abs(C)
    if mode == "all":
        return C
    if mode == "sum":
        pos = A[tau_max:].sum(axis=0)      # NaN propagates
        neg = A[:tau_max + 1].sum(axis=0)
        return np.array([pos, neg])
    raise ValueError(mode)


def _pp_check(acc, name, pp, only_tri, C, tau_max, call, is_mi,
              modes=("all", "sum", "max")):
    n = C.shape[1]
    tri = np.triu(np.ones((n, n), bool), 1) if only_tri else \
        np.ones((n, n), bool)
    if only_tri:
        acc.ex("only_tri=True: diagonal and lower triangle (docstring says "
               "zeros, code mirrors the upper triangle)",
               int((~tri).sum()))
    base = "CouplingAnalysisPurePython.%s:" % name
    for mode in modes:
        st, G = _call(call, lag_mode=mode)
        acc.ev += 1
        if st == "exc":
            acc.v(base + "raises:" + mode, G, G, None)
            continue
        G = np.asarray(G, float)
        if mode in ("all", "sum"):
            want = _pp_expect(C, tau_max, mode)
            if G.shape != want.shape:
                acc.v(base + "shape:" + mode, "", G.shape, want.shape)
                continue
            m = np.isfinite(want) & tri[None, :, :]
            acc.st("pp_entries_judged", int(m.sum()))
            nund = int((~np.isfinite(want) & tri[None, :, :]).sum())
            if nund:
                acc.ex("statistic undefined for this window (constant "
                       "series / premise of equiprobable bins violated)",
                       nund)
            if not np.allclose(G[m], want[m], **TOL):
                acc.v(base + "value:" + mode, "tau_max=%d only_tri=%s" % (
                    tau_max, only_tri), G, want)
        else:
            for i in range(n):
                for j in range(n):
                    if not tri[i, j]:
                        continue
                    col = C[:, i, j]
                    if not np.isfinite(col).all():
                        acc.ex("max summary over a lag function with "
                               "undefined entries")
                        continue
                    if is_mi:
                        f = {t - tau_max: float(col[t])
                             for t in range(len(col))}
                        if max(f.values()) <= 0:
                            acc.ex("max summary of a lag function without "
                                   "a positive maximum (library reports 0 "
                                   "at lag 0)")
                            continue
                    else:
                        f = {t - tau_max: abs(float(col[t]))
                             for t in range(len(col))}
                        if max(f.values()) <= ATOL:
                            acc.ex("max summary of an all-zero lag function")
                            continue
                    acc.st("max_summaries_judged")
                    msg = R.check_absmax(float(G[0, i, j]),
                                         int(round(G[1, i, j])), f, ATOL,
                                         False)
                    if msg is not None:
                        acc.v(base + "max-summary", "tau_max=%d only_tri=%s "
                              "entry (%d,%d): %s" % (tau_max, only_tri, i, j,
                                                     msg),
                              [G[0, i, j], G[1, i, j]], f)


def fam_purepy(case):
    data = decode(case)
    T, N = data.shape
    acc = Acc()
    ca = _CA(data)
    for tau_max in TAUS:
        M = T - 2 * tau_max
        if M < 1:
            continue
        C = R.pp_cc_lagfunc(data, tau_max)
        for only_tri in (False, True):
            pp = _PP(data, only_tri)
            _pp_check(acc, "cross_correlation", pp, only_tri, C, tau_max,
                      lambda lag_mode: pp.cross_correlation(
                          tau_max=tau_max, lag_mode=lag_mode), False)
        acc.sig.append(np.round(C, 4).tolist())
        for bins in (2, 3):
            Cm = R.pp_mi_lagfunc(data, tau_max, bins)
            for only_tri in (False, True):
                pp = _PP(data, only_tri)
                _pp_check(acc, "mutual_information", pp, only_tri, Cm,
                          tau_max, lambda lag_mode: pp.mutual_information(
                              bins=bins, tau_max=tau_max, lag_mode=lag_mode),
                          True)
            acc.sig.append(np.round(Cm, 4).tolist())
    # alternative implementations agree where they evaluate the same formula
    _agree(acc, ca, data)
    return acc.result(trivial=all(R.is_const(data[:, i]) for i in range(N)))


def _agree(acc, ca, data, bins_menu=(2, 3), fast=False):
    T, N = data.shape
    pp = _PP(data, False)
    a = np.asarray(ca.cross_correlation(tau_max=0, lag_mode="all"), float)
    b = np.asarray(pp.cross_correlation(tau_max=0, lag_mode="all"), float)
    acc.ev += 2
    defined = np.array([[R.corr_status(data[:, i], data[:, j]) != "undef"
                         for j in range(N)] for i in range(N)])
    acc.st("agree_entries_judged", int(defined.sum()))
    if not np.allclose(a[:, :, 0][defined], b[0][defined], **TOL):
        acc.v("CouplingAnalysis~PurePython.cross_correlation:disagree:"
              "tau_max=0", "compiled vs pure Python", a[:, :, 0], b[0])
    sa, la = ca.cross_correlation(tau_max=0, lag_mode="max")
    mb = np.asarray(pp.cross_correlation(tau_max=0, lag_mode="max"), float)
    off = defined & ~np.eye(N, dtype=bool)
    if not np.allclose(np.abs(np.asarray(sa, float))[off], mb[0][off],
                       **TOL):
        acc.v("CouplingAnalysis~PurePython.cross_correlation:disagree:"
              "max,tau_max=0", "|compiled value| vs pure Python value",
              sa, mb[0])
    for bins in bins_menu:
        Cm = (R.pp_mi_lagfunc_np if fast else R.pp_mi_lagfunc)(
            data, 0, bins)[0]
        m = np.isfinite(Cm)
        if not m.any():
            acc.ex("compiled vs pure-Python MI: premise of equiprobable "
                   "bins violated (ties or bins does not divide T)")
            continue
        _, b_eff = R.quantile_symbols(data[:, 0], bins)
        ga = np.asarray(ca.mutual_information(
            tau_max=0, estimator="binning", bins=bins, lag_mode="all"),
            float)[:, :, 0]
        gb = np.asarray(pp.mutual_information(
            bins=bins, tau_max=0, lag_mode="all"), float)[0]
        acc.ev += 2
        acc.st("agree_entries_judged", int(m.sum()))
        if not np.allclose(ga[m], gb[m] * math.log(b_eff), **TOL):
            acc.v("CouplingAnalysis~PurePython.mutual_information:disagree:"
                  "tau_max=0", "bins=%d: compiled vs pure*log(bins)" % bins,
                  ga, gb * math.log(b_eff))


# ---------------------------------------------------------------------------
# climate similarity classes


def _climate_data(data, time_cycle):
    from pyunicorn.core import GeoGrid
    from pyunicorn.climate import ClimateData
    T, N = data.shape
    grid = GeoGrid(time_seq=np.arange(T, dtype=float),
                   lat_seq=np.linspace(0.0, 10.0 * (N - 1), N),
                   lon_seq=np.linspace(0.0, 15.0 * (N - 1), N),
                   silence_level=3)
    return ClimateData(observable=np.array(data, dtype=float), grid=grid,
                       time_cycle=time_cycle, silence_level=3)


def _pair_matrix(cols, f):
    N = len(cols)
    M = np.full((N, N), np.nan)
    for i in range(N):
        for j in range(N):
            M[i, j] = f(cols[i], cols[j])
    return M


def _ordinal_spearman(cols):
    r = [R.ordinal_ranks(list(c)) for c in cols]
    return _pair_matrix(r, R.pearson)


def _partial_matrix(anom, exact, exact_src=None):
    """Partial correlation of every pair given all other columns; None when
    the covariance matrix is singular (statistic undefined).  exact_src: the
    same series in exact arithmetic (decides singularity)."""
    T, N = anom.shape
    cols = [anom[:, i] for i in range(N)]
    if any(R.is_const(c) for c in cols):
        return None
    if exact:
        if R.exact_cov_singular(exact_src if exact_src is not None
                                else anom.tolist()):
            return None
    else:
        C = np.corrcoef(anom.T)
        if np.linalg.svd(C, compute_uv=False).min() < 1e-6:
            return None
    M = np.full((N, N), np.nan)
    for i in range(N):
        for j in range(N):
            if i != j:
                Z = [cols[k] for k in range(N) if k not in (i, j)]
                M[i, j] = R.partial_corr(cols[i], cols[j], Z)
    return M


def _check_climate(acc, data, time_cycle, exact=True,
                   classes=("tsonis", "spearman", "partial", "mi"),
                   mk=None, mi_tol=1e-4):
    mk = mk or _climate_data
    from pyunicorn import climate
    T, N = data.shape
    table = {"tsonis": climate.TsonisClimateNetwork,
             "spearman": climate.SpearmanClimateNetwork,
             "partial": climate.PartialCorrelationClimateNetwork,
             "mi": climate.MutualInfoClimateNetwork}
    for name in classes:
        cls = table[name]
        cname = cls.__name__
        cd = mk(data, time_cycle)
        if time_cycle == 1:
            anom = data - data.mean(axis=0)
            src = data          # correlations do not depend on the mean
        else:
            anom = np.array(cd.anomaly(), dtype=float)   # as reported
            src = anom
        cols = [src[:, i] for i in range(N)]
        st, net = _call(cls, cd, threshold=0.5, winter_only=False,
                        silence_level=3)
        acc.ev += 1
        if st == "exc":
            if any(R.is_const(c) for c in cols):
                acc.ex("climate network on data with a constant series "
                       "cannot be constructed")
            else:
                acc.v(cname + ":raises", net, net, None)
            continue
        sim = np.asarray(net.similarity_measure(), float)
        st, calc = _call(net.calculate_similarity_measure, anom.copy())
        if st == "exc":
            acc.v(cname + ".calculate_similarity_measure:raises", calc, calc,
                  None)
            continue
        calc = np.asarray(calc, float)
        # every one of these statistics is unchanged when a constant is added
        # to a series: the direct call on series with non-zero means (user-
        # declared anomalies, a season selection) must give the same matrix
        shifted = anom + (1.5 * np.arange(N) + 2.0)[None, :]
        st2, calc2 = _call(net.calculate_similarity_measure, shifted)
        acc.ev += 1
        if st2 == "ok" and name != "partial":   # (singular cases: below)
            calc2 = np.asarray(calc2, float)
            both = np.isfinite(calc) & np.isfinite(calc2)
            if name == "partial":
                both &= ~np.eye(N, dtype=bool)
            tol2 = dict(rtol=0, atol=mi_tol) if name == "mi" else TOL
            if calc2.shape != calc.shape or not np.allclose(
                    calc2[both], calc[both], **tol2):
                acc.v(cname + ".calculate_similarity_measure:not-shift-"
                      "invariant", "series with non-zero means (a constant "
                      "added to every series)", calc2, calc)
        off = ~np.eye(N, dtype=bool)
        if name == "partial":
            cmp_mask = off
        else:
            cmp_mask = np.ones((N, N), bool)
        fin = np.isfinite(calc) & cmp_mask
        if not np.allclose(sim[fin], np.abs(calc)[fin], **TOL):
            acc.v(cname + ".similarity_measure:!=abs(calculate_similarity_"
                  "measure)", "", sim, np.abs(calc))
        if name == "tsonis":
            want = _pair_matrix(cols, R.pearson)
        elif name == "spearman":
            want = _pair_matrix(cols, R.spearman)
        elif name == "partial":
            want = _partial_matrix(
                src, exact, R.exact_anomaly(data.tolist(), time_cycle)
                if exact else None)
            if want is None:
                acc.ex("partial correlation undefined: singular covariance "
                       "matrix", N * (N - 1))
                continue
            acc.ex("partial correlation: diagonal not a pairwise estimate",
                   N)
        else:
            normed = []
            for c in cols:
                c = np.asarray(c, float) - np.mean(c)
                s = math.sqrt(float(np.mean(c * c)))
                normed.append(c / s if s > 0 else c * 0.0)
            want, ok = R.uniform_mi_matrix(normed, normed, 32, tol=mi_tol)
            if not ok:
                acc.ex("histogram MI: bin assignment depends on rounding or "
                       "degenerate range", N * (N - 1))
                continue
            want = want.copy()
            want[np.eye(N, dtype=bool)] = np.nan
            acc.ex("histogram MI: diagonal not computed by convention", N)
        m = np.isfinite(want)
        acc.st("climate_entries_judged", int(m.sum()))
        nund = int((~m & cmp_mask).sum()) if name != "mi" else 0
        if nund:
            acc.ex("statistic undefined or infinite for this window "
                   "(constant series, |rho| = 1)", nund)
        if not np.allclose(calc[m], want[m], **TOL):
            key = cname + ".calculate_similarity_measure:value"
            if name == "spearman":
                tied = any(R.has_ties(c) for c in cols)
                if tied:
                    # closed form of the deviation: Pearson correlation of
                    # *some* ordinal ranking (ties broken arbitrarily by the
                    # sort) instead of average ranks
                    rk = np.asarray(net.rank_time_series(anom.copy()))
                    valid = all(
                        sorted(rk[:, i].tolist()) == list(range(T)) and
                        all((anom[a, i] < anom[b, i]) <= (rk[a, i] < rk[b, i])
                            for a in range(T) for b in range(T))
                        for i in range(N))
                    alt = _pair_matrix([rk[:, i].astype(float)
                                        for i in range(N)], R.pearson)
                    mm = m & np.isfinite(alt)
                    if valid and np.allclose(calc[mm], alt[mm], **TOL):
                        key += ":has_ties=ordinal-ranks"
                    else:
                        key += ":has_ties"
                else:
                    key += ":no_ties"
            acc.v(key, "time_cycle=%d" % time_cycle, calc, want)
        if not np.allclose(calc[fin], calc.T[fin], atol=ATOL):
            acc.v(cname + ".calculate_similarity_measure:symmetry", "", calc,
                  None)
        if name != "mi" and np.abs(calc[fin]).max(initial=0) > 1 + ATOL:
            acc.v(cname + ".calculate_similarity_measure:bound", "", calc,
                  "<= 1")
        acc.sig.append([name, time_cycle, np.round(
            np.where(m, want, 0), 4).tolist()])


def fam_climate(case):
    data = decode(case)
    T, N = data.shape
    acc = Acc()
    _check_climate(acc, data, 1)
    if T >= 4:
        _check_climate(acc, data, 2)
    return acc.result(trivial=all(R.is_const(data[:, i]) for i in range(N)))


def fam_partial(case):
    data = decode(case)
    T, N = data.shape
    acc = Acc()
    _check_climate(acc, data, 1, classes=("partial",))
    return acc.result(trivial=all(R.is_const(data[:, i]) for i in range(N)))


# ---------------------------------------------------------------------------
# surrogate test matrices


def _normalise_rows(A):
    out = []
    const = []
    for r in A:
        r = np.asarray(r, float)
        c = r - r.mean()
        s = math.sqrt(float((c * c).mean()))
        const.append(s == 0)
        out.append(c / s if s > 0 else c * 0.0)
    return np.array(out), const


def fam_surr(case):
    from pyunicorn.timeseries import Surrogates
    T, N, base_o, code_o, base_s, first_row_zero = case
    acc = Acc()
    O = decode((T, N, base_o, code_o)).T.copy()        # [index, time]
    On, oconst = _normalise_rows(O)
    off = ~np.eye(N, dtype=bool)
    if first_row_zero:
        codes = [c * base_s ** N for c in range(base_s ** ((T - 1) * N))]
    else:
        codes = range(base_s ** (T * N))
    for code_s in codes:
        S = decode((T, N, base_s, code_s)).T.copy()
        Sn, sconst = _normalise_rows(S)
        # Pearson test matrix of normalised series
        st, G = _call(Surrogates.test_pearson_correlation, On.copy(),
                      Sn.copy())
        acc.ev += 1
        if st == "exc":
            acc.v("Surrogates.test_pearson_correlation:raises", G, G, None)
        else:
            G = np.asarray(G, float)
            want = np.full((N, N), np.nan)
            for i in range(N):
                for j in range(N):
                    if i != j and not oconst[i] and not sconst[j]:
                        want[i, j] = R.pearson(O[i], S[j])
            m = np.isfinite(want)
            acc.st("surr_pearson_entries_judged", int(m.sum()))
            acc.ex("statistic undefined or infinite for this window "
                   "(constant series, |rho| = 1)", int((off & ~m).sum()))
            if not np.allclose(G[m], want[m], **TOL):
                acc.v("Surrogates.test_pearson_correlation:value",
                      "orig=%s surr=%s" % (O.tolist(), S.tolist()), G, want)
        # MI test matrix: normalised series, 32 equal-width bins
        if not (all(oconst) and all(sconst)):
            want, ok = R.uniform_mi_matrix(On, Sn, 32)
            if not ok:
                acc.ex("histogram MI: bin assignment depends on rounding or "
                       "degenerate range")
            else:
                st, G = _call(Surrogates.test_mutual_information, On.copy(),
                              Sn.copy())
                acc.ev += 1
                if st == "exc":
                    acc.v("Surrogates.test_mutual_information:raises", G, G,
                          None)
                else:
                    G = np.asarray(G, float)
                    acc.st("surr_mi_entries_judged", int(off.sum()))
                    if not np.allclose(G[off], want[off], **TOL):
                        acc.v("Surrogates.test_mutual_information:value:"
                              "normalised", "orig=%s surr=%s" % (
                                  O.tolist(), S.tolist()), G, want)
        # raw dyadic data, few bins: the binning rule itself is exercised
        if True:
            for nb in (2, 3):
                want, ok = R.uniform_mi_matrix(O, S, nb, exact=True)
                if not ok:
                    acc.ex("histogram MI: bin assignment depends on "
                           "rounding or degenerate range")
                    continue
                st, G = _call(Surrogates.test_mutual_information, O.copy(),
                              S.copy(), n_bins=nb)
                acc.ev += 1
                if st == "exc":
                    acc.v("Surrogates.test_mutual_information:raises", G, G,
                          None)
                    continue
                G = np.asarray(G, float)
                acc.st("surr_mi_entries_judged", int(off.sum()))
                if not np.allclose(G[off], want[off], **TOL):
                    acc.v("Surrogates.test_mutual_information:value:raw",
                          "n_bins=%d orig=%s surr=%s" % (
                              nb, O.tolist(), S.tolist()), G, want)
                if G[off].min() < -ATOL:
                    acc.v("Surrogates.test_mutual_information:bound", "", G,
                          ">= 0")
    acc.ex("surrogate test matrices: diagonal not computed by convention",
           N * len(codes))
    acc.sig.append(O.tolist())
    return acc.result(trivial=all(oconst))


# ---------------------------------------------------------------------------
# symmetrize_by_absmax on arbitrary small matrices

SYM_VALUES = {2: [-1.0, -0.5, 0.0, 0.5, 1.0], 3: [-1.0, 0.5]}
SYM_LAGS = {2: [0, 1, 2], 3: [0, 1]}


def fam_symabs(case):
    N, cs, cl = case
    acc = Acc()
    vals, lags = SYM_VALUES[N], SYM_LAGS[N]
    offd = [(i, j) for i in range(N) for j in range(N) if i != j]
    S = np.eye(N, dtype=np.float32)
    L = np.zeros((N, N), dtype=np.int8)
    for k, (i, j) in enumerate(offd):
        S[i, j] = vals[cs // len(vals) ** k % len(vals)]
        L[i, j] = lags[cl // len(lags) ** k % len(lags)]
    ca = _CA(np.zeros((3, N)))
    _check_symabs(acc, ca, S, L)
    acc.sig.append([S.tolist(), L.tolist()])
    return acc.result()


# ---------------------------------------------------------------------------
# tie-free series: compiled binned MI vs pure Python


def fam_perms(case):
    T, pa, pb = case
    perms = list(itertools.permutations(range(T)))
    data = np.array([perms[pa], perms[pb]], dtype=float).T.copy()
    acc = Acc()
    ca = _CA(data)
    bins_menu = [b for b in range(2, T + 1) if T % b == 0]
    _agree(acc, ca, data, bins_menu)
    for bins in bins_menu:
        L = R.binned_mi_lagfunc(data, 0, bins)
        G = np.asarray(ca.mutual_information(
            tau_max=0, estimator="binning", bins=bins, lag_mode="all"), float)
        acc.ev += 1
        acc.st("mi_entries_judged", int(L.size))
        if not np.allclose(G, L, **TOL):
            acc.v("CouplingAnalysis.mutual_information:value:binning",
                  "bins=%d" % bins, G, L)
        acc.sig.append(np.round(L, 4).tolist())
    return acc.result()


# ---------------------------------------------------------------------------
# fixed data sets

FIXED_T = (20, 40, 60)
FIXED_VARIANTS = ("base", "dup", "flip", "perm")


def fixed_data(idx):
    """12 deterministic data sets: index = 4 * (T index) + variant."""
    T = FIXED_T[idx // 4]
    variant = FIXED_VARIANTS[idx % 4]
    rs = np.random.RandomState(20261004 + T)
    e = rs.randn(T + 20, 3)
    x = np.zeros((T + 20, 3))
    for t in range(1, T + 20):
        x[t, 0] = 0.6 * x[t - 1, 0] + e[t, 0]
        x[t, 1] = 0.5 * x[t - 1, 1] + 0.6 * x[t - 1, 0] + e[t, 1]
        x[t, 2] = 0.4 * x[t - 1, 2] + e[t, 2]
    x = x[20:]
    if variant == "dup":
        x = np.column_stack([x[:, 0], x[:, 0], x[:, 1]])
    elif variant == "flip":
        x = np.column_stack([x[:, 0], -x[:, 0], x[:, 1]])
    elif variant == "perm":
        x = x[:, [2, 0, 1]]
    return np.ascontiguousarray(x)


def _knn_lagfunc(data, tau_max, k, spec_of, max_lag, seed, skip_diag=False):
    """Brute-force kNN (C)MI lag function with the library's injected
    noise: numpy's global stream, one (dim, M) draw per (i, j, tau) in
    row-major order."""
    T, N = data.shape
    rs = np.random.RandomState(seed)
    L = np.full((N, N, tau_max + 1), np.nan)
    for i in range(N):
        for j in range(N):
            for tau in range(tau_max + 1):
                rows = R.window_rows(data, spec_of(i, j, tau), max_lag)
                a = R.standardize32(rows)
                a += 1e-10 * rs.rand(*a.shape)
                L[i, j, tau] = R.knn_cmi(a, k)
    return L


def fam_knn(case):
    idx, k = case
    data = fixed_data(idx)
    T, N = data.shape
    acc = Acc()
    ca = _CA(data)
    for tau_max in TAUS:
        # ---- mutual information
        L = _knn_lagfunc(data, tau_max, k,
                         lambda i, j, tau: [(i, -tau), (j, 0)], tau_max,
                         KNN_SEED)
        np.random.seed(KNN_SEED)
        st, G = _call(ca.mutual_information, tau_max=tau_max,
                      estimator="knn", knn=k, lag_mode="all")
        np.random.seed(KNN_SEED)
        st2, r = _call(ca.mutual_information, tau_max=tau_max,
                       estimator="knn", knn=k, lag_mode="max")
        acc.ev += 2
        if st == "exc" or st2 == "exc":
            acc.v("CouplingAnalysis.mutual_information:raises:knn",
                  "tau_max=%d k=%d" % (tau_max, k), G if st == "exc" else r,
                  None)
        else:
            G = np.asarray(G, float)
            _compare_array(acc, "CouplingAnalysis.mutual_information:value:"
                           "knn", "tau_max=%d k=%d lag_mode=all" % (
                               tau_max, k), G, L, "knn_entries_judged")
            S, Lg = np.asarray(r[0], float), np.asarray(r[1])
            func = [[None] * N for _ in range(N)]
            for i in range(N):
                for j in range(N):
                    f, why = _mi_summary_func(G, i, j)
                    if f is None:
                        acc.ex("max summary of a lag function without a "
                               "positive maximum (library reports 0 at lag "
                               "0)")
                    func[i][j] = f
            _check_summary(acc, "CouplingAnalysis.mutual_information:"
                           "max-summary:knn", "tau_max=%d k=%d" % (
                               tau_max, k), S, Lg, func, False,
                           offdiag_only=False)
            acc.sig.append(np.round(L, 3).tolist())
        # ---- information transfer
        for cond in ("ity", "mit"):
            past = 1

            def spec(i, j, tau):
                X, Y, Z = R.it_spec(i, j, tau, past, cond)
                return [X, Y] + Z
            L = _knn_lagfunc(data, tau_max, k, spec, tau_max + past,
                             KNN_SEED)
            np.random.seed(KNN_SEED)
            st2, r = _call(ca.information_transfer, tau_max=tau_max,
                           estimator="knn", knn=k, past=past, cond_mode=cond,
                           lag_mode="max")
            np.random.seed(KNN_SEED)
            st, G = _call(ca.information_transfer, tau_max=tau_max,
                          estimator="knn", knn=k, past=past, cond_mode=cond,
                          lag_mode="all")
            acc.ev += 2
            tag = "knn-" + cond
            if st == "exc":
                acc.v("CouplingAnalysis.information_transfer:raises:"
                      "lag_mode=all", "tau_max=%d k=%d %s: %s" % (
                          tau_max, k, cond, G), G, "a lag function")
            else:
                G = np.asarray(G, float)
                want = L.copy()
                want[range(N), range(N), 0] = 0.0
                _compare_array(acc, "CouplingAnalysis.information_transfer:"
                               "value:" + tag + ",lag_mode=all",
                               "tau_max=%d k=%d" % (tau_max, k), G, want,
                               "knn_entries_judged")
            if st2 == "exc":
                acc.v("CouplingAnalysis.information_transfer:raises:"
                      "lag_mode=max," + tag, r, r, None)
                continue
            S, Lg = np.asarray(r[0], float), np.asarray(r[1])
            func = [[None] * N for _ in range(N)]
            for i in range(N):
                for j in range(N):
                    if i == j:
                        continue
                    f, why = _mi_summary_func(L, i, j)
                    if f is None:
                        acc.ex("max summary of a lag function without a "
                               "positive maximum (library reports 0 at lag "
                               "0)" if why == "nonpositive" else
                               "max summary over a lag function with "
                               "undefined entries")
                    func[i][j] = f
            _check_summary(acc, "CouplingAnalysis.information_transfer:"
                           "max-summary:" + tag, "tau_max=%d k=%d" % (
                               tau_max, k), S, Lg, func, False)
            acc.sig.append(np.round(L, 3).tolist())
    # scaling by a power of two leaves the standardised samples bit-identical
    np.random.seed(KNN_SEED)
    a = _call(ca.mutual_information, tau_max=1, estimator="knn", knn=k,
              lag_mode="all")
    np.random.seed(KNN_SEED)
    b = _call(_CA(data * 4.0).mutual_information, tau_max=1, estimator="knn",
              knn=k, lag_mode="all")
    acc.ev += 2
    if a[0] != b[0] or (a[0] == "ok" and not _close(a[1], b[1])):
        acc.v("CouplingAnalysis.mutual_information:affine:knn",
              "x -> 4x changes the estimate", b[1], a[1])
    return acc.result()


def fam_fixed(case):
    idx = case
    data = fixed_data(idx)
    T, N = data.shape
    acc = Acc()
    ca = _CA(data)
    for tau_max in TAUS:
        _check_cc(acc, ca, data, tau_max)
        _check_mi(acc, ca, data, tau_max, "gauss", None)
        for bins in (2, 4):
            _check_mi(acc, ca, data, tau_max, "binning", bins)
        for past in (1, 2):
            for cond in ("ity", "mit"):
                _check_it_gauss(acc, ca, data, tau_max, past, cond,
                                exact=False)
    _check_climate(acc, data, 1, exact=False)
    _check_climate(acc, data, 2, exact=False)
    _agree(acc, ca, data, bins_menu=(2, 4, 5))
    for tau_max in (1, 2):
        C = R.pp_cc_lagfunc(data, tau_max)
        pp = _PP(data, False)
        _pp_check(acc, "cross_correlation", pp, False, C, tau_max,
                  lambda lag_mode: pp.cross_correlation(
                      tau_max=tau_max, lag_mode=lag_mode), False)
    _time_surrogates(acc, data)
    _surrogates_leave_data(acc, data)
    return acc.result()


def _surrogates_leave_data(acc, data):
    """Drawing a (shuffled / time) surrogate must not change what the object
    estimates afterwards - for float64 and float32 input."""
    from pyunicorn.funcnet.coupling_analysis_pure_python import \
        CouplingAnalysisPurePython
    T, N = data.shape
    for dt in ("float64", "float32"):
        pp = CouplingAnalysisPurePython(np.array(data, dtype=dt),
                                        silence_level=3)
        before = _call(pp.cross_correlation, tau_max=1, lag_mode="all")
        for sname, kw in (("shuffled_surrogate_for_cc", dict(tau_max=1)),
                          ("time_surrogate_for_cc",
                           dict(sample_range=T - 2, tau_max=1)),
                          ("shuffled_surrogate_for_mi",
                           dict(bins=2, tau_max=1))):
            np.random.seed(7)
            _call(getattr(pp, sname), **kw)
            after = _call(pp.cross_correlation, tau_max=1, lag_mode="all")
            acc.ev += 2
            if before[0] != after[0] or (before[0] == "ok" and not
                                         _same_nested(after[1], before[1])):
                acc.v("CouplingAnalysisPurePython.cross_correlation:changed-"
                      "by:%s:%s" % (sname, dt), "%s input: the estimate "
                      "after drawing a surrogate differs from the one before"
                      % dt, after[1], before[1])
                break


def _time_surrogates(acc, data):
    """time_surrogate_for_cc / _for_mi draw `sample_range` time points
    jointly for all series and lags.  With sample_range >= the number of
    admissible points the draw is a permutation of ALL of them, and the
    statistic - which does not depend on the order of the samples - must be
    the one the full-window method of the same class reports, whatever the
    random permutation is."""
    T, N = data.shape
    pp = _PP(data, False)
    for tau_max in (0, 1, 2):
        for lag_mode in ("all", "sum", "max"):
            want = _call(pp.cross_correlation, tau_max=tau_max,
                         lag_mode=lag_mode)
            got = _call(pp.time_surrogate_for_cc,
                        sample_range=T - 2 * tau_max, tau_max=tau_max,
                        lag_mode=lag_mode)
            acc.ev += 2
            if want[0] != got[0] or (want[0] == "ok" and not _same_nested(
                    got[1], want[1])):
                acc.v("CouplingAnalysisPurePython.time_surrogate_for_cc:"
                      "full-sample!=cross_correlation:%s" % lag_mode,
                      "tau_max=%d, all %d admissible time points drawn" % (
                          tau_max, T - 2 * tau_max), got[1], want[1])
        for bins in (2, 4):
            want = _call(pp.mutual_information, bins=bins, tau_max=tau_max,
                         lag_mode="all")
            got = _call(pp.time_surrogate_for_mi,
                        sample_range=T - 2 * tau_max, bins=bins,
                        tau_max=tau_max, lag_mode="all")
            acc.ev += 2
            if want[0] != got[0] or (want[0] == "ok" and not _same_nested(
                    got[1], want[1])):
                acc.v("CouplingAnalysisPurePython.time_surrogate_for_mi:"
                      "full-sample!=mutual_information",
                      "tau_max=%d bins=%d, all admissible time points drawn"
                      % (tau_max, bins), got[1], want[1])


# ---------------------------------------------------------------------------
# gridded input: [time, lat, lon] and [time, level, lat, lon] arrays are the
# documented alternative to [time, index]; node k is grid point k in row-major
# order (what data.reshape(T, -1) gives and the compiled class does)

GRID_SHAPES = [(2, 3), (3, 2), (1, 6), (6, 1), (1, 2, 3), (2, 1, 3),
               (3, 2, 1), (2, 2), (2, 2, 2)]


def gridded_data(T, N):
    t = np.arange(T)[:, None]
    k = np.arange(N)[None, :]
    return (np.sin(0.37 * t * (k + 1) + 0.9 * k) +
            0.25 * ((t * (2 * k + 3) + k * k) % 7) +
            0.5 * np.roll(np.cos(0.21 * t * (k + 2)), k.ravel().max(), 0))


def fam_gridded(case):
    T, shape = case[0], tuple(case[1])
    N = int(np.prod(shape))
    flat = gridded_data(T, N)
    grid = flat.reshape((T,) + shape)
    acc = Acc()
    ref0 = np.corrcoef(flat.T)
    acc.sig.append(shape)
    for cname, mk in (("CouplingAnalysis", _CA),
                      ("CouplingAnalysisPurePython",
                       lambda d: _PP(d, False))):
        try:
            a, b = mk(grid), mk(flat)
        except Exception as e:   # noqa
            acc.v("%s.__init__:raises:gridded" % cname, repr(e), repr(e),
                  "object")
            continue
        for tau_max in (0, 2):
            for lag_mode in ("all", "max") + (
                    ("sum",) if cname.endswith("Python") else ()):
                ga = _call(a.cross_correlation, tau_max=tau_max,
                           lag_mode=lag_mode)
                gb = _call(b.cross_correlation, tau_max=tau_max,
                           lag_mode=lag_mode)
                acc.ev += 2
                if ga[0] != gb[0] or (ga[0] == "ok" and not _same_nested(
                        ga[1], gb[1])):
                    acc.v("%s.cross_correlation:gridded-input!=flat:%s" % (
                        cname, lag_mode), "input of shape %s vs its "
                        "row-major reshape to (T, N)" % ((T,) + shape,),
                        ga[1], gb[1])
        ga = _call(a.mutual_information, tau_max=1, bins=2, lag_mode="all")
        gb = _call(b.mutual_information, tau_max=1, bins=2, lag_mode="all")
        acc.ev += 2
        if ga[0] != gb[0] or (ga[0] == "ok" and not _same_nested(ga[1],
                                                                  gb[1])):
            acc.v("%s.mutual_information:gridded-input!=flat" % cname,
                  "input of shape %s vs its row-major reshape" % (
                      (T,) + shape,), ga[1], gb[1])
        # independent oracle at lag 0
        g0 = _call(a.cross_correlation, tau_max=0, lag_mode="all")
        acc.ev += 1
        if g0[0] == "ok":
            G = np.asarray(g0[1], float)
            G = G[:, :, 0] if cname == "CouplingAnalysis" else G[0]
            off = ~np.eye(N, dtype=bool)
            if G.shape != ref0.shape or not np.allclose(G[off], ref0[off],
                                                        **TOL):
                acc.v("%s.cross_correlation:value:gridded" % cname,
                      "zero-lag correlation of grid points in row-major "
                      "order vs numpy.corrcoef", G, ref0)
    return acc.result()


def _same_nested(x, y):
    if isinstance(x, (tuple, list)) and isinstance(y, (tuple, list)) and \
            not isinstance(x, np.ndarray):
        return len(x) == len(y) and all(_same_nested(u, v)
                                        for u, v in zip(x, y))
    x, y = np.asarray(x, float), np.asarray(y, float)
    return x.shape == y.shape and np.allclose(x, y, equal_nan=True, **TOL)


# ---------------------------------------------------------------------------
# metamorphic relations (library against itself)

AFFINE = [(2.0, 1.0), (0.5, -3.0), (4.0, 0.25)]


def _estimates(data, small):
    """All estimates of one data set as {name: outcome}."""
    out = {}
    ca = _CA(data)
    for tau_max in (0, 1):
        if tau_max >= data.shape[0] - 1:
            continue
        out["cc-all-%d" % tau_max] = _call(
            ca.cross_correlation, tau_max=tau_max, lag_mode="all")
        r = _call(ca.cross_correlation, tau_max=tau_max, lag_mode="max")
        out["cc-maxvalue-%d" % tau_max] = (r[0], np.abs(r[1][0])) \
            if r[0] == "ok" else r
        for est, bins in (("gauss", 6), ("binning", 2), ("binning", 3)):
            out["mi-%s%d-all-%d" % (est, bins, tau_max)] = _call(
                ca.mutual_information, tau_max=tau_max, estimator=est,
                bins=bins, lag_mode="all")
        for cond in ("ity", "mit"):
            if data.shape[0] - tau_max - 1 < 3:
                continue
            r = _call(ca.information_transfer, tau_max=tau_max,
                      estimator="gauss", past=1, cond_mode=cond,
                      lag_mode="max")
            out["it-gauss-%s-maxvalue-%d" % (cond, tau_max)] = \
                (r[0], r[1][0]) if r[0] == "ok" else r
    pp = _PP(data, False)
    out["pp-cc-all-0"] = _call(pp.cross_correlation, tau_max=0,
                               lag_mode="all")
    out["pp-mi2-all-0"] = _call(pp.mutual_information, bins=2, tau_max=0,
                                lag_mode="all")
    from pyunicorn import climate
    for name, cls in (("tsonis", climate.TsonisClimateNetwork),
                      ("spearman", climate.SpearmanClimateNetwork),
                      ("partial", climate.PartialCorrelationClimateNetwork),
                      ("climmi", climate.MutualInfoClimateNetwork)):
        r = _call(cls, _climate_data(data, 1), threshold=0.5,
                  winter_only=False, silence_level=3)
        out["clim-" + name] = (r[0], np.array(r[1].similarity_measure())) \
            if r[0] == "ok" else r
    return out


def _permute(name, val, perm):
    """Expected estimate of the column-permuted data set: entry (a, b) of the
    new result is entry (perm[a], perm[b]) of the old one."""
    v = np.asarray(val, float)
    p = list(perm)
    if name.startswith("pp-"):
        return v[:, p][:, :, p]
    return v[p][:, p]


def _same(a, b):
    if a[0] != b[0]:
        return False
    if a[0] == "exc":
        return True
    x, y = np.asarray(a[1], float), np.asarray(b[1], float)
    if x.shape != y.shape:
        return False
    # an estimate close to infinity (|rho| -> 1) is as good as infinity
    big = (np.abs(x) > 5) | (np.abs(y) > 5) | ~np.isfinite(x) | \
        ~np.isfinite(y)
    return bool(np.allclose(x[~big], y[~big], rtol=2e-5, atol=ATOL)) and \
        bool(np.all((np.abs(x[big]) > 5) | ~np.isfinite(x[big])) and
             np.all((np.abs(y[big]) > 5) | ~np.isfinite(y[big])))


def _illposed(data):
    """Estimates whose value is decided by rounding: singular covariance
    (partial correlation), exact collinearity."""
    try:
        return R.exact_cov_singular(np.asarray(data).tolist())
    except Exception:   # noqa
        return True


def fam_meta(case):
    kind = case[0]
    acc = Acc()
    if kind == "small":
        data = decode(case[1:])
        small = True
    else:
        data = fixed_data(case[1])
        small = False
    T, N = data.shape
    base = _estimates(data, small)
    if small:
        singular = degenerate = _illposed(data)
    else:
        # duplicated / sign-flipped columns: |rho| = 1, singular covariance
        singular = degenerate = FIXED_VARIANTS[case[1] % 4] in ("dup", "flip")
    # affine maps per column
    for shift in range(len(AFFINE)):
        d2 = data.copy()
        for c in range(N):
            a, b = AFFINE[(c + shift) % len(AFFINE)]
            d2[:, c] = a * d2[:, c] + b
        other = _estimates(d2, small)
        for name in base:
            if name == "clim-partial" and singular:
                acc.ex("partial correlation undefined: singular covariance "
                       "matrix")
                continue
            if name.startswith("it-gauss") and (small or degenerate):
                # collinear conditions make single entries 0/0
                acc.ex("gaussian information transfer with collinear "
                       "conditions / tiny arrays: metamorphic comparison "
                       "skipped (0/0 entries)")
                continue
            acc.ev += 1
            acc.st("relations_checked")
            if not _same(base[name], other[name]):
                acc.v("affine-invariance:" + name.rsplit("-", 1)[0]
                      if name[-1].isdigit() else "affine-invariance:" + name,
                      "x -> a x + b per column (%s...)" % (AFFINE[shift],),
                      other[name][1], base[name][1])
    # column permutations
    for perm in itertools.permutations(range(N)):
        if list(perm) == list(range(N)):
            continue
        d2 = data[:, list(perm)].copy()
        other = _estimates(d2, small)
        for name in base:
            if name == "clim-partial" and singular:
                continue
            if name.startswith("it-gauss") and (small or degenerate):
                continue
            acc.ev += 1
            acc.st("relations_checked")
            a, b = base[name], other[name]
            if a[0] == "ok":
                a = ("ok", _permute(name, a[1], perm))
            if not _same(a, b):
                acc.v("permutation-equivariance:" + (
                    name.rsplit("-", 1)[0] if name[-1].isdigit() else name),
                    "columns reordered by %s" % (perm,), b[1], a[1])
    acc.sig.append(str({k: (np.round(np.nan_to_num(np.asarray(
        v[1], float)), 3).tolist() if v[0] == "ok" else v[1])
        for k, v in base.items()}))
    return acc.result(trivial=all(R.is_const(data[:, i]) for i in range(N)))


# ---------------------------------------------------------------------------
# larger structured data sets (beyond the exhaustive bound)

SCALE_BINS = (8, 16, 17, 20, 32)


def scale_data(T, N, variant):
    """Deterministic coupled AR(1) columns; 'ties': quantised to halves."""
    rs = np.random.RandomState(977 * T + N)
    e = rs.randn(T + 30, N)
    x = np.zeros((T + 30, N))
    for t in range(1, T + 30):
        for c in range(N):
            x[t, c] = 0.5 * x[t - 1, c] + e[t, c] + (
                0.45 * x[t - 1, c - 1] if c else 0.0)
    x = x[30:]
    if variant == "ties":
        x = np.round(x * 2.0) / 2.0
    return np.ascontiguousarray(x)


def _scale_taus(T):
    """tau_max menu: 0, 5 and two values that make the pure-Python window
    T - 2 tau_max divisible by as many bin numbers as possible."""
    best = sorted(range(1, 5), key=lambda tm: -sum(
        1 for b in SCALE_BINS if (T - 2 * tm) % b == 0))
    return sorted({0, 5, best[0]})


def _selftest_fast_oracle(data):
    for tm, b in ((0, 8), (2, 17)):
        if not np.allclose(R.binned_mi_lagfunc(data[:, :2], tm, b),
                           R.binned_mi_lagfunc_np(data[:, :2], tm, b),
                           atol=1e-12):
            raise AssertionError("vectorised MI oracle != loop oracle")
        if not np.allclose(R.pp_mi_lagfunc(data[:, :2], tm, b),
                           R.pp_mi_lagfunc_np(data[:, :2], tm, b),
                           atol=1e-12, equal_nan=True):
            raise AssertionError("vectorised pure-Python MI oracle != loop")


def _climate_data_big(data, time_cycle):
    """ClimateData on a '6-hourly, hours since 1800' time axis."""
    from pyunicorn.core import GeoGrid
    from pyunicorn.climate import ClimateData
    T, N = data.shape
    grid = GeoGrid(time_seq=1.9e6 + 6.0 * np.arange(T),
                   lat_seq=np.linspace(-60.0, 60.0, N),
                   lon_seq=np.linspace(0.0, 300.0, N), silence_level=3)
    return ClimateData(observable=np.array(data, dtype=float), grid=grid,
                       time_cycle=time_cycle, silence_level=3)


def fam_scale(case):
    T, N, variant, part = case
    data = scale_data(T, N, variant)
    acc = Acc()
    ca = _CA(data)
    taus = _scale_taus(T)
    if part == "cmi":
        # compiled binned MI, many bins, lags up to 5
        if T <= 40:
            _selftest_fast_oracle(data)
        for bins in SCALE_BINS:
            for tau_max in taus:
                _check_mi(acc, ca, data, tau_max, "binning", bins, fast=True,
                          do_max=(bins == 17 and tau_max == 5))
    elif part == "pure":
        for bins in SCALE_BINS:
            for tau_max in taus:
                Cm = R.pp_mi_lagfunc_np(data, tau_max, bins)
                pp = _PP(data, False)
                modes = ("all", "sum", "max") if bins == 17 and \
                    tau_max == taus[1] else ("all",)
                _pp_check(acc, "mutual_information", pp, False, Cm, tau_max,
                          lambda lag_mode: pp.mutual_information(
                              bins=bins, tau_max=tau_max, lag_mode=lag_mode),
                          True, modes=modes)
                acc.st("pp_premise_holds", int(np.isfinite(Cm).any()))
        _agree(acc, ca, data, bins_menu=SCALE_BINS, fast=True)
        C = R.pp_cc_lagfunc(data, 5)
        pp = _PP(data, False)
        _pp_check(acc, "cross_correlation", pp, False, C, 5,
                  lambda lag_mode: pp.cross_correlation(
                      tau_max=5, lag_mode=lag_mode), False)
    elif part == "misc":
        _check_cc(acc, ca, data, 5)
        _check_mi(acc, ca, data, 5, "gauss", None)
        for past, cond in ((1, "ity"), (2, "mit")):
            _check_it_gauss(acc, ca, data, 2, past, cond, exact=False)
        # climate similarity classes on a realistic time axis
        _check_climate(acc, data, 1, exact=False, mk=_climate_data_big,
                       mi_tol=2e-5)
        if N == 3:
            _check_climate(acc, data, 4, exact=False,
                           classes=("tsonis", "mi"), mk=_climate_data_big,
                           mi_tol=2e-5)
    elif part == "surr":
        _scale_surrogates(acc, data)
    elif part == "knn":
        for k in (1, 5):
            L = _knn_lagfunc(data, 1, k,
                             lambda i, j, tau: [(i, -tau), (j, 0)], 1,
                             KNN_SEED)
            np.random.seed(KNN_SEED)
            st, G = _call(ca.mutual_information, tau_max=1, estimator="knn",
                          knn=k, lag_mode="all")
            acc.ev += 1
            if st == "exc":
                acc.v("CouplingAnalysis.mutual_information:raises:knn",
                      "T=%d k=%d: %s" % (T, k, G), G, None)
            else:
                _compare_array(acc, "CouplingAnalysis.mutual_information:"
                               "value:knn", "T=%d N=%d k=%d" % (T, N, k),
                               G, L, "knn_entries_judged")
            acc.sig.append(np.round(L, 3).tolist())
    else:
        raise ValueError(part)
    return acc.result()


def _scale_surrogates(acc, data):
    """Test matrices between the normalised data and three deterministic
    'surrogates' of it (time reversal, circular shift, column rotation)."""
    from pyunicorn.timeseries import Surrogates
    T, N = data.shape
    O = data.T.copy()
    On, oconst = _normalise_rows(O)
    off = ~np.eye(N, dtype=bool)
    variants = {"reversed": O[:, ::-1], "shifted": np.roll(O, T // 3, axis=1),
                "rotated": np.roll(O, 1, axis=0)}
    for name, S in variants.items():
        S = np.ascontiguousarray(S)
        Sn, sconst = _normalise_rows(S)
        st, G = _call(Surrogates.test_pearson_correlation, On.copy(),
                      Sn.copy())
        acc.ev += 1
        if st == "exc":
            acc.v("Surrogates.test_pearson_correlation:raises", G, G, None)
        else:
            want = np.array([[R.pearson(O[i], S[j]) if i != j else np.nan
                              for j in range(N)] for i in range(N)])
            m = np.isfinite(want)
            acc.st("surr_pearson_entries_judged", int(m.sum()))
            if not np.allclose(np.asarray(G, float)[m], want[m], **TOL):
                acc.v("Surrogates.test_pearson_correlation:value",
                      "T=%d N=%d surrogate=%s" % (T, N, name), G, want)
        for nb in (32, 17):
            want, ok = R.uniform_mi_matrix(On, Sn, nb, tol=1e-9)
            if not ok:
                acc.ex("histogram MI: bin assignment depends on rounding or "
                       "degenerate range")
                continue
            st, G = _call(Surrogates.test_mutual_information, On.copy(),
                          Sn.copy(), n_bins=nb)
            acc.ev += 1
            if st == "exc":
                acc.v("Surrogates.test_mutual_information:raises", G, G,
                      None)
                continue
            G = np.asarray(G, float)
            acc.st("surr_mi_entries_judged", int(off.sum()))
            if not np.allclose(G[off], want[off], **TOL):
                acc.v("Surrogates.test_mutual_information:value:normalised",
                      "T=%d N=%d n_bins=%d surrogate=%s" % (T, N, nb, name),
                      G, want)
        acc.sig.append([name, np.round(On[0, :5], 3).tolist()])


FAMILIES = {"scale": fam_scale, "coupling": fam_coupling, "purepy": fam_purepy,
            "climate": fam_climate, "partial": fam_partial, "surr": fam_surr,
            "symabs": fam_symabs, "perms": fam_perms, "knn": fam_knn,
            "fixed": fam_fixed, "meta": fam_meta, "gridded": fam_gridded}


def _arrays(T, N, base):
    return [(T, N, base, c) for c in range(base ** (T * N))]


def run(ctx):
    thorough = ctx.tier == "thorough"
    shapes = [(3, 2, 3), (4, 2, 3), (5, 2, 2)]
    if thorough:
        shapes += [(3, 3, 3)]
    ctx.rule = (
        "every data array of shape/alphabet %s (T, N, alphabet size) x "
        "tau_max {0,1,2} x lag modes x estimators; a case is non-trivial "
        "when some series is not constant; distinct = distinct oracle lag "
        "functions.  knn/fixed: 12 fixed data sets x k {1,2,5}." % (shapes,))
    cases = []
    for s in shapes:
        cases += _arrays(*s)
    ctx.explore("coupling", cases, desc="compiled CouplingAnalysis on all "
                "small arrays")
    ctx.explore("purepy", cases, desc="pure-Python class, own definition "
                "and agreement with the compiled class")
    ctx.explore("climate", cases, desc="climate similarity classes")
    pcases = _arrays(4, 3, 2) + _arrays(5, 3, 2)
    if thorough:
        # (4,3) over {0,1,2} up to column order (columns in non-decreasing
        # lexicographic order); reorderings are the business of `meta`
        def col(code, i):
            return [code // 3 ** (t * 3 + i) % 3 for t in range(4)]
        pcases += [c for c in _arrays(4, 3, 3)
                   if col(c[3], 0) <= col(c[3], 1) <= col(c[3], 2)]
    ctx.explore("partial", pcases, desc="partial correlation with a "
                "non-trivial condition set")
    # (T, N, alphabet of the original, code, alphabet of the surrogates,
    #  surrogates restricted to a zero first sample)
    scases = [(3, 2, 3, c, 2, 0) for c in range(3 ** 6)]
    if thorough:
        scases += [(3, 2, 3, c, 3, 1) for c in range(3 ** 6)]
        scases += [(4, 2, 2, c, 2, 0) for c in range(2 ** 8)]
        scases += [(3, 3, 2, c, 2, 1) for c in range(2 ** 9)]
    ctx.explore("surr", scases, desc="surrogate test matrices, all pairs "
                "(original, surrogate)")
    sy = [(2, cs, cl) for cs in range(25) for cl in range(9)]
    sy += [(3, cs, cl) for cs in range(64) for cl in range(64)]
    ctx.explore("symabs", sy, desc="symmetrize_by_absmax on all small "
                "matrices")
    pc = []
    for T in ((3, 4, 5) if thorough else (3, 4)):
        n = math.factorial(T)
        pc += [(T, a, b) for a in range(n) for b in range(n)]
    ctx.explore("perms", pc, desc="tie-free series: compiled vs pure-Python "
                "binned MI")
    ids = range(12) if thorough else (0, 1, 2, 7)
    ctx.explore("knn", [(i, k) for i in ids for k in (1, 2, 5)], chunk=1,
                desc="kNN estimators on fixed data sets")
    ctx.explore("gridded", [[T, list(sh)] for T in (12, 31)
                            for sh in GRID_SHAPES], chunk=1,
                desc="[time, lat, lon] / [time, level, lat, lon] input vs "
                "its row-major reshape, both classes")
    ctx.explore("fixed", list(range(12)), chunk=1,
                desc="Gaussian information transfer, climate classes, "
                "pure Python on the fixed data sets")
    mc = [("small",) + c for c in (_arrays(4, 2, 3) if thorough
                                   else _arrays(3, 2, 3))]
    mc += [("small",) + c for c in _arrays(3, 3, 2)]
    mc += [("fixed", i) for i in (range(12) if thorough else (0, 1, 2, 3))]
    ctx.explore("meta", mc, desc="affine invariance and column-permutation "
                "equivariance")
    # beyond the exhaustive bound: long series, many bins, lags up to 5
    sets = [(40, 3, "ar"), (40, 5, "ar"), (130, 4, "ar"), (131, 3, "ar"),
            (136, 5, "ar"), (300, 3, "ar"), (300, 5, "ar"), (320, 4, "ar"),
            (130, 3, "ties"), (300, 4, "ties")]
    if thorough:
        sets += [(272, 4, "ar"), (306, 3, "ar"), (257, 5, "ar"),
                 (640, 3, "ar"), (513, 4, "ties")]
    sc = [(T, N, v, part) for (T, N, v) in sets
          for part in ("cmi", "pure", "misc", "surr", "knn")
          if part != "knn" or N == 3]
    ctx.explore("scale", sc, chunk=1, desc="structured data sets (T, N, "
                "variant) %s: binned MI with bins %s and tau_max up to 5 in "
                "both classes, surrogate test matrices (32 / 17 bins), "
                "cross-correlation, Gaussian estimates, climate classes, "
                "kNN" % (sets, list(SCALE_BINS)))
    ctx.notes["scale_sets"] = [list(x) for x in sets]
    ctx.notes.update({"shapes": shapes, "tau_max": list(TAUS),
                      "knn_datasets": len(list(ids)), "knn_k": [1, 2, 5]})
    ctx.assumptions += [
        "numpy.corrcoef, scipy.stats.spearmanr, numpy.linalg.lstsq and "
        "scipy.special.digamma are trusted",
        "ClimateNetwork.similarity_measure() is the absolute value of the "
        "statistic (library convention); the signed statistic is read from "
        "calculate_similarity_measure(anomaly)",
        "ties at the maximum leave the reported lag open; MI-type 'max' "
        "summaries are judged only when the lag function has a positive "
        "maximum",
        "kNN: the estimator sees single-precision standardised samples plus "
        "1e-10 * numpy.random.rand noise; the oracle draws the same stream"]
