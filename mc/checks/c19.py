"""C19  Distributed computation returns the serial result.

  dist    the real master loops of Network.newman_betweenness /
          nsi_newman_betweenness / nsi_arenas_betweenness run as rank 0 of an
          in-process MPI world (mc/mpisim.py) whose slaves execute the real
          `utils/mpi.py` serve() loop; all worker counts, verbosity levels and
          ALL schedules with <= b preemptions (choice-sequence DFS) are
          explored; oracle = the same call without MPI
  chunks  the three chunk kernels on every contiguous chunking of the node
          range, reassembled as the master does, vs the whole-range call
  pool    nsi_betweenness(parallelize=True) with an in-process pool stand-in:
          every cpu_count, every execution order of the batches, pickled
          arguments; oracle = parallelize=False
"""
import itertools
import pickle

import numpy as np

from ..core import V
from .. import choice, mpisim
from ..domains import adj, iso, is_connected, compositions, weights

LEVEL = "model_checking"
TOL = dict(rtol=1e-9, atol=1e-10)


# ---------------------------------------------------------------------------
# graph family (fixed): components of 11..45 nodes so that the master's
# max_parts = ceil(min(10(S-1), 0.1 N)) gives 2..5 parts of unequal size


def _ring(n, chords=()):
    A = np.zeros((n, n), dtype=int)
    for i in range(n):
        A[i, (i + 1) % n] = A[(i + 1) % n, i] = 1
    for (d, m) in chords:
        for i in range(0, n, m):
            j = (i + d) % n
            if i != j:
                A[i, j] = A[j, i] = 1
    return A


def _union(*blocks):
    n = sum(len(b) for b in blocks)
    A = np.zeros((n, n), dtype=int)
    o = 0
    for b in blocks:
        A[o:o + len(b), o:o + len(b)] = b
        o += len(b)
    return A


def _tree(n):
    A = np.zeros((n, n), dtype=int)
    for i in range(1, n):
        p = (i - 1) // 2
        A[i, p] = A[p, i] = 1
    return A


def graph(name):
    if name == "ring23":
        A = _ring(23, [(5, 3)])
    elif name == "ring11":
        A = _ring(11, [(3, 4)])
    elif name == "two":
        A = _union(_ring(13, [(4, 3)]), _tree(11), np.zeros((2, 2), int))
        # shuffle labels deterministically so components interleave
        perm = [(i * 7) % len(A) for i in range(len(A))]
        A = A[np.ix_(perm, perm)]
    elif name == "tree31":
        A = _tree(31)
    elif name == "ring45":
        A = _ring(45, [(7, 4), (11, 9)])
    elif name.startswith("big"):
        # one large component: part boundaries from size-dependent arithmetic
        A = _ring(int(name[3:]), [(5, 3), (9, 7)])
    elif name == "three":
        A = _union(_ring(21, [(2, 5)]), _ring(12), _tree(15),
                   np.zeros((1, 1), int))
    else:
        raise ValueError(name)
    n = len(A)
    w = np.array([(0.5 + ((i * 5) % 7) * 0.25) for i in range(n)])
    return A, w


MEASURES = {
    "newman": ("newman_betweenness", {}),
    "nsi_newman": ("nsi_newman_betweenness", {}),
    "nsi_newman+ends": ("nsi_newman_betweenness", {"add_local_ends": True}),
    "arenas": ("nsi_arenas_betweenness", {}),
    "arenas-all": ("nsi_arenas_betweenness", {"exclude_neighbors": False}),
    "arenas-twin": ("nsi_arenas_betweenness", {"stopping_mode": "twinness"}),
    # both non-default options together (they travel to the slaves in one
    # per-chunk dictionary)
    "arenas-all-twin": ("nsi_arenas_betweenness",
                        {"exclude_neighbors": False,
                         "stopping_mode": "twinness"}),
}

_SERIAL = {}


#  objects of Network SUBCLASSES (the distributed branches are inherited; the
#  slaves resolve the job by name): "cls:<class driver>" builds the first
#  model of that driver of mc/drivers.py
SUBCLASS_DRIVERS = ("GeoNetwork", "ClimateNetwork", "RecurrenceNetwork",
                    "VisibilityGraph", "InterSystemRecurrenceNetwork",
                    "InteractingNetworks", "ResNetwork")


def _net(gname, silence):
    from pyunicorn.core import Network
    if gname.startswith("cls:"):
        from .. import drivers as D
        drv = D.DRIVERS[gname[4:]]
        net = drv.construct(drv.models("quick")[0])
        net.silence_level = silence
        return net
    A, w = graph(gname)
    return Network(adjacency=A, node_weights=w, silence_level=silence)


def _serial(gname, mname):
    key = (gname, mname)
    if key not in _SERIAL:
        meth, kw = MEASURES[mname]
        import pyunicorn.core.network as netmod
        assert not netmod.mpi.available
        _SERIAL[key] = np.array(getattr(_net(gname, 3), meth)(**kw))
    return _SERIAL[key]


def _one_execution(gname, mname, size, silence, cr):
    meth, kw = MEASURES[mname]
    net = _net(gname, silence)
    out, world = mpisim.run_distributed(
        size, cr, lambda: getattr(net, meth)(**kw))
    return np.array(out), world


def fam_dist(case):
    gname, mname, size, silence, bound = case[:5]
    fixed = case[5] if len(case) > 5 else None
    ref = _serial(gname, mname)
    viol, stats = [], {"cut": 0, "schedules": 0, "deadlocks": 0}
    outcomes = set()
    states = transitions = 0
    tag = "silence<=0" if silence <= 0 else "silence>=1"

    def run(cr):
        try:
            out, world = _one_execution(gname, mname, size, silence, cr)
            return ("ok", out, world.steps)
        except mpisim.Deadlock as e:
            return ("deadlock", str(e), 0)
        except choice.Horizon:
            raise
        except choice.ReplayDivergence:
            raise
        except BaseException as e:   # noqa
            return ("exc", "%s: %s" % (type(e).__name__, str(e)[:200]), 0)

    if fixed is not None:
        o_, cut_ = choice.replay(run, fixed, horizon=4000)
        runs = [(fixed, o_, cut_)]
    else:
        runs = choice.explore(run, bound, horizon=4000)
    first = True
    for choices, out, cut in runs:
        stats["schedules"] += 1
        states += 1
        transitions += len(choices)
        if cut:
            stats["cut"] += 1
            continue
        if first and fixed is None:
            # seam self-test: the default schedule twice, same observation
            again, _ = choice.replay(run, choices, horizon=4000)
            same = (again[0] == out[0] and (
                again[0] != "ok" or np.array_equal(again[1], out[1])))
            assert same, "replay of the same schedule diverged"
            first = False
        kind = out[0]
        if kind == "ok":
            outcomes.add(out[1].tobytes())
            if out[1].shape != ref.shape or not np.allclose(
                    out[1], ref, equal_nan=True, **TOL):
                viol.append(V(
                    "Network.%s:distributed!=serial:%s" % (
                        MEASURES[mname][0], tag),
                    "graph=%s size=%d silence=%d schedule=%s" % (
                        gname, size, silence, choices),
                    out[1], ref))
        elif kind == "deadlock":
            stats["deadlocks"] += 1
            viol.append(V("Network.%s:deadlock:%s" % (MEASURES[mname][0],
                                                       tag),
                          "graph=%s size=%d silence=%d schedule=%s: %s" % (
                              gname, size, silence, choices, out[1]),
                          out[1], "terminates"))
        else:
            viol.append(V("Network.%s:raises-distributed:%s" % (
                MEASURES[mname][0], tag),
                "graph=%s size=%d silence=%d schedule=%s" % (
                    gname, size, silence, choices), out[1], "serial result"))
        if viol and len(viol) >= 3:
            break
    return {"viol": viol[:3], "evals": stats["schedules"],
            "sig": (gname, mname, size, silence, len(outcomes)),
            "states": states, "transitions": transitions,
            "traces": stats["schedules"], "stats": stats}


# ---------------------------------------------------------------------------
# chunk kernels


def _prep_newman(A):
    """The master's preparation for one connected component, transcribed
    from Network.newman_betweenness (input to the chunk kernel)."""
    import scipy.sparse as sp
    from scipy.sparse.linalg import inv
    N = len(A)
    k = A.sum(axis=0)
    sp_M = sp.diags([k.astype(float)], [0], shape=(N, N), format="csc") - \
        sp.csc_matrix(A.astype(float))
    Vm = sp.lil_matrix((N, N))
    Vm[:-1, :-1] = inv(sp_M[:-1, :-1].tocsc())
    return Vm.toarray()


def fam_chunks(case):
    n, mask, wk = case
    from pyunicorn.core import Network
    from pyunicorn.core._ext.numerics import (
        _mpi_newman_betweenness, _mpi_nsi_newman_betweenness)
    from pyunicorn.core._ext.types import ADJ, DFIELD, MASK, DWEIGHT
    A = adj(n, False, mask).astype(int)
    w = np.array(weights(n, wk) or [1.0] * n, dtype=float)
    viol, ev = [], 0
    sig = []
    # -- Newman
    Vn = _prep_newman(A)
    full, _, _ = _mpi_newman_betweenness(
        A.astype(ADJ), Vn.astype(DFIELD), n, 0, n)
    full = np.array(full)
    # -- n.s.i. Newman (preparation via the library's own sparse helpers)
    subnet = Network(adjacency=A, directed=False, node_weights=w,
                     silence_level=3)
    import scipy.sparse as sp
    from scipy.sparse.linalg import inv
    Ap = subnet.sp_Aplus()
    Dw, DwI = subnet.sp_diag_w(), subnet.sp_diag_w_inv()
    Dk, DkI = subnet.sp_nsi_diag_k(), subnet.sp_nsi_diag_k_inv()
    sp_M = Dw * (Dk - Ap * Dw) * DwI
    sp_M_inv = sp.lil_matrix((n, n))
    sp_M_inv[:-1, :-1] = inv(sp.csc_matrix(sp_M[:-1, :-1]))
    Vw = ((DkI * Ap) * sp_M_inv).T.astype(DFIELD).toarray()
    naoe = (1 - A - np.identity(n)).astype(MASK)
    wd = w.astype(DWEIGHT)
    full_nsi, _, _ = _mpi_nsi_newman_betweenness(
        A.astype(ADJ), Vw, n, wd, naoe, 0, n)
    full_nsi = np.array(full_nsi)
    # -- Arenas
    Aplus = (A + np.identity(n)).astype(int)
    sp_P = (subnet.sp_nsi_diag_k_inv() * subnet.sp_Aplus()
            * subnet.sp_diag_w()).todok()
    twin = np.array(subnet.nsi_twinness())
    ar_full = {}
    for excl in (True, False):
        for mode in ("neighbors", "twinness"):
            err, res = Network._mpi_nsi_arenas_betweenness(
                n, sp_P, Aplus, w, w, 0, n, excl, mode,
                twin if mode == "twinness" else None)
            assert err == "", err
            ar_full[(excl, mode)] = np.array(res[0])
    for comp in compositions(n):
        if len(comp) == 1:
            continue
        got = np.zeros(n)
        got_nsi = np.zeros(n)
        for (a, b) in comp:
            r, s, e = _mpi_newman_betweenness(
                np.ascontiguousarray(A[a:b, :]).astype(ADJ),
                Vn.astype(DFIELD), n, a, b)
            got[s:e] = r
            r, s, e = _mpi_nsi_newman_betweenness(
                np.ascontiguousarray(A[a:b, :]).astype(ADJ), Vw, n, wd,
                np.ascontiguousarray(naoe[a:b, :]), a, b)
            got_nsi[s:e] = r
        ev += 2
        if not np.allclose(got, full, **TOL):
            viol.append(V("_mpi_newman_betweenness:chunked!=whole",
                          "chunking %s" % (comp,), got, full))
        if not np.allclose(got_nsi, full_nsi, **TOL):
            viol.append(V("_mpi_nsi_newman_betweenness:chunked!=whole",
                          "chunking %s" % (comp,), got_nsi, full_nsi))
        for (excl, mode), ref in ar_full.items():
            acc = np.zeros(n)
            for (a, b) in comp:
                err, res = Network._mpi_nsi_arenas_betweenness(
                    n, pickle.loads(pickle.dumps(sp_P)), Aplus[a:b, :], w,
                    w[a:b], a, b, excl, mode,
                    twin[a:b, :] if mode == "twinness" else None)
                assert err == "", err
                acc += res[0]
            ev += 1
            if not np.allclose(acc, ref, **TOL):
                viol.append(V(
                    "Network._mpi_nsi_arenas_betweenness:chunked!=whole",
                    "chunking %s exclude_neighbors=%s stopping_mode=%s" % (
                        comp, excl, mode), acc, ref))
    sig = (tuple(np.round(full, 6)), tuple(np.round(full_nsi, 6)))
    return {"viol": viol[:4], "evals": ev, "sig": sig, "states": ev,
            "transitions": ev, "traces": ev}


# ---------------------------------------------------------------------------
# multiprocessing pool stand-in


class _Pool:
    def __init__(self, order):
        self.order = order

    def __enter__(self):
        return self

    def __exit__(self, *a):
        return False

    def map(self, f, batches):
        batches = list(batches)
        idx = list(range(len(batches)))
        order = [i for i in self.order if i < len(idx)] + \
            [i for i in idx if i not in self.order]
        res = [None] * len(batches)
        fb = pickle.dumps(f)
        for i in order:
            g = pickle.loads(fb)
            res[i] = pickle.loads(pickle.dumps(
                g(pickle.loads(pickle.dumps(batches[i])))))
        return res

    def close(self):
        pass

    def join(self):
        pass


class _Ctx:
    def __init__(self, order):
        self.order = order

    def Pool(self, *a, **k):
        return _Pool(self.order)


def fam_pool(case):
    n, mask, wk, ncpu = case
    import pyunicorn.core.network as netmod
    from pyunicorn.core import Network
    A = adj(n, False, mask).astype(int)
    w = weights(n, wk)
    viol, ev = [], 0
    ref = np.array(Network(adjacency=A, node_weights=w, silence_level=3)
                   .nsi_betweenness(parallelize=False))
    nb = min(ncpu, 4)
    orders = list(itertools.permutations(range(nb))) if ncpu <= 4 else \
        [tuple(range(4)), (3, 2, 1, 0)]
    og, oc = netmod.get_context, netmod.cpu_count
    try:
        for order in orders:
            netmod.cpu_count = lambda: ncpu
            netmod.get_context = lambda *_a, **_k: _Ctx(order)
            got = np.array(Network(adjacency=A, node_weights=w,
                                   silence_level=3)
                           .nsi_betweenness(parallelize=True))
            ev += 1
            if got.shape != ref.shape or not np.allclose(
                    got, ref, equal_nan=True, **TOL):
                viol.append(V("Network.nsi_betweenness:parallel!=serial",
                              "cpu_count=%d batch order %s" % (ncpu, order),
                              got, ref))
                break
    finally:
        netmod.get_context, netmod.cpu_count = og, oc
    return {"viol": viol, "evals": ev, "sig": tuple(np.round(ref, 6)),
            "states": ev, "transitions": ev, "traces": ev}


FAMILIES = {"dist": fam_dist, "chunks": fam_chunks, "pool": fam_pool}


def run(ctx):
    thorough = ctx.tier == "thorough"
    ctx.rule = (
        "dist: fixed graph family x measures x worker counts x silence "
        "levels 0..3, every schedule of the master/slave threads with <= b "
        "preemptions (quick: b=2 on the small configurations, 1 elsewhere; "
        "thorough: 3 and 2), "
        "default schedule for the larger worker counts; chunks: every "
        "contiguous chunking of [0,N) for all connected graphs <= 5 nodes "
        "(iso(6) thorough); pool: cpu_count 1..N+2 x every batch order.  "
        "distinct = distinct (configuration, number of distinct outputs).")
    graphs = ["ring11", "ring23", "two"] + (
        ["tree31", "three", "ring45"] if thorough else [])
    measures = list(MEASURES)
    cases = []
    for g in graphs:
        for m in measures:
            for silence in (0, 1, 2, 3):
                for S in (2, 3, 4):
                    small = g in ("ring11", "ring23")
                    if thorough:
                        b = 3 if small and S <= 3 else 2
                    else:
                        b = 2 if (small and S <= 3 and silence in (0, 2)) \
                            else 1
                    cases.append([g, m, S, silence, b])
                extra = (6, 9, 13) if thorough else (7,)
                for S in extra:
                    cases.append([g, m, S, silence, 0])
    # scale: large single components (part sizes from size-dependent
    # arithmetic), default schedule, several worker counts
    # more than 100 nodes per slave, size not a multiple of 10
    for g, Ss in ((("big105", (2,)),) if not thorough else
                  (("big105", (2,)), ("big213", (2, 3)))):
        graphs.append(g)
        for m in ("newman", "nsi_newman", "arenas"):
            for S in Ss:
                cases.append([g, m, S, 2, 0])
    for g in (["big52", "big64"] if not thorough else
              ["big52", "big55", "big58", "big64", "big89", "big96",
               "big131"]):
        graphs.append(g)
        for m in ("newman", "nsi_newman+ends", "arenas"):
            for S in ((2, 3, 5, 9) if thorough else (2, 4)):
                cases.append([g, m, S, 2, 0])
    # objects of subclasses, default schedule, 1 and 2 slaves
    for dn in SUBCLASS_DRIVERS:
        graphs.append("cls:" + dn)
        for m in ("newman", "nsi_newman", "arenas"):
            for S in (2, 3):
                cases.append(["cls:" + dn, m, S, 2, 0])
    ctx.explore("dist", cases, chunk=1, desc="master loop over the "
                "in-process MPI world, schedules explored")
    cc = []
    for n in range(2, 6):
        for (_, _, m) in iso(n):
            if is_connected(adj(n, False, m)):
                for wk in (0, 1):
                    cc.append([n, m, wk])
    if thorough:
        cc += [[6, m, 1] for (_, _, m) in iso(6)
               if is_connected(adj(6, False, m))]
    ctx.explore("chunks", cc, chunk=2, desc="all contiguous chunkings")
    pc = []
    for n in range(2, 6):
        for (_, _, m) in iso(n):
            for ncpu in range(1, n + 3):
                pc.append([n, m, 1, ncpu])
    ctx.explore("pool", pc, desc="pool stand-in, all batch orders")
    ctx.notes.update({"graphs": graphs, "measures": measures})
    ctx.assumptions += [
        "MPI semantics modelled: eager (buffered) sends, blocking receives, "
        "FIFO per (source, destination); rendezvous sends are not modelled",
        "payloads are pickled in both directions, so slaves share no memory "
        "with the master"]
