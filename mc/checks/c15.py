"""C15  Surrogates preserve exactly what each method promises.

"For every random seed" is checked as "for every sequence of answers the
random source can give": the random sources of the surrogate code are
replaced by choice points (refmodel/surrogates.py) and every execution with
at most `bound` deviations from the seeded default answers is run on the real
library (mc.choice.explore), each to completion under an explicit horizon.

  hist   a data array x a history of generator calls on ONE Surrogates object
         (three consecutive calls of one generator -- which contains the one-
         and two-call histories as prefixes -- or an ordered pair of different
         generators); every output of every call is held to its promise
  rp     RecurrencePlot.twins / twin_surrogates for a series x embedding x
         threshold x min_dist

A case is one (input, history); the family runs the whole bounded DFS for it.
A case may carry "choices": then exactly that execution is run (minimal
replay).
"""
import hashlib
import itertools

import numpy as np

from ..core import V
from ..choice import Horizon
from ..refmodel import surrogates as ref

LEVEL = "model_checking"
ALPHABET = (0.0, 1.0, 3.0)


# ---------------------------------------------------------------------------
# generators


GEN_NAMES = {
    "white": "Surrogates.white_noise_surrogates",
    "corr": "Surrogates.correlated_noise_surrogates",
    "aaft": "Surrogates.AAFT_surrogates",
    "ramp": "Surrogates.refined_AAFT_surrogates[true_amplitudes]",
    "rspec": "Surrogates.refined_AAFT_surrogates[true_spectrum]",
    "rboth": "Surrogates.refined_AAFT_surrogates[both]",
    "twin": "Surrogates.twin_surrogates",
}


def _call(s, g):
    kind = g[0]
    if kind == "white":
        return s.white_noise_surrogates()
    if kind == "corr":
        return s.correlated_noise_surrogates()
    if kind == "aaft":
        return s.AAFT_surrogates()
    if kind == "ramp":
        return s.refined_AAFT_surrogates(g[1], "true_amplitudes")
    if kind == "rspec":
        return s.refined_AAFT_surrogates(g[1], "true_spectrum")
    if kind == "rboth":
        return s.refined_AAFT_surrogates(g[1], "both")
    if kind == "norm":
        s.normalize_original_data()
        return None
    if kind == "tts":
        from pyunicorn.timeseries.surrogates import Surrogates
        fn = {"corr": Surrogates.correlated_noise_surrogates,
              "white": Surrogates.white_noise_surrogates,
              "aaft": Surrogates.AAFT_surrogates}[g[1]]
        s.test_threshold_significance(
            fn, Surrogates.test_pearson_correlation, realizations=2,
            n_bins=8)
        return None
    if kind == "twin":
        _, dim, tau, thr, md = g
        out = s.twin_surrogates(dim, tau, thr, min_dist=md)
        tw = s.twins(thr, md)      # memoised: the list the walk just used
        return (out, tw)
    raise ValueError(g)


def _freeze(x):
    if isinstance(x, tuple):
        return tuple(_freeze(v) for v in x)
    if isinstance(x, np.ndarray):
        return np.array(x, copy=True)
    if isinstance(x, list):
        return [_freeze(v) for v in x]
    return x


def _exc_class(e):
    m = str(e)
    if "dtype mismatch" in m:
        return "dtype-mismatch"
    if "wrong number of dimensions" in m:
        return "ndim-mismatch"
    return type(e).__name__


def _run_history(data, hist, np_src, py_src):
    """Fresh object, the calls of `hist` in order; returns
    [(generator, ('ok', value)|('exc', ..), (log_from, log_to), reference)]
    where reference is None (the case's data) or, after the data have been
    normalised in place (`norm`, `tts`), the data as the library holds them
    then: the promises of later calls refer to those."""
    from pyunicorn.timeseries import surrogates as smod
    from pyunicorn.timeseries._ext import numerics as text
    s = smod.Surrogates(np.array(data, dtype=float), silence_level=3)
    old_np, old_py = smod.random, text.random
    smod.random, text.random = np_src, py_src
    obs = []
    cur = None      # the data as the library reports them after norm / tts
    try:
        for g in hist:
            a = len(np_src.log)
            try:
                out = ("ok", _freeze(_call(s, g)))
            except (Horizon, ref.SeamError, ref.ScriptEnd):
                raise
            except Exception as e:   # noqa  (the library raises many kinds)
                out = ("exc", _exc_class(e), repr(e)[:200])
            b = len(np_src.log)
            if g[0] in ("norm", "tts"):
                cur = np.array(s.original_data, dtype=float, copy=True)
            obs.append((tuple(g), out, (a, b), cur))
    finally:
        smod.random, text.random = old_np, old_py
    return obs


def _defect(data, g, out):
    """None, or (failure class, text, observed, expected) of one call."""
    kind = g[0]
    if out[0] == "exc":
        return ("raises:" + out[1], out[2], out[2], "a surrogate array")
    val = out[1]
    if kind in ("white", "aaft", "ramp"):
        d = ref.row_permutation_defect(val, data)
        if d:
            return ("not-permutation", d, val, "row-wise permutation of "
                    "the data")
        return None
    if kind in ("corr", "rspec"):
        d = ref.spectrum_defect(val, data)
        if d:
            return ("spectrum-" + d[0], d[1], val,
                    "amplitudes of the data at frequencies %s: %s" % (
                        ref.interior_bins(len(data[0])),
                        [[round(float(v), 9) for v in ref.amplitudes(r)]
                         for r in data]))
        return None
    if kind == "rboth":
        if not (isinstance(val, tuple) and len(val) == 2):
            return ("shape", "not a pair", val, "(R, s)")
        d = ref.row_permutation_defect(val[0], data)
        if d:
            return ("A|not-permutation", d, val[0], "row-wise permutation")
        d = ref.spectrum_defect(val[1], data)
        if d:
            return ("S|spectrum-" + d[0], d[1], val[1],
                    "original amplitudes")
        return None
    if kind == "twin":
        _, dim, tau, thr, md = g
        sur, tw = val
        sur = np.asarray(sur)
        N = len(data)
        if sur.ndim != 2 or sur.shape[0] != N or sur.shape[1] < 1:
            return ("shape", "shape %s" % (sur.shape,), sur,
                    "2D array [index, time] with %d rows" % N)
        for i in range(N):
            states = ref.embed(data[i], dim, tau)
            n_emb = len(states)
            tie = ref.on_threshold(states, thr)
            if tie:
                # <=/< at a distance equal to the threshold is not fixed by
                # the property: the neighbourhoods are then the rows of the
                # class's OWN recurrence plot of these states
                R = _own_recurrence_plot(states, thr)
            else:
                R = ref.recurrence_sup(states, thr, strict=False)
            want = ref.twins_oracle(R, md)
            try:
                got = [sorted(int(k) for k in t) for t in tw[i]]
            except Exception:   # noqa
                got = None
            if got != want:
                return ("twins-value" + ("-tie" if tie else ""),
                        "row %d: twins differ from the states "
                        "with identical recurrence rows%s and |i-j|>%d" % (
                            i, " (rows of Surrogates.recurrence_plot, a "
                            "distance equals the threshold)" if tie else "",
                            md), tw[i], want)
            first = [float(data[i][k]) for k in range(n_emb)]
            d = ref.walk_defect([float(v) for v in sur[i]], first, want)
            if d:
                return ("walk-" + d[0], "row %d: %s" % (i, d[1]),
                        [float(v) for v in sur[i]],
                        {"states": first, "twins": want})
        return None
    raise ValueError(g)


def _own_recurrence_plot(states, thr):
    from pyunicorn.timeseries import Surrogates
    return np.asarray(Surrogates.recurrence_plot(
        np.array(states, dtype=float).reshape(len(states), -1), thr,
        silence_level=3)).astype(int).tolist()


def _key(g, cls, where):
    name = GEN_NAMES[g[0]]
    if g[0] == "twin" and cls == "twins-value":
        return "Surrogates.twins:value"
    if g[0] == "twin" and cls == "twins-value-tie":
        return "Surrogates.twins:inconsistent-with-recurrence_plot:tie"
    if g[0] == "rboth" and cls[:2] in ("A|", "S|"):
        # one root cause, one key: filed under the output that is wrong
        name = GEN_NAMES["ramp" if cls[0] == "A" else "rspec"]
        cls = cls[2:]
    return "%s:%s:%s" % (name, cls, where)


def _sig_hist(obs):
    h = hashlib.sha1()
    for g, out, _, _r in obs:
        if out[0] == "exc":
            h.update(("exc" + out[1]).encode())
        else:
            for a in (out[1] if isinstance(out[1], tuple) else (out[1],)):
                if isinstance(a, np.ndarray):
                    h.update(np.round(a, 9).tobytes())
                else:
                    h.update(repr(a).encode())
    return h.digest()[:8]


def _same_obs(a, b):
    if len(a) != len(b):
        return False
    for (g1, o1, _, _r1), (g2, o2, _, _r2) in zip(a, b):
        if g1 != g2 or o1[0] != o2[0]:
            return False
        if o1[0] == "exc":
            if o1[1:] != o2[1:]:
                return False
            continue
        x = o1[1] if isinstance(o1[1], tuple) else (o1[1],)
        y = o2[1] if isinstance(o2[1], tuple) else (o2[1],)
        for u, w in zip(x, y):
            if isinstance(u, np.ndarray):
                if not np.array_equal(u, w, equal_nan=True):
                    return False
            elif u != w:
                return False
    return True


def gen_rows(spec):
    """Deterministic larger arrays: {"gen": name, "N": rows, "n": samples}."""
    N, n = spec["N"], spec["n"]
    t = np.arange(n, dtype=float)
    rows = []
    for i in range(N):
        if spec["gen"] == "generic":      # distinct generic values
            x = np.sin(0.37 * t + i) + 0.5 * np.cos(1.13 * t * (i + 1)) \
                + 0.01 * t
            x = np.round(x, 9)
        elif spec["gen"] == "coarse":     # integer valued, many ties
            x = np.round(3 * np.sin(0.2 * t + i))
        elif spec["gen"] == "saw":        # 17 symbols
            x = (t + 3 * i) % 17
        elif spec["gen"] == "p4":         # period 4 over {0,1,3}
            x = np.array([0.0, 1.0, 3.0, 1.0])[(np.arange(n) + i) % 4]
        else:
            raise ValueError(spec)
        rows.append([float(v) for v in x])
    return rows


def fam_hist(case):
    if isinstance(case["data"], dict):
        data = gen_rows(case["data"])
        label = case["data"]
    else:
        data = [[float(v) for v in row] for row in case["data"]]
        label = data
    hist = [tuple(g) for g in case["hist"]]
    seed = int(case.get("seed", 0))
    bound = int(case.get("bound", 1))
    N, n = len(data), len(data[0])
    horizon = (4 * n * N + 8 * N + 8) * (len(hist) + 4 * sum(
        1 for g in hist if g[0] == "tts"))
    logs = {}
    snap = ref.unmodelled_snapshot()

    def run_fn(cr):
        log = []
        obs = _run_history(data, hist, ref.NumpyRandom(cr, seed, log),
                           ref.PyRandom(cr, seed + 1, log))
        logs["last"] = log
        return obs

    def judge(obs):
        out = []
        failed = set()
        for pos, (g, o, (a, b), cur) in enumerate(obs):
            if g[0] in ("norm", "tts"):
                if o[0] == "exc":
                    out.append(("Surrogates.%s:raises:%s" % (
                        "normalize_original_data" if g[0] == "norm" else
                        "test_threshold_significance", o[1]),
                        "call %d of history %s: %s" % (pos + 1, hist, o[2]),
                        o[2], "no exception"))
                continue
            rdata = data if cur is None else cur.tolist()
            d = _defect(rdata, g, o)
            if d is None:
                continue
            if g in failed:
                continue        # same generator already failed in this run
            failed.add(g)
            where = "fresh"
            if pos > 0:
                # control: the same answers given to a fresh object
                script = ref.Scripted(logs["last"][a:b])
                try:
                    c = _run_history(rdata, [g], script, script)
                    dc = _defect(rdata, g, c[0][1])
                    if dc is None or dc[0] != d[0]:
                        where = "after-history"
                except ref.ScriptEnd:
                    where = "after-history"
            cls, text, observed, expected = d
            out.append((_key(g, cls, where),
                        "call %d of history %s on data %s: %s" % (
                            pos + 1, [list(x) for x in hist], label, text),
                        observed, expected))
        return out

    r = ref.drive(run_fn, judge, _sig_hist, bound, horizon,
                  choices=case.get("choices"))
    if case.get("choices") is None:
        ref.selftest_replay(run_fn, r["sample"], horizon, _same_obs)
    return {"viol": [V(v["key"], v["msg"], v["observed"], v["expected"])
                     for v in r["viol"].values()],
            "evals": r["states"] * len(hist),
            "sig": hashlib.sha1(b"".join(sorted(r["sigs"]))).hexdigest(),
            "trivial": len(r["sigs"]) <= 1,
            "stats": dict(ref.unmodelled_stats(snap), **{
                "cut": r["cut"], "max_deviations": bound,
                "distinct_outputs": len(r["sigs"]),
                "cases_at_bound_%d" % bound: 1}),
            "states": r["states"], "transitions": r["transitions"],
            "traces": r["traces"]}


# ---------------------------------------------------------------------------
# RecurrencePlot.twins / twin_surrogates


def _rp_run(case, cr, seed):
    from pyunicorn.timeseries import RecurrencePlot
    from pyunicorn.timeseries._ext import numerics as text
    from pyunicorn.core._ext.types import NODE
    series = np.array(case["series"], dtype=float)
    kw = dict(metric="supremum", threshold=case["thr"], silence_level=3)
    if case["dim"] > 1:
        kw.update(dim=case["dim"], tau=case["tau"])
    md, nsur = case["md"], case["nsur"]
    old = text.random
    text.random = ref.PyRandom(cr, seed)
    obs = {}
    try:
        rp = RecurrencePlot(series, **kw)
        R = np.array(rp.recurrence_matrix(), dtype=int)
        E = np.array(rp.embedding, dtype=float)
        obs["R"], obs["E"] = R, E
        try:
            obs["twins"] = ("ok", _freeze(rp.twins(min_dist=md)))
        except (Horizon, ref.SeamError):
            raise
        except Exception as e:   # noqa
            obs["twins"] = ("exc", _exc_class(e), repr(e)[:200])
        try:
            obs["sur"] = ("ok", np.array(rp.twin_surrogates(
                n_surrogates=nsur, min_dist=md), copy=True))
        except (Horizon, ref.SeamError):
            raise
        except Exception as e:   # noqa
            obs["sur"] = ("exc", _exc_class(e), repr(e)[:200])
        # what the two methods do, step by step, with the argument types the
        # kernels declare (only consulted when a method itself raised)
        if obs["twins"][0] == "exc" or obs["sur"][0] == "exc":
            tw = []
            try:
                text._twins_r(md, rp.N, rp.recurrence_matrix(),
                              np.asarray(R.sum(axis=0), dtype=NODE), tw)
                obs["k_twins"] = ("ok", _freeze(tw))
            except (Horizon, ref.SeamError):
                raise
            except Exception as e:   # noqa
                obs["k_twins"] = ("exc", _exc_class(e), repr(e)[:200])
            if obs["k_twins"][0] == "ok":
                try:
                    obs["k_sur"] = ("ok", np.array(text._twin_surrogates_r(
                        nsur, rp.N, E.shape[1], tw, rp.embedding), copy=True))
                except (Horizon, ref.SeamError):
                    raise
                except Exception as e:   # noqa
                    obs["k_sur"] = ("exc", _exc_class(e), repr(e)[:200])
    finally:
        text.random = old
    return obs


def _rp_judge(case, obs):
    out = []
    md = case["md"]
    R = obs["R"].tolist()
    n = len(R)
    want = ref.twins_oracle(R, md)
    states = [tuple(float(v) for v in row) for row in obs["E"]]
    desc = "series %s dim=%d tau=%d threshold=%s min_dist=%d" % (
        case["series"], case["dim"], case["tau"], case["thr"], md)

    def twins_value(tw, name):
        try:
            got = [sorted(int(k) for k in t) for t in tw[:n]]
        except Exception:   # noqa
            got = None
        if got != want:
            out.append((name + ":value", desc + ": twins differ from the "
                        "states with identical rows of R and |i-j|>min_dist",
                        tw, want))
            return None
        return want

    def walk(sur, name):
        sur = np.asarray(sur)
        if sur.ndim != 3 or sur.shape[0] != case["nsur"] or sur.shape[1] < 1:
            out.append((name + ":shape", desc + ": shape %s" % (sur.shape,),
                        sur.shape, "(n_surrogates, time, dimension)"))
            return
        for i in range(sur.shape[0]):
            d = ref.walk_defect(
                [tuple(float(v) for v in row) for row in sur[i]], states,
                want)
            if d:
                out.append((name + ":walk-" + d[0], desc + ": " + d[1],
                            sur[i], {"states": states, "twins": want}))
                return

    t = obs["twins"]
    if t[0] == "exc":
        out.append(("RecurrencePlot.twins:raises:" + t[1], desc + ": " + t[2],
                    t[2], want))
        k = obs.get("k_twins")
        if k is not None and k[0] == "ok":
            twins_value(k[1], "RecurrencePlot.twins[kernel _twins_r]")
        elif k is not None and (k[1], k[2]) != (t[1], t[2]):
            out.append(("RecurrencePlot.twins[kernel _twins_r]:raises:" +
                        k[1], desc + ": " + k[2], k[2], want))
    else:
        twins_value(t[1], "RecurrencePlot.twins")
    s = obs["sur"]
    if s[0] == "exc":
        own = not (t[0] == "exc" and (s[1], s[2]) == (t[1], t[2]))
        if own:
            out.append(("RecurrencePlot.twin_surrogates:raises:" + s[1],
                        desc + ": " + s[2], s[2], "surrogate trajectories"))
        k = obs.get("k_sur")
        if k is not None and k[0] == "ok":
            walk(k[1], "RecurrencePlot.twin_surrogates")
        elif k is not None and not own:
            # the method stops in twins(); the walk kernel called with the
            # twins the kernel _twins_r finds:
            out.append(("RecurrencePlot.twin_surrogates:raises:" + k[1],
                        desc + ": walk kernel _twin_surrogates_r called as "
                        "the method does: " + k[2], k[2],
                        "surrogate trajectories"))
    else:
        walk(s[1], "RecurrencePlot.twin_surrogates")
    return out


def _rp_sig(obs):
    h = hashlib.sha1()
    for k in ("twins", "sur", "k_twins", "k_sur"):
        o = obs.get(k)
        if o is None:
            continue
        if o[0] == "exc":
            h.update((k + o[1]).encode())
        elif isinstance(o[1], np.ndarray):
            h.update(o[1].tobytes())
        else:
            h.update(repr(o[1]).encode())
    return h.digest()[:8]


def _rp_same(a, b):
    return _rp_sig(a) == _rp_sig(b) and np.array_equal(a["R"], b["R"])


def fam_rp(case):
    seed = int(case.get("seed", 0))
    bound = int(case.get("bound", 1))
    n = len(case["series"])
    horizon = 4 * n * case["nsur"] + 4
    snap = ref.unmodelled_snapshot()

    def run_fn(cr):
        return _rp_run(case, cr, seed)

    r = ref.drive(run_fn, lambda o: _rp_judge(case, o), _rp_sig, bound,
                  horizon, choices=case.get("choices"))
    if case.get("choices") is None:
        ref.selftest_replay(run_fn, r["sample"], horizon, _rp_same)
    return {"viol": [V(v["key"], v["msg"], v["observed"], v["expected"])
                     for v in r["viol"].values()],
            "evals": 2 * r["states"],
            "sig": hashlib.sha1(b"".join(sorted(r["sigs"]))).hexdigest(),
            "trivial": False,
            "stats": dict(ref.unmodelled_stats(snap), **{
                "cut": r["cut"], "max_deviations": bound,
                "distinct_outputs": len(r["sigs"]),
                "cases_at_bound_%d" % bound: 1}),
            "states": r["states"], "transitions": r["transitions"],
            "traces": r["traces"]}


# ---------------------------------------------------------------------------
# scale: twins on a few hundred states (neighbour counts beyond 128 / 256)


def scale_series(name, n):
    t = np.arange(n)
    if name == "alt":                  # period 2
        x = t % 2
    elif name == "p4":                 # period 4 over {0,1,3}
        x = np.array([0, 1, 3, 1])[t % 4]
    elif name == "p3":                 # period 3 over {0,1,3}
        x = np.array([0, 1, 3])[t % 3]
    elif name == "coarse":             # coarse-grained sine, values -2..2
        x = np.round(2 * np.sin(2 * np.pi * t / 20.0))
    elif name == "blocks":             # long runs crossing 128 and 256
        x = np.where(t < int(0.47 * n), 0, np.where(t < int(0.97 * n), 1, 3))
    else:
        raise ValueError(name)
    return [float(v) for v in x]


def fam_scale_twin(case):
    name, n = case["series"]
    x = scale_series(name, n)
    dim, tau, thr, md = case["dim"], case["tau"], case["thr"], case["md"]
    which, calls = case["which"], int(case.get("calls", 1))
    seed = int(case.get("seed", 0))
    bound = int(case.get("bound", 0))
    snap = ref.unmodelled_snapshot()
    S = ref.embed_np(x, dim, tau)
    n_emb = len(S)
    horizon = 4 * n * calls * 2 + 8
    desc = "series %s(n=%d) dim=%d tau=%d threshold=%s min_dist=%d" % (
        name, n, dim, tau, thr, md)
    R_or, on = ref.recurrence_sup_np(S, thr, strict=(which == "rp"))
    if on and which != "rp":
        # tie at the threshold: neighbourhoods = rows of the class's own
        # recurrence plot (the rp variant always uses the library's R)
        R_or = np.asarray(_own_recurrence_plot(S.tolist(), thr),
                          dtype=np.int8)
    want_sur = ref.twins_np(R_or, md)
    stats = {"states_with_128_or_more_neighbours":
             int((R_or.sum(axis=1) >= 128).sum()),
             "longest_twin_list": max(len(t) for t in want_sur)}

    def run_sur(cr):
        from pyunicorn.timeseries import surrogates as smod
        from pyunicorn.timeseries._ext import numerics as text
        s = smod.Surrogates(np.array([x], dtype=float), silence_level=3)
        old_np, old_py = smod.random, text.random
        smod.random = ref.NumpyRandom(cr, seed)
        text.random = ref.PyRandom(cr, seed + 1)
        obs = []
        try:
            for _ in range(calls):
                try:
                    sur = np.array(s.twin_surrogates(dim, tau, thr,
                                                     min_dist=md), copy=True)
                    obs.append(("ok", sur, _freeze(s.twins(thr, md))))
                except (Horizon, ref.SeamError):
                    raise
                except Exception as e:   # noqa
                    obs.append(("exc", _exc_class(e), repr(e)[:200]))
        finally:
            smod.random, text.random = old_np, old_py
        return obs

    def judge_sur(obs):
        out = []
        for c, o in enumerate(obs):
            where = "fresh" if c == 0 else "after-history"
            if o[0] == "exc":
                out.append(("Surrogates.twin_surrogates:raises:%s:%s" % (
                    o[1], where), "%s, call %d: %s" % (desc, c + 1, o[2]),
                    o[2], "surrogates"))
                break
            sur, tw = o[1], o[2]
            try:
                got = [sorted(int(k) for k in t) for t in tw[0]]
            except Exception:   # noqa
                got = None
            if got != want_sur:
                bad = None if got is None or len(got) != n_emb else next(
                    i for i in range(n_emb) if got[i] != want_sur[i])
                out.append(("Surrogates.twins:value", "%s, call %d: twins "
                            "differ from the states with identical "
                            "recurrence rows and |i-j|>min_dist (first at "
                            "state %s)" % (desc, c + 1, bad),
                            None if bad is None else got[bad],
                            None if bad is None else want_sur[bad]))
                break
            if sur.ndim != 2 or sur.shape[0] != 1 or sur.shape[1] < 1:
                out.append(("Surrogates.twin_surrogates:shape:" + where,
                            "%s: shape %s" % (desc, sur.shape), sur.shape,
                            "(1, time)"))
                break
            d = ref.walk_defect_np(sur[0], np.array(x[:n_emb]), want_sur)
            if d:
                out.append(("Surrogates.twin_surrogates:walk-%s:%s" % (
                    d[0], where), "%s, call %d: %s" % (desc, c + 1, d[1]),
                    sur[0][:40], "a walk over original states"))
                break
        return out

    def run_rp(cr):
        obs = _rp_run({"series": x, "dim": dim, "tau": tau, "thr": thr,
                       "md": md, "nsur": 2}, cr, seed)
        return obs

    def judge_rp(obs):
        R = np.asarray(obs["R"])
        want = ref.twins_np(R, md)
        out = []
        t = obs["twins"]
        if t[0] == "exc":
            return [("RecurrencePlot.twins:raises:" + t[1], desc + ": " +
                     t[2], t[2], "twin lists")]
        try:
            got = [sorted(int(k) for k in q) for q in t[1][:len(R)]]
        except Exception:   # noqa
            got = None
        if got != want:
            bad = None if got is None or len(got) != len(R) else next(
                i for i in range(len(R)) if got[i] != want[i])
            return [("RecurrencePlot.twins:value", "%s: twins differ from "
                     "the states with identical rows of R and |i-j|>min_dist "
                     "(first at state %s)" % (desc, bad),
                     None if bad is None else got[bad],
                     None if bad is None else want[bad])]
        sr = obs["sur"]
        if sr[0] == "exc":
            return [("RecurrencePlot.twin_surrogates:raises:" + sr[1],
                     desc + ": " + sr[2], sr[2], "surrogate trajectories")]
        sur = np.asarray(sr[1])
        if sur.ndim != 3 or sur.shape[0] != 2 or sur.shape[1] < 1:
            return [("RecurrencePlot.twin_surrogates:shape", "%s: shape %s"
                     % (desc, sur.shape), sur.shape,
                     "(n_surrogates, time, dimension)")]
        for i in range(sur.shape[0]):
            d = ref.walk_defect_np(sur[i], obs["E"], want)
            if d:
                out.append(("RecurrencePlot.twin_surrogates:walk-" + d[0],
                            desc + ": " + d[1], sur[i][:40].tolist(),
                            "a walk over original states"))
                break
        return out

    def sig(obs):
        h = hashlib.sha1()
        items = obs if which == "sur" else [obs.get("twins"), obs.get("sur")]
        for o in items:
            for a in o[1:]:
                h.update(a.tobytes() if isinstance(a, np.ndarray)
                         else repr(a).encode())
        return h.digest()[:8]

    run_fn, judge = (run_sur, judge_sur) if which == "sur" else (
        run_rp, judge_rp)
    r = ref.drive(run_fn, judge, sig, bound, horizon,
                  choices=case.get("choices"))
    if case.get("choices") is None:
        ref.selftest_replay(run_fn, r["sample"], horizon,
                            lambda a, b: sig(a) == sig(b))
    stats.update(ref.unmodelled_stats(snap))
    stats.update({"cut": r["cut"], "max_deviations": bound,
                  "distinct_outputs": len(r["sigs"]),
                  "cases_at_bound_%d" % bound: 1})
    return {"viol": [V(v["key"], v["msg"], v["observed"], v["expected"])
                     for v in r["viol"].values()],
            "evals": r["states"] * calls,
            "sig": hashlib.sha1(b"".join(sorted(r["sigs"]))).hexdigest(),
            "trivial": False, "stats": stats,
            "states": r["states"], "transitions": r["transitions"],
            "traces": r["traces"]}


def fam_scale(case):
    return fam_scale_twin(case) if case.get("kind") == "twin" \
        else fam_hist(case)


def scale_cases(tier, seed):
    thorough = tier == "thorough"
    cases = []
    # 1. twins and twin walks on 130-300 states
    series = [("alt", 150), ("p4", 209), ("alt", 257), ("p4", 257),
              ("p3", 300), ("blocks", 257), ("coarse", 260)]
    for (name, n) in series:
        for (dim, tau) in ((1, 1), (2, 1)):
            for thr in (0.5, 1.5, 2.5):
                for md in (0, 7, 130):
                    if not thorough and (md == 7 and thr == 2.5):
                        continue
                    for which in ("sur", "rp"):
                        b = 1 if (n == 150 and md == 130 and (
                            thorough or thr == 0.5)) else 0
                        cases.append({
                            "kind": "twin", "series": [name, n], "dim": dim,
                            "tau": tau, "thr": thr, "md": md, "which": which,
                            "calls": 4 if which == "sur" else 1, "bound": b,
                            "seed": seed})

    def hist(data, h, b):
        cases.append({"data": data, "hist": [list(g) for g in h],
                      "bound": b, "seed": seed})
    four = lambda g: [g] * 4     # noqa: E731  third and fourth call as well
    # 2. spectral / rank generators on 129, 256, 257 samples and 17 rows
    for n in (129, 256, 257):
        for gen in ("generic", "coarse"):
            d = {"gen": gen, "N": 1, "n": n}
            deep = 1 if (gen == "generic" and (thorough or n != 256)) else 0
            hist(d, four(("corr",)), deep)
            hist(d, four(("rspec", 2)), deep)
            hist(d, four(("aaft",)), deep if thorough else 0)
            hist(d, four(("ramp", 2)), 0)
            hist(d, four(("white",)), 1)
            hist(d, [("rboth", 1), ("corr",), ("rboth", 3), ("white",)], 0)
        hist({"gen": "generic", "N": 2, "n": n}, four(("corr",)), 0)
        hist({"gen": "saw", "N": 2, "n": n}, four(("rspec", 2)), 0)
    for n in (9, 64):
        for gen in ("generic", "saw"):
            d = {"gen": gen, "N": 17, "n": n}
            for g in (("corr",), ("aaft",), ("rspec", 2), ("white",)):
                hist(d, four(g), 1 if (n == 9 and (thorough or
                                                   g[0] == "corr")) else 0)
    # 3. normalisation / significance test between generator calls
    tw = ("twin", 1, 1, 0.5, 0)
    norm_hists = [
        [("corr",), ("norm",), ("corr",), ("rspec", 2), ("corr",)],
        [("rspec", 1), ("tts", "corr"), ("rspec", 1), ("corr",)],
        [("white",), ("norm",), ("aaft",), ("ramp", 2), ("norm",),
         ("white",)],
        [("aaft",), ("tts", "aaft"), ("ramp", 2), ("rspec", 2)],
        [tw, ("norm",), tw, ("tts", "white"), tw, ("corr",)]]
    for d in ({"gen": "p4", "N": 1, "n": 16}, {"gen": "p4", "N": 2, "n": 16},
              {"gen": "generic", "N": 2, "n": 9},
              {"gen": "coarse", "N": 1, "n": 129},
              {"gen": "generic", "N": 17, "n": 9}):
        for h in norm_hists:
            if h[0] == tw and d["gen"] != "p4":
                continue
            hist(d, h, 1 if d["n"] <= 16 else 0)
    return cases


FAMILIES = {"hist": fam_hist, "rp": fam_rp, "scale": fam_scale}


# ---------------------------------------------------------------------------
# enumeration


def rows(n):
    return [list(r) for r in itertools.product(ALPHABET, repeat=n)]


def bracelets(n):
    """One representative (the lexicographically smallest member) of every
    class of length-n rows under cyclic shifts and time reversal."""
    seen, out = set(), []
    for r in itertools.product(ALPHABET, repeat=n):
        orbit = set()
        for q in (r, r[::-1]):
            for k in range(n):
                orbit.add(q[k:] + q[:k])
        c = min(orbit)
        if c not in seen:
            seen.add(c)
            out.append(list(c))
    return out


def small_arrays(tier):
    """(N=1 arrays, N=2 arrays) with n_time in {4,5} over ALPHABET.
    N=1: every row (quick: one row per class under cyclic shift and time
    reversal).  N=2: (r, r') with r' the row `off` places after r in the
    list used (cyclically).  thorough: every length-4 row, off=7, and the
    length-5 bracelet representatives, off in {7, 19} (every listed row
    occurs in both positions); quick: every second bracelet representative
    with the one 7 places later (every representative occurs once)."""
    one, two = [], []
    for n in (4, 5):
        B = bracelets(n)
        R = rows(n) if tier == "thorough" else B
        one += [[r] for r in R]
        if tier == "thorough" and n == 5:
            for off in (7, 19):
                two += [[B[i], B[(i + off) % len(B)]] for i in range(len(B))]
        else:
            step = 1 if tier == "thorough" else 2
            two += [[R[i], R[(i + 7) % len(R)]]
                    for i in range(0, len(R), step)]
    return one, two


LONG = [
    [[0.31, 1.72, -0.43, 2.24, 0.97, -1.36, 0.18, 1.19]],
    [[0.0, 1.0, 0.0, 1.0, 0.0, 1.0, 0.0, 1.0]],
    [[0.0, 1.0, 3.0, 1.0, 0.0, 1.0, 3.0, 1.0],
     [2.51, -0.52, 0.73, 1.24, 3.56, 0.27, -1.08, 0.49]],
    [[0.2, 1.1, 3.0, 0.1, 1.2, 2.9, 0.0, 1.0, 3.1]],
    [[0.0, 1.0, 3.0, 0.0, 1.0, 3.0, 0.0, 1.0, 3.0],
     [1.51, 0.26, -2.03, 0.52, 3.27, 1.04, -0.76, 2.02, 0.13]],
    [[round(float(np.sin(0.9 * t) + 0.5 * np.cos(2.3 * t + 1)), 6)
      for t in range(16)]],
    [[0.0, 1.0, 3.0, 1.0] * 4,
     [0.0, 1.02, 3.01, 1.03, 0.04, 1.0, 3.05, 1.01,
      0.02, 1.04, 3.0, 1.05, 0.01, 1.03, 3.02, 1.0]],
]

TWIN_PARAMS = [(dim, tau, thr, md) for (dim, tau) in ((1, 1), (2, 1))
               for thr in (0.5, 1.5, 2.5) for md in (0, 1, 2, 7)]
TW = ("twin", 1, 1, 0.5, 0)


def triples(tier):
    k_list = (1, 2, 3) if tier == "thorough" else (1, 2)
    gens = [("white",), ("corr",), ("aaft",)]
    gens += [("ramp", k) for k in (k_list if tier == "thorough" else (2,))]
    gens += [("rspec", k) for k in k_list]
    if tier == "thorough":
        gens += [("rboth", 2)]
    return [[g, g, g] for g in gens + [TW]]


def pairs(tier, full, short=False):
    base = [("white",), ("corr",), ("aaft",), ("rspec", 2), TW]
    if full:
        base.insert(3, ("ramp", 2))
    if short:
        base.remove(TW)
    return [[a, b] for a in base for b in base if a != b]


def twin_histories():
    out = []
    for p in TWIN_PARAMS:
        g = ("twin",) + p
        out.append([g, g, g] if p[3] in (0, 1) else [g])
    return out


def run(ctx):
    thorough = ctx.tier == "thorough"
    seed = ctx.seed
    one, two = small_arrays(ctx.tier)

    def mk(data, h, b):
        return {"data": data, "hist": [list(g) for g in h], "bound": b,
                "seed": seed}

    cases = []
    for data in one:
        for h in triples(ctx.tier) + pairs(ctx.tier, thorough):
            cases.append(mk(data, h, 1))
    for data in two:
        hs = triples(ctx.tier) + (pairs(ctx.tier, False, True) if thorough
                                  else [])
        for h in hs:
            cases.append(mk(data, h, 1))
    for data in LONG:
        for h in triples(ctx.tier) + pairs(ctx.tier, True):
            cases.append(mk(data, h, 2 if (thorough and len(data) == 1)
                            else 1))
    ctx.explore("hist", cases, chunk=8, desc="generator histories on one "
                "Surrogates object x every answer sequence with <=1 "
                "deviation")
    n2 = 0
    if thorough:
        # two deviations: one row per bracelet class of length 4
        cases = []
        two_dev = [[("white",)] * 3, [("corr",)] * 3, [("aaft",)] * 3,
                   [TW] * 3, [("corr",), ("rspec", 2)],
                   [("white",), ("corr",)], [("aaft",), ("corr",)]]
        for r in bracelets(4):
            for h in two_dev:
                cases.append(mk([r], h, 2))
        n2 = len(cases)
        ctx.explore("hist", cases, chunk=1, desc="the same with <=2 "
                    "deviations (length-4 bracelet representatives)")
    # twin parameter sweep (Surrogates)
    cases = []
    reps = bracelets(4) + (bracelets(5) if thorough else [])
    for data in one + two:
        for h in twin_histories():
            cases.append(mk(data, h, 2 if (
                len(data) == 1 and data[0] in reps) else 1))
    for data in LONG:
        for h in twin_histories():
            cases.append(mk(data, h, 1))
    ctx.explore("hist", cases, chunk=4, desc="Surrogates.twin_surrogates "
                "parameter sweep (embedding, threshold, min_dist)")
    # RecurrencePlot
    cases = []
    series = [d[0] for d in one] + [r for d in LONG for r in d]
    for sr in series:
        for (dim, tau, thr, md) in TWIN_PARAMS:
            for nsur in (1, 2):
                if nsur == 2 and md not in (0, 1):
                    continue
                cases.append({"series": sr, "dim": dim, "tau": tau,
                              "thr": thr, "md": md, "nsur": nsur,
                              "bound": 2 if sr in reps else 1, "seed": seed})
    ctx.explore("rp", cases, desc="RecurrencePlot.twins/twin_surrogates")
    ctx.explore("scale", scale_cases(ctx.tier, seed), chunk=1,
                desc="larger structured inputs: twins on 150-300 states "
                "(neighbour counts beyond 128/256), generators on 129/256/"
                "257 samples and 17 rows with four calls per object, "
                "normalisation / significance test between calls")
    ctx.rule = (
        "hist: data = N=1 arrays of length 4 and 5 over {0,1,3} (%s), N=2 "
        "arrays (r, r') with r' 7 (thorough, length 5: 7 and 19) places "
        "after r in the list of rows (thorough, length 5: of bracelet "
        "representatives), and %d fixed "
        "arrays of length 8/9/16; histories = g,g,g for each generator "
        "(outputs of call 1,2,3 all judged, so the one- and two-call "
        "histories are covered as prefixes) and ordered pairs of different "
        "generators (N=1 and fixed arrays; N=2: thorough only, without the "
        "twin generator); random source: shuffle -> every permutation "
        "(n_time<=5; 6 fixed ones beyond), uniform phases -> every row "
        "vector over {0,pi/2,pi,3pi/2,1.234} (len<=3; per element beyond), "
        "randn -> 3 "
        "reference draws, twin walk -> {0,1/4,1/2,3/4,0.999}; option 0 = "
        "seeded default; all executions with <= bound deviations.  rp: the "
        "N=1 rows and the fixed rows x (dim,tau) in {(1,1),(2,1)} x threshold "
        "in {.5,1.5,2.5} x min_dist in {0,1,2,7} x n_surrogates in {1,2}.  A "
        "hist case is non-trivial when the answers changed the output (>= 2 "
        "distinct outputs); distinct = distinct sets of outputs." % (
            "every row" if thorough else "one row per class under cyclic "
            "shift and time reversal: 21 + 39 rows", len(LONG)))
    ctx.notes["unmodelled_rng_functions"] = \
        ref.unmodelled_names(ctx.stats) or \
        "none (every draw of the generators went through a choice point)"
    ctx.notes.update({
        "deviation_bound": (
            "1 for all cases; 2 for the twin sweep and RecurrencePlot on "
            "the N=1 bracelet representatives of length 4" + (
                " and 5, for %d history cases on length-4 rows and for the "
                "single-row fixed arrays" % n2
                if thorough else "")),
        "horizon": "(4*n_time*N+8N+8) draws per call; 4*n_time*n_surrogates+4"
                   " for RecurrencePlot; executions cut by the horizon are "
                   "counted under stats.cut"})
    ctx.assumptions += [
        "recurrence thresholds are half-integers on integer-valued data "
        "(fixed rows: no pair of states at distance == threshold, else the "
        "case is excluded), so the <=/< convention at the threshold is not "
        "exercised",
        "twins: |i-j| > min_dist (the reading the kernels implement; the "
        "docstring only says 'minimum temporal distance')",
        "numpy's own RandomState supplies the default answers; numpy, and "
        "the explicit DFT sum of the oracle, are trusted",
        "amplitude comparison: |a-b| <= 1e-6 * max amplitude of the row",
        "twin surrogates of Surrogates are scalar (first embedding "
        "component): a state is identified by its value, the walk test is "
        "existential over the original indices carrying that value"]
