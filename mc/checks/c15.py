"""C15  Surrogates preserve exactly what each method promises.

"For every random seed" is checked as "for every sequence of answers the
random source can give": the random sources of the surrogate code are
replaced by choice points (refmodel/surrogates.py) and every execution with
at most `bound` deviations from the seeded default answers is run on the real
library (mc.choice.explore), each to completion under an explicit horizon.

  hist   a data array x a history of generator calls on ONE Surrogates object
         (three consecutive calls of one generator -- which contains the one-
         and two-call histories as prefixes -- or an ordered pair of different
         generators); every output of every call is held to its promise
  rp     RecurrencePlot.twins / twin_surrogates for a series x embedding x
         threshold x min_dist

A case is one (input, history); the family runs the whole bounded DFS for it.
A case may carry "choices": then exactly that execution is run (minimal
replay).
"""
import hashlib
import itertools

import numpy as np

from ..core import V
from ..choice import Horizon
from ..refmodel import surrogates as ref

LEVEL = "model_checking"
ALPHABET = (0.0, 1.0, 3.0)


# ---------------------------------------------------------------------------
# generators


GEN_NAMES = {
    "white": "Surrogates.white_noise_surrogates",
    "corr": "Surrogates.correlated_noise_surrogates",
    "aaft": "Surrogates.AAFT_surrogates",
    "ramp": "Surrogates.refined_AAFT_surrogates[true_amplitudes]",
    "rspec": "Surrogates.refined_AAFT_surrogates[true_spectrum]",
    "rboth": "Surrogates.refined_AAFT_surrogates[both]",
    "twin": "Surrogates.twin_surrogates",
}


def _call(s, g):
    kind = g[0]
    if kind == "white":
        return s.white_noise_surrogates()
    if kind == "corr":
        return s.correlated_noise_surrogates()
    if kind == "aaft":
        return s.AAFT_surrogates()
    if kind == "ramp":
        return s.refined_AAFT_surrogates(g[1], "true_amplitudes")
    if kind == "rspec":
        return s.refined_AAFT_surrogates(g[1], "true_spectrum")
    if kind == "rboth":
        return s.refined_AAFT_surrogates(g[1], "both")
    if kind == "twin":
        _, dim, tau, thr, md = g
        out = s.twin_surrogates(dim, tau, thr, min_dist=md)
        tw = s.twins(thr, md)      # memoised: the list the walk just used
        return (out, tw)
    raise ValueError(g)


def _freeze(x):
    if isinstance(x, tuple):
        return tuple(_freeze(v) for v in x)
    if isinstance(x, np.ndarray):
        return np.array(x, copy=True)
    if isinstance(x, list):
        return [_freeze(v) for v in x]
    return x


def _exc_class(e):
    m = str(e)
    if "dtype mismatch" in m:
        return "dtype-mismatch"
    if "wrong number of dimensions" in m:
        return "ndim-mismatch"
    return type(e).__name__


def _run_history(data, hist, np_src, py_src):
    """Fresh object, the calls of `hist` in order; returns
    [(generator, 'ok'|'exc', value, (log_from, log_to))]."""
    from pyunicorn.timeseries import surrogates as smod
    from pyunicorn.timeseries._ext import numerics as text
    s = smod.Surrogates(np.array(data, dtype=float), silence_level=3)
    old_np, old_py = smod.random, text.random
    smod.random, text.random = np_src, py_src
    obs = []
    try:
        for g in hist:
            a = len(np_src.log) if hasattr(np_src, "log") else 0
            try:
                out = ("ok", _freeze(_call(s, g)))
            except (Horizon, ref.SeamError, ref.ScriptEnd):
                raise
            except Exception as e:   # noqa  (the library raises many kinds)
                out = ("exc", _exc_class(e), repr(e)[:200])
            b = len(np_src.log) if hasattr(np_src, "log") else 0
            obs.append((tuple(g), out, (a, b)))
    finally:
        smod.random, text.random = old_np, old_py
    return obs


def _defect(data, g, out):
    """None, or (failure class, text, observed, expected) of one call."""
    kind = g[0]
    if out[0] == "exc":
        return ("raises:" + out[1], out[2], out[2], "a surrogate array")
    val = out[1]
    if kind in ("white", "aaft", "ramp"):
        d = ref.row_permutation_defect(val, data)
        if d:
            return ("not-permutation", d, val, "row-wise permutation of "
                    "the data")
        return None
    if kind in ("corr", "rspec"):
        d = ref.spectrum_defect(val, data)
        if d:
            return ("spectrum-" + d[0], d[1], val,
                    "amplitudes of the data at frequencies %s: %s" % (
                        ref.interior_bins(len(data[0])),
                        [[round(float(v), 9) for v in ref.amplitudes(r)]
                         for r in data]))
        return None
    if kind == "rboth":
        if not (isinstance(val, tuple) and len(val) == 2):
            return ("shape", "not a pair", val, "(R, s)")
        d = ref.row_permutation_defect(val[0], data)
        if d:
            return ("A|not-permutation", d, val[0], "row-wise permutation")
        d = ref.spectrum_defect(val[1], data)
        if d:
            return ("S|spectrum-" + d[0], d[1], val[1],
                    "original amplitudes")
        return None
    if kind == "twin":
        _, dim, tau, thr, md = g
        sur, tw = val
        sur = np.asarray(sur)
        N = len(data)
        if sur.ndim != 2 or sur.shape[0] != N or sur.shape[1] < 1:
            return ("shape", "shape %s" % (sur.shape,), sur,
                    "2D array [index, time] with %d rows" % N)
        for i in range(N):
            states = ref.embed(data[i], dim, tau)
            n_emb = len(states)
            R = ref.recurrence_sup(states, thr, strict=False)
            want = ref.twins_oracle(R, md)
            try:
                got = [sorted(int(k) for k in t) for t in tw[i]]
            except Exception:   # noqa
                got = None
            if got != want:
                return ("twins-value", "row %d: twins differ from the states "
                        "with identical recurrence rows and |i-j|>%d" % (
                            i, md), tw[i], want)
            first = [float(data[i][k]) for k in range(n_emb)]
            d = ref.walk_defect([float(v) for v in sur[i]], first, want)
            if d:
                return ("walk-" + d[0], "row %d: %s" % (i, d[1]),
                        [float(v) for v in sur[i]],
                        {"states": first, "twins": want})
        return None
    raise ValueError(g)


def _key(g, cls, where):
    name = GEN_NAMES[g[0]]
    if g[0] == "twin" and cls == "twins-value":
        return "Surrogates.twins:value"
    if g[0] == "rboth" and cls[:2] in ("A|", "S|"):
        # one root cause, one key: filed under the output that is wrong
        name = GEN_NAMES["ramp" if cls[0] == "A" else "rspec"]
        cls = cls[2:]
    return "%s:%s:%s" % (name, cls, where)


def _sig_hist(obs):
    h = hashlib.sha1()
    for g, out, _ in obs:
        if out[0] == "exc":
            h.update(("exc" + out[1]).encode())
        else:
            for a in (out[1] if isinstance(out[1], tuple) else (out[1],)):
                if isinstance(a, np.ndarray):
                    h.update(np.round(a, 9).tobytes())
                else:
                    h.update(repr(a).encode())
    return h.digest()[:8]


def _same_obs(a, b):
    if len(a) != len(b):
        return False
    for (g1, o1, _), (g2, o2, _) in zip(a, b):
        if g1 != g2 or o1[0] != o2[0]:
            return False
        if o1[0] == "exc":
            if o1[1:] != o2[1:]:
                return False
            continue
        x = o1[1] if isinstance(o1[1], tuple) else (o1[1],)
        y = o2[1] if isinstance(o2[1], tuple) else (o2[1],)
        for u, w in zip(x, y):
            if isinstance(u, np.ndarray):
                if not np.array_equal(u, w, equal_nan=True):
                    return False
            elif u != w:
                return False
    return True


def fam_hist(case):
    data = [[float(v) for v in row] for row in case["data"]]
    hist = [tuple(g) for g in case["hist"]]
    seed = int(case.get("seed", 0))
    bound = int(case.get("bound", 1))
    N, n = len(data), len(data[0])
    horizon = (4 * n * N + 8 * N + 8) * len(hist)
    logs = {}
    snap = ref.unmodelled_snapshot()
    for g in hist:
        if g[0] == "twin" and any(
                ref.on_threshold(ref.embed(row, g[1], g[2]), g[3])
                for row in data):
            return {"viol": [], "evals": 0, "trivial": True, "excluded": {
                "state pair exactly at the recurrence threshold (<=/< "
                "convention not fixed by the property)": 1}}

    def run_fn(cr):
        log = []
        obs = _run_history(data, hist, ref.NumpyRandom(cr, seed, log),
                           ref.PyRandom(cr, seed + 1, log))
        logs["last"] = log
        return obs

    def judge(obs):
        out = []
        failed = set()
        for pos, (g, o, (a, b)) in enumerate(obs):
            d = _defect(data, g, o)
            if d is None:
                continue
            if g in failed:
                continue        # same generator already failed in this run
            failed.add(g)
            where = "fresh"
            if pos > 0:
                # control: the same answers given to a fresh object
                script = ref.Scripted(logs["last"][a:b])
                try:
                    c = _run_history(data, [g], script, script)
                    dc = _defect(data, g, c[0][1])
                    if dc is None or dc[0] != d[0]:
                        where = "after-history"
                except ref.ScriptEnd:
                    where = "after-history"
            cls, text, observed, expected = d
            out.append((_key(g, cls, where),
                        "call %d of history %s on data %s: %s" % (
                            pos + 1, [list(x) for x in hist], data, text),
                        observed, expected))
        return out

    r = ref.drive(run_fn, judge, _sig_hist, bound, horizon,
                  choices=case.get("choices"))
    if case.get("choices") is None:
        ref.selftest_replay(run_fn, r["sample"], horizon, _same_obs)
    return {"viol": [V(v["key"], v["msg"], v["observed"], v["expected"])
                     for v in r["viol"].values()],
            "evals": r["states"] * len(hist),
            "sig": hashlib.sha1(b"".join(sorted(r["sigs"]))).hexdigest(),
            "trivial": len(r["sigs"]) <= 1,
            "stats": dict(ref.unmodelled_stats(snap), **{
                "cut": r["cut"], "max_deviations": bound,
                "distinct_outputs": len(r["sigs"]),
                "cases_at_bound_%d" % bound: 1}),
            "states": r["states"], "transitions": r["transitions"],
            "traces": r["traces"]}


# ---------------------------------------------------------------------------
# RecurrencePlot.twins / twin_surrogates


def _rp_run(case, cr, seed):
    from pyunicorn.timeseries import RecurrencePlot
    from pyunicorn.timeseries._ext import numerics as text
    from pyunicorn.core._ext.types import NODE
    series = np.array(case["series"], dtype=float)
    kw = dict(metric="supremum", threshold=case["thr"], silence_level=3)
    if case["dim"] > 1:
        kw.update(dim=case["dim"], tau=case["tau"])
    md, nsur = case["md"], case["nsur"]
    old = text.random
    text.random = ref.PyRandom(cr, seed)
    obs = {}
    try:
        rp = RecurrencePlot(series, **kw)
        R = np.array(rp.recurrence_matrix(), dtype=int)
        E = np.array(rp.embedding, dtype=float)
        obs["R"], obs["E"] = R, E
        try:
            obs["twins"] = ("ok", _freeze(rp.twins(min_dist=md)))
        except (Horizon, ref.SeamError):
            raise
        except Exception as e:   # noqa
            obs["twins"] = ("exc", _exc_class(e), repr(e)[:200])
        try:
            obs["sur"] = ("ok", np.array(rp.twin_surrogates(
                n_surrogates=nsur, min_dist=md), copy=True))
        except (Horizon, ref.SeamError):
            raise
        except Exception as e:   # noqa
            obs["sur"] = ("exc", _exc_class(e), repr(e)[:200])
        # what the two methods do, step by step, with the argument types the
        # kernels declare (only consulted when a method itself raised)
        if obs["twins"][0] == "exc" or obs["sur"][0] == "exc":
            tw = []
            try:
                text._twins_r(md, rp.N, rp.recurrence_matrix(),
                              np.asarray(R.sum(axis=0), dtype=NODE), tw)
                obs["k_twins"] = ("ok", _freeze(tw))
            except (Horizon, ref.SeamError):
                raise
            except Exception as e:   # noqa
                obs["k_twins"] = ("exc", _exc_class(e), repr(e)[:200])
            if obs["k_twins"][0] == "ok":
                try:
                    obs["k_sur"] = ("ok", np.array(text._twin_surrogates_r(
                        nsur, rp.N, E.shape[1], tw, rp.embedding), copy=True))
                except (Horizon, ref.SeamError):
                    raise
                except Exception as e:   # noqa
                    obs["k_sur"] = ("exc", _exc_class(e), repr(e)[:200])
    finally:
        text.random = old
    return obs


def _rp_judge(case, obs):
    out = []
    md = case["md"]
    R = obs["R"].tolist()
    n = len(R)
    want = ref.twins_oracle(R, md)
    states = [tuple(float(v) for v in row) for row in obs["E"]]
    desc = "series %s dim=%d tau=%d threshold=%s min_dist=%d" % (
        case["series"], case["dim"], case["tau"], case["thr"], md)

    def twins_value(tw, name):
        try:
            got = [sorted(int(k) for k in t) for t in tw[:n]]
        except Exception:   # noqa
            got = None
        if got != want:
            out.append((name + ":value", desc + ": twins differ from the "
                        "states with identical rows of R and |i-j|>min_dist",
                        tw, want))
            return None
        return want

    def walk(sur, name):
        sur = np.asarray(sur)
        if sur.ndim != 3 or sur.shape[0] != case["nsur"] or sur.shape[1] < 1:
            out.append((name + ":shape", desc + ": shape %s" % (sur.shape,),
                        sur.shape, "(n_surrogates, time, dimension)"))
            return
        for i in range(sur.shape[0]):
            d = ref.walk_defect(
                [tuple(float(v) for v in row) for row in sur[i]], states,
                want)
            if d:
                out.append((name + ":walk-" + d[0], desc + ": " + d[1],
                            sur[i], {"states": states, "twins": want}))
                return

    t = obs["twins"]
    if t[0] == "exc":
        out.append(("RecurrencePlot.twins:raises:" + t[1], desc + ": " + t[2],
                    t[2], want))
        k = obs.get("k_twins")
        if k is not None and k[0] == "ok":
            twins_value(k[1], "RecurrencePlot.twins[kernel _twins_r]")
        elif k is not None and (k[1], k[2]) != (t[1], t[2]):
            out.append(("RecurrencePlot.twins[kernel _twins_r]:raises:" +
                        k[1], desc + ": " + k[2], k[2], want))
    else:
        twins_value(t[1], "RecurrencePlot.twins")
    s = obs["sur"]
    if s[0] == "exc":
        own = not (t[0] == "exc" and (s[1], s[2]) == (t[1], t[2]))
        if own:
            out.append(("RecurrencePlot.twin_surrogates:raises:" + s[1],
                        desc + ": " + s[2], s[2], "surrogate trajectories"))
        k = obs.get("k_sur")
        if k is not None and k[0] == "ok":
            walk(k[1], "RecurrencePlot.twin_surrogates")
        elif k is not None and not own:
            # the method stops in twins(); the walk kernel called with the
            # twins the kernel _twins_r finds:
            out.append(("RecurrencePlot.twin_surrogates:raises:" + k[1],
                        desc + ": walk kernel _twin_surrogates_r called as "
                        "the method does: " + k[2], k[2],
                        "surrogate trajectories"))
    else:
        walk(s[1], "RecurrencePlot.twin_surrogates")
    return out


def _rp_sig(obs):
    h = hashlib.sha1()
    for k in ("twins", "sur", "k_twins", "k_sur"):
        o = obs.get(k)
        if o is None:
            continue
        if o[0] == "exc":
            h.update((k + o[1]).encode())
        elif isinstance(o[1], np.ndarray):
            h.update(o[1].tobytes())
        else:
            h.update(repr(o[1]).encode())
    return h.digest()[:8]


def _rp_same(a, b):
    return _rp_sig(a) == _rp_sig(b) and np.array_equal(a["R"], b["R"])


def fam_rp(case):
    seed = int(case.get("seed", 0))
    bound = int(case.get("bound", 1))
    n = len(case["series"])
    horizon = 4 * n * case["nsur"] + 4
    snap = ref.unmodelled_snapshot()

    def run_fn(cr):
        return _rp_run(case, cr, seed)

    r = ref.drive(run_fn, lambda o: _rp_judge(case, o), _rp_sig, bound,
                  horizon, choices=case.get("choices"))
    if case.get("choices") is None:
        ref.selftest_replay(run_fn, r["sample"], horizon, _rp_same)
    return {"viol": [V(v["key"], v["msg"], v["observed"], v["expected"])
                     for v in r["viol"].values()],
            "evals": 2 * r["states"],
            "sig": hashlib.sha1(b"".join(sorted(r["sigs"]))).hexdigest(),
            "trivial": False,
            "stats": dict(ref.unmodelled_stats(snap), **{
                "cut": r["cut"], "max_deviations": bound,
                "distinct_outputs": len(r["sigs"]),
                "cases_at_bound_%d" % bound: 1}),
            "states": r["states"], "transitions": r["transitions"],
            "traces": r["traces"]}


FAMILIES = {"hist": fam_hist, "rp": fam_rp}


# ---------------------------------------------------------------------------
# enumeration


def rows(n):
    return [list(r) for r in itertools.product(ALPHABET, repeat=n)]


def bracelets(n):
    """One representative (the lexicographically smallest member) of every
    class of length-n rows under cyclic shifts and time reversal."""
    seen, out = set(), []
    for r in itertools.product(ALPHABET, repeat=n):
        orbit = set()
        for q in (r, r[::-1]):
            for k in range(n):
                orbit.add(q[k:] + q[:k])
        c = min(orbit)
        if c not in seen:
            seen.add(c)
            out.append(list(c))
    return out


def small_arrays(tier):
    """(N=1 arrays, N=2 arrays) with n_time in {4,5} over ALPHABET.
    N=1: every row (quick: one row per class under cyclic shift and time
    reversal).  N=2: (r, r') with r' the row `off` places after r in the
    list used (cyclically), so every listed row occurs in both positions:
    quick: bracelet representatives, off=7; thorough: every length-4 row,
    off=7, and the length-5 bracelet representatives, off in {7, 19}."""
    one, two = [], []
    for n in (4, 5):
        B = bracelets(n)
        R = rows(n) if tier == "thorough" else B
        one += [[r] for r in R]
        if tier == "thorough" and n == 5:
            for off in (7, 19):
                two += [[B[i], B[(i + off) % len(B)]] for i in range(len(B))]
        else:
            two += [[R[i], R[(i + 7) % len(R)]] for i in range(len(R))]
    return one, two


LONG = [
    [[0.31, 1.72, -0.43, 2.24, 0.97, -1.36, 0.18, 1.19]],
    [[0.0, 1.0, 0.0, 1.0, 0.0, 1.0, 0.0, 1.0]],
    [[0.0, 1.0, 3.0, 1.0, 0.0, 1.0, 3.0, 1.0],
     [2.51, -0.52, 0.73, 1.24, 3.56, 0.27, -1.08, 0.49]],
    [[0.2, 1.1, 3.0, 0.1, 1.2, 2.9, 0.0, 1.0, 3.1]],
    [[0.0, 1.0, 3.0, 0.0, 1.0, 3.0, 0.0, 1.0, 3.0],
     [1.51, 0.26, -2.03, 0.52, 3.27, 1.04, -0.76, 2.02, 0.13]],
    [[round(float(np.sin(0.9 * t) + 0.5 * np.cos(2.3 * t + 1)), 6)
      for t in range(16)]],
    [[0.0, 1.0, 3.0, 1.0] * 4,
     [0.0, 1.02, 3.01, 1.03, 0.04, 1.0, 3.05, 1.01,
      0.02, 1.04, 3.0, 1.05, 0.01, 1.03, 3.02, 1.0]],
]

TWIN_PARAMS = [(dim, tau, thr, md) for (dim, tau) in ((1, 1), (2, 1))
               for thr in (0.5, 1.5, 2.5) for md in (0, 1, 2, 7)]
TW = ("twin", 1, 1, 0.5, 0)


def triples(tier):
    k_list = (1, 2, 3) if tier == "thorough" else (1, 2)
    gens = [("white",), ("corr",), ("aaft",)]
    gens += [("ramp", k) for k in (k_list if tier == "thorough" else (2,))]
    gens += [("rspec", k) for k in k_list]
    if tier == "thorough":
        gens += [("rboth", 2)]
    return [[g, g, g] for g in gens + [TW]]


def pairs(tier, full, short=False):
    base = [("white",), ("corr",), ("aaft",), ("rspec", 2), TW]
    if full:
        base.insert(3, ("ramp", 2))
    if short:
        base.remove(TW)
    return [[a, b] for a in base for b in base if a != b]


def twin_histories():
    out = []
    for p in TWIN_PARAMS:
        g = ("twin",) + p
        out.append([g, g, g] if p[3] in (0, 1) else [g])
    return out


def run(ctx):
    thorough = ctx.tier == "thorough"
    seed = ctx.seed
    one, two = small_arrays(ctx.tier)

    def mk(data, h, b):
        return {"data": data, "hist": [list(g) for g in h], "bound": b,
                "seed": seed}

    cases = []
    for data in one:
        for h in triples(ctx.tier) + pairs(ctx.tier, thorough):
            cases.append(mk(data, h, 1))
    for data in two:
        hs = triples(ctx.tier) + (pairs(ctx.tier, False, True) if thorough
                                  else [])
        for h in hs:
            cases.append(mk(data, h, 1))
    for data in LONG:
        for h in triples(ctx.tier) + pairs(ctx.tier, True):
            cases.append(mk(data, h, 2 if (thorough and len(data) == 1)
                            else 1))
    ctx.explore("hist", cases, chunk=8, desc="generator histories on one "
                "Surrogates object x every answer sequence with <=1 "
                "deviation")
    n2 = 0
    if thorough:
        # two deviations: one row per bracelet class of length 4
        cases = []
        two_dev = [[("white",)] * 3, [("corr",)] * 3, [("aaft",)] * 3,
                   [TW] * 3, [("corr",), ("rspec", 2)],
                   [("white",), ("corr",)], [("aaft",), ("corr",)]]
        for r in bracelets(4):
            for h in two_dev:
                cases.append(mk([r], h, 2))
        n2 = len(cases)
        ctx.explore("hist", cases, chunk=1, desc="the same with <=2 "
                    "deviations (length-4 bracelet representatives)")
    # twin parameter sweep (Surrogates)
    cases = []
    reps = bracelets(4) + (bracelets(5) if thorough else [])
    for data in one + two:
        for h in twin_histories():
            cases.append(mk(data, h, 2 if (
                len(data) == 1 and data[0] in reps) else 1))
    for data in LONG:
        for h in twin_histories():
            cases.append(mk(data, h, 1))
    ctx.explore("hist", cases, chunk=4, desc="Surrogates.twin_surrogates "
                "parameter sweep (embedding, threshold, min_dist)")
    # RecurrencePlot
    cases = []
    series = [d[0] for d in one] + [r for d in LONG for r in d]
    for sr in series:
        for (dim, tau, thr, md) in TWIN_PARAMS:
            for nsur in (1, 2):
                if nsur == 2 and md not in (0, 1):
                    continue
                cases.append({"series": sr, "dim": dim, "tau": tau,
                              "thr": thr, "md": md, "nsur": nsur,
                              "bound": 2 if sr in reps else 1, "seed": seed})
    ctx.explore("rp", cases, desc="RecurrencePlot.twins/twin_surrogates")
    ctx.rule = (
        "hist: data = N=1 arrays of length 4 and 5 over {0,1,3} (%s), N=2 "
        "arrays (r, r') with r' 7 (thorough, length 5: 7 and 19) places "
        "after r in the list of rows (thorough, length 5: of bracelet "
        "representatives), and %d fixed "
        "arrays of length 8/9/16; histories = g,g,g for each generator "
        "(outputs of call 1,2,3 all judged, so the one- and two-call "
        "histories are covered as prefixes) and ordered pairs of different "
        "generators (N=1 and fixed arrays; N=2: thorough only, without the "
        "twin generator); random source: shuffle -> every permutation "
        "(n_time<=5; 6 fixed ones beyond), uniform phases -> every row "
        "vector over {0,pi/2,pi,3pi/2,1.234} (len<=3; per element beyond), "
        "randn -> 3 "
        "reference draws, twin walk -> {0,1/4,1/2,3/4,0.999}; option 0 = "
        "seeded default; all executions with <= bound deviations.  rp: the "
        "N=1 rows and the fixed rows x (dim,tau) in {(1,1),(2,1)} x threshold "
        "in {.5,1.5,2.5} x min_dist in {0,1,2,7} x n_surrogates in {1,2}.  A "
        "hist case is non-trivial when the answers changed the output (>= 2 "
        "distinct outputs); distinct = distinct sets of outputs." % (
            "every row" if thorough else "one row per class under cyclic "
            "shift and time reversal: 21 + 39 rows", len(LONG)))
    ctx.notes.update({
        "deviation_bound": (
            "1 for all cases; 2 for the twin sweep and RecurrencePlot on "
            "the N=1 bracelet representatives of length 4" + (
                " and 5, for %d history cases on length-4 rows and for the "
                "single-row fixed arrays" % n2
                if thorough else "")),
        "horizon": "(4*n_time*N+8N+8) draws per call; 4*n_time*n_surrogates+4"
                   " for RecurrencePlot; executions cut by the horizon are "
                   "counted under stats.cut"})
    ctx.assumptions += [
        "recurrence thresholds are half-integers on integer-valued data "
        "(fixed rows: no pair of states at distance == threshold, else the "
        "case is excluded), so the <=/< convention at the threshold is not "
        "exercised",
        "twins: |i-j| > min_dist (the reading the kernels implement; the "
        "docstring only says 'minimum temporal distance')",
        "numpy's own RandomState supplies the default answers; numpy, and "
        "the explicit DFT sum of the oracle, are trusted",
        "amplitude comparison: |a-b| <= 1e-6 * max amplitude of the row",
        "twin surrogates of Surrogates are scalar (first embedding "
        "component): a state is identified by its value, the walk test is "
        "existential over the original indices carrying that value"]
