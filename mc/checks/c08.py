"""C08  RQA line statistics are exact run-length counts of the matrix.

Bounded-exhaustive enumeration on the real RecurrencePlot kernels:
  crafted   every symmetric 0/1 matrix with unit diagonal up to NxN, realised
            by a crafted series (refmodel/craft.py), both storage modes, every
            l_min/v_min/w_min in 1..N, every missing-value mask
  assigned  every (also asymmetric) 0/1 matrix up to MxM assigned as R of a
            fresh object (matrix-mode kernels)
  f32       1-D series over a decimal alphabet whose pairwise distances and the
            threshold are distinct in float64 but collide in float32:
            sequential mode must equal matrix mode
"""
import itertools

import numpy as np

from ..core import V
from ..domains import adj, all_graphs
from ..refmodel import rqa, craft

LEVEL = "exploration"
TOL = dict(rtol=1e-9, atol=1e-12)


def _close(a, b):
    return bool(np.allclose(a, b, equal_nan=True, **TOL))


def _mk(series, **kw):
    from pyunicorn.timeseries import RecurrencePlot
    return RecurrencePlot(np.array(series, dtype=float), silence_level=3, **kw)


def _check_measures(rp, hd, hv, hw, n, tag, viol, white=True):
    """All derived measures for every minimal length 1..n."""
    ev = 0
    for m in range(1, n + 1):
        exp = {
            "determinism": rqa.ratio_measure(hd, m),
            "average_diaglength": rqa.mean_length(hd, m),
            "diag_entropy": rqa.entropy(hd, m),
            "laminarity": rqa.ratio_measure(hv, m),
            "average_vertlength": rqa.mean_length(hv, m),
            "trapping_time": rqa.mean_length(hv, m),
            "vert_entropy": rqa.entropy(hv, m),
        }
        if white:
            exp.update({
                "average_white_vertlength": rqa.mean_length(hw, m),
                "mean_recurrence_time": rqa.mean_length(hw, m),
                "white_vert_entropy": rqa.entropy(hw, m)})
        for name, e in exp.items():
            ev += 1
            try:
                got = getattr(rp, name)(m)
            except Exception as ex:   # noqa
                viol.append(V("RecurrencePlot.%s:raises:%s" % (name, tag),
                              "min length %d: %r" % (m, ex), repr(ex), e))
                continue
            if not _close(got, e):
                viol.append(V("RecurrencePlot.%s:value:%s" % (name, tag),
                              "min length %d" % m, got, e))
    # the summary is the stated selection of these measures, each with ITS
    # minimal length (every ordered pair l_min != v_min up to 4)
    for lm in range(1, min(n, 4) + 1):
        for vm in range(1, min(n, 4) + 1):
            if lm == vm and lm > 1:
                continue
            ev += 1
            try:
                got = rp.rqa_summary(l_min=lm, v_min=vm)
            except Exception as ex:   # noqa
                viol.append(V("RecurrencePlot.rqa_summary:raises:%s" % tag,
                              "l_min=%d v_min=%d: %r" % (lm, vm, ex),
                              repr(ex), "a dictionary"))
                break
            want = {"DET": rqa.ratio_measure(hd, lm),
                    "L": rqa.mean_length(hd, lm),
                    "LAM": rqa.ratio_measure(hv, vm)}
            for k_, e in want.items():
                if k_ not in got or not _close(got[k_], e):
                    viol.append(V("RecurrencePlot.rqa_summary:value:%s:%s" % (
                        k_, tag), "l_min=%d v_min=%d" % (lm, vm),
                        got.get(k_), e))
    exp = {"max_diaglength": rqa.max_length(hd),
           "max_vertlength": rqa.max_length(hv)}
    if white:
        exp["max_white_vertlength"] = rqa.max_length(hw)
    for name, e in exp.items():
        ev += 1
        got = getattr(rp, name)()
        if int(got) != e:
            viol.append(V("RecurrencePlot.%s:value:%s" % (name, tag), "",
                          got, e))
    return ev


def _hist_check(rp, R, mv, tag, viol, white=True):
    """Histograms against the direct run-length count.  Returns the
    *library's* histograms (the derived measures are then held to their
    formulas applied to these, so one defect gives one key)."""
    n = len(R)
    hd, hv = rqa.diag_hist(R, mv), rqa.vert_hist(R, mv)
    hw = rqa.white_hist(R, mv)
    out = []
    for name, e in (("diagline_dist", hd), ("vertline_dist", hv),
                    ("white_vertline_dist", hw)):
        if name.startswith("white") and not white:
            out.append(e)
            continue
        try:
            got = np.asarray(getattr(rp, name)())
        except Exception as ex:   # noqa
            viol.append(V("RecurrencePlot.%s:raises:%s" % (name, tag),
                          repr(ex), repr(ex), e))
            out.append(e)
            continue
        if got.shape != (n,) or not np.array_equal(got, np.array(e)):
            form = ""
            if name == "diagline_dist" and "asym" in tag:
                low = [[R[i][j] if i > j else 0 for j in range(n)]
                       for i in range(n)]
                if np.array_equal(got, 2 * np.array(rqa.diag_hist(low, mv))):
                    form = "=2xlower-triangle"
            if name == "white_vertline_dist" and "mv" in tag:
                if np.array_equal(got, np.array(rqa.white_hist(R, None))):
                    form = "=missing-ignored"
            if form:
                tag_ = "asym" if name == "diagline_dist" else "mv"
            else:
                tag_ = tag
            viol.append(V("RecurrencePlot.%s:value:%s%s" % (name, tag_, form),
                          "histogram differs from direct run-length count",
                          got, e))
        out.append([int(x) for x in got] if got.shape == (n,) else e)
    return out


def fam_crafted(case):
    n, mask, sparse, mvbits = case
    viol, excluded = [], {}
    A = adj(n, False, mask) + np.eye(n, dtype=np.int8)
    series = craft.realise(n, mask)
    mv = [bool(mvbits >> i & 1) for i in range(n)]
    kw = dict(metric="supremum", threshold=craft.THRESHOLD,
              sparse_rqa=bool(sparse))
    if any(mv):
        series = series.copy()
        series[np.array(mv)] = np.nan
        kw["missing_values"] = True
    rp = _mk(series, **kw)
    target = A.copy()
    if any(mv):
        target[np.array(mv), :] = 0
        target[:, np.array(mv)] = 0
    tag = "+".join((["seq"] if sparse else []) + (["mv"] if any(mv) else [])
                   ) or "plain"
    if not sparse:
        R = np.asarray(rp.recurrence_matrix())
        if not np.array_equal(R, target):
            viol.append(V("RecurrencePlot.recurrence_matrix:crafted:" + tag,
                          "R of the crafted series is not the target matrix",
                          R, target))
        Ruse = R.tolist()
    else:
        Ruse = target.tolist()
    # white lines: no sequential implementation, no missing-value handling
    white = (not sparse)
    if sparse:
        excluded["white lines not offered in sequential mode"] = 1
    hd, hv, hw = _hist_check(rp, Ruse, mv if any(mv) else None, tag, viol,
                             white=white)
    ev = 3
    if not any(mv):
        s = int(np.sum(Ruse))
        tr = int(np.trace(np.array(Ruse)))
        od, ov, ow = (rqa.diag_hist(Ruse), rqa.vert_hist(Ruse),
                      rqa.white_hist(Ruse))
        idn = (sum((l + 1) * h for l, h in enumerate(od)) == s - tr and
               sum((l + 1) * h for l, h in enumerate(ov)) == s and
               sum((l + 1) * h for l, h in enumerate(ow)) == n * n - s)
        assert idn, "oracle accounting identity broken"
        try:
            rr = rp.recurrence_rate()
            if not _close(rr, s / n ** 2):
                viol.append(V("RecurrencePlot.recurrence_rate:value:" + tag,
                              "", rr, s / n ** 2))
        except NotImplementedError:
            excluded["recurrence_rate NotImplemented"] = 1
        ev += 1
    ev += _check_measures(rp, hd, hv, hw, n, tag, viol, white=white)
    if not sparse and not any(mv):
        for lmin in range(1, n + 1):
            got = rp.rqa_summary(l_min=lmin, v_min=lmin)
            exp = {"RR": np.sum(Ruse) / n ** 2,
                   "DET": rqa.ratio_measure(hd, lmin),
                   "L": rqa.mean_length(hd, lmin),
                   "LAM": rqa.ratio_measure(hv, lmin)}
            ev += 1
            if set(got) != set(exp) or not all(
                    _close(got[k], exp[k]) for k in exp):
                viol.append(V("RecurrencePlot.rqa_summary:value:" + tag,
                              "l_min=v_min=%d" % lmin, got, exp))
    return {"viol": viol, "evals": ev, "excluded": excluded,
            "trivial": n == 1,
            "sig": (tuple(hd), tuple(hv), tuple(hw), tag)}


def fam_assigned(case):
    n, bits, mvbits = case
    viol = []
    R = np.array([[bits >> (i * n + j) & 1 for j in range(n)]
                  for i in range(n)], dtype=np.int8)
    mv = [bool(mvbits >> i & 1) for i in range(n)]
    series = np.arange(n, dtype=float)
    kw = dict(metric="supremum", threshold=0.5)
    if any(mv):
        series[np.array(mv)] = np.nan
        kw["missing_values"] = True
        R[np.array(mv), :] = 0
        R[:, np.array(mv)] = 0
    rp = _mk(series, **kw)
    rp.R = R.copy()
    tag = "+".join((["mv"] if any(mv) else []) + (
        [] if np.array_equal(R, R.T) else ["asym"])) or "plain"
    hd, hv, hw = _hist_check(rp, R.tolist(), mv if any(mv) else None, tag,
                             viol)
    ev = 3 + _check_measures(rp, hd, hv, hw, n, tag, viol)
    return {"viol": viol, "evals": ev, "trivial": n == 1,
            "sig": (tuple(hd), tuple(hv), tuple(hw), any(mv))}


F32_ALPHABET = [0.0, 0.1, 0.2, 0.7, 0.9]
F32_THRESHOLDS = [0.1, 0.2, 0.7, 0.9]


def fam_f32(case):
    series, thr = case
    viol = []
    n = len(series)
    a = _mk(series, metric="supremum", threshold=thr, sparse_rqa=False)
    b = _mk(series, metric="supremum", threshold=thr, sparse_rqa=True)
    # the library stores the series in single precision
    x = np.array(series, dtype=np.float32).astype(float)
    D = np.abs(x[:, None] - x[None, :])
    R = (D < thr).astype(int)
    boundary = bool(np.any((D.astype(np.float32) < np.float32(thr)) != (D < thr)))
    for name, orc in (("diagline_dist", rqa.diag_hist(R.tolist())),
                      ("vertline_dist", rqa.vert_hist(R.tolist()))):
        ha, hb = np.asarray(getattr(a, name)()), np.asarray(getattr(b, name)())
        if not np.array_equal(ha, np.array(orc)):
            viol.append(V("RecurrencePlot.%s:value:mat-f32family" % name,
                          "matrix mode differs from float64 run-length count",
                          ha, orc))
        if not np.array_equal(hb, ha):
            viol.append(V("RecurrencePlot.%s:seq!=mat:%s" % (
                name, "float32-boundary" if boundary else "generic"),
                          "sequential mode differs from matrix mode "
                          "(threshold/distance compared in single precision)",
                          hb, ha))
    return {"viol": viol, "evals": 2, "trivial": not boundary,
            "sig": (tuple(series), thr)}


def _long_series(n, pattern):
    t = np.arange(n)
    if pattern == "blocks":      # plateaus of 7: long lines and white gaps
        return ((t // 7) % 3) * 0.5
    if pattern == "sweep":       # slowly drifting: one very long diagonal band
        return (t // 3) * 0.25
    if pattern == "mix":
        return ((t * 37) % 11) * 0.25
    return np.zeros(n)           # "const": every line has maximal length


def fam_long(case):
    """Scale family: series far longer than the exhaustive matrices, so that
    runs cross any internal block / integer-width boundary (lengths 300-700;
    dyadic values, threshold between two realised distances)."""
    n, pattern, thr, sparse, nnan = case
    viol = []
    x = _long_series(n, pattern).astype(float)
    mv = [False] * n
    kw = dict(metric="supremum", threshold=thr, sparse_rqa=bool(sparse))
    if nnan:
        for k in range(nnan):
            mv[(k * 97 + 41) % n] = True
        x = x.copy()
        x[np.array(mv)] = np.nan
        kw["missing_values"] = True
    rp = _mk(x, **kw)
    xs = np.array(x, dtype=np.float32).astype(float)
    with np.errstate(invalid="ignore"):
        R = (np.abs(xs[:, None] - xs[None, :]) < thr).astype(int)
    if nnan:
        R[np.array(mv), :] = 0
        R[:, np.array(mv)] = 0
    tag = "+".join((["seq"] if sparse else []) + (["mv"] if nnan else [])
                   + ["long"])
    if not sparse:
        Rl = np.asarray(rp.recurrence_matrix())
        if not np.array_equal(Rl, R):
            viol.append(V("RecurrencePlot.recurrence_matrix:long:" + tag,
                          "R differs from the thresholded distance matrix",
                          int(np.sum(Rl != R)), 0))
    hd, hv, hw = _hist_check(rp, R.tolist(), mv if nnan else None, tag, viol,
                             white=(not sparse))
    ev = 3
    # derived measures for a few minimal lengths (from the library's own
    # histograms)
    for m in (1, 2, 5, n // 2):
        for name, e in (("determinism", rqa.ratio_measure(hd, m)),
                        ("average_diaglength", rqa.mean_length(hd, m)),
                        ("laminarity", rqa.ratio_measure(hv, m)),
                        ("trapping_time", rqa.mean_length(hv, m))):
            ev += 1
            got = getattr(rp, name)(m)
            if not _close(got, e):
                viol.append(V("RecurrencePlot.%s:value:%s" % (name, tag),
                              "min length %d" % m, got, e))
    return {"viol": viol, "evals": ev, "trivial": False,
            "sig": (n, pattern, thr, sparse, nnan, rqa.max_length(hd),
                    rqa.max_length(hv))}


EMB_SERIES = [0.0, 1.0, 3.0, 1.0, 0.0, 2.0, 3.0, 1.0, 0.5]


def fam_embedded_mv(case):
    """Missing values under delay embedding: a state vector is missing when
    ANY of its components is (not only its first sample); lines through or
    next to such states are excluded, in both storage modes."""
    nanpos, dim, tau, sparse = case
    x = np.array(EMB_SERIES, dtype=float)
    x[list(nanpos)] = np.nan
    n = len(x) - (dim - 1) * tau
    states = np.stack([x[k * tau:k * tau + n] for k in range(dim)], axis=1)
    mv = np.isnan(states).any(axis=1).tolist()
    thr = 1.25
    D = np.abs(states[:, None, :] - states[None, :, :]).max(axis=2)
    R = (D < thr).astype(int)
    R[np.array(mv), :] = 0
    R[:, np.array(mv)] = 0
    kw = dict(metric="supremum", threshold=thr, dim=dim, tau=tau,
              missing_values=True)
    if sparse:
        kw["sparse_rqa"] = True
    viol = []
    try:
        rp = _mk(x, **kw)
    except Exception as ex:   # noqa
        return {"viol": [V("RecurrencePlot.__init__:raises:mv+embedding",
                           repr(ex), repr(ex), "a plot")], "evals": 1}
    tag = ("seq+" if sparse else "") + "mv+embedding"
    if not sparse:
        Rl = np.asarray(rp.recurrence_matrix())
        if Rl.shape != R.shape or not np.array_equal(Rl, R):
            viol.append(V("RecurrencePlot.recurrence_matrix:value:" + tag,
                          "NaN at %s, dim %d tau %d" % (list(nanpos), dim,
                                                        tau), Rl, R))
    hd, hv, hw = _hist_check(rp, R.tolist(), mv, tag, viol, white=False)
    ev = 3 + _check_measures(rp, hd, hv, hw, n, tag, viol, white=False)
    return {"viol": viol, "evals": ev, "trivial": not any(mv),
            "sig": (tuple(nanpos), dim, tau, sparse, tuple(hd), tuple(hv))}


OBJECT_DRIVERS = ("RecurrencePlot", "RecurrenceNetwork",
                  "JointRecurrencePlot", "JointRecurrenceNetwork")


def fam_objects(case):
    """The line statistics are inherited by the network and joint classes
    (which keep their matrix in another attribute): on every such object -
    fresh and after each public mutator of its class driver - the histograms
    must be the run-length counts of the object's OWN recurrence_matrix()."""
    from .. import drivers as D
    dname, mi, k = case
    drv = D.DRIVERS[dname]
    model = drv.models("thorough")[mi]
    if model.get("sparse_rqa"):
        return {"viol": [], "evals": 0, "trivial": True,
                "excluded": {"sequential mode keeps no matrix": 1}}
    obj = drv.construct(model)
    tag = dname
    if k >= 0:
        muts = drv.mutators(model)
        if k >= len(muts):
            return {"viol": [], "evals": 0, "trivial": True}
        try:
            if drv.apply(obj, model, muts[k][1]) is None:
                return {"viol": [], "evals": 0, "trivial": True}
        except Exception:   # noqa  (C01 / C07 judge mutators that raise)
            return {"viol": [], "evals": 0, "trivial": True}
    try:
        R = np.asarray(obj.recurrence_matrix()).astype(int)
    except Exception:   # noqa
        return {"viol": [], "evals": 0, "trivial": True,
                "excluded": {"no recurrence matrix": 1}}
    n = len(R)
    viol = []
    t = "plain" if np.array_equal(R, R.T) else "asym"
    hd, hv, hw = _hist_check(obj, R.tolist(), None, t, viol)
    ev = 3 + _check_measures(obj, hd, hv, hw, n, t, viol)
    for v in viol:
        if ":asym" not in v["key"]:
            v["key"] += ":object=" + tag
    return {"viol": viol, "evals": ev, "trivial": n <= 1,
            "sig": (dname, mi, k, tuple(hd), tuple(hv))}


FAMILIES = {"crafted": fam_crafted, "assigned": fam_assigned, "f32": fam_f32,
            "long": fam_long, "objects": fam_objects,
            "embedded_mv": fam_embedded_mv}


def run(ctx):
    thorough = ctx.tier == "thorough"
    nmax = 5
    ctx.rule = (
        "crafted: every symmetric 0/1 matrix with unit diagonal up to %dx%d x "
        "{matrix, sequential} x every missing-value mask (n<=4; n=5 masks of "
        "<=1 sample in quick) x every minimal line length 1..n; assigned: "
        "every 0/1 matrix up to MxM x every missing mask; f32: every series "
        "of length 3..4 over %s x thresholds %s.  A case is non-trivial when "
        "n>=2 (f32: when a float32/float64 comparison differs); distinct = "
        "distinct (diag,vert,white) histogram triples." % (
            nmax, nmax, F32_ALPHABET, F32_THRESHOLDS))
    cases = []
    for n in range(1, nmax + 1):
        for (_, _, m) in all_graphs(n):
            for sparse in (0, 1):
                if n <= 4 or thorough:
                    masks = range(1 << n)
                else:
                    masks = [0] + [1 << i for i in range(n)]
                for mvb in masks:
                    if mvb == (1 << n) - 1 and n > 1:
                        continue
                    cases.append((n, m, sparse, mvb))
    from .. import drivers as D
    oc = []
    for dname in OBJECT_DRIVERS:
        drv = D.DRIVERS[dname]
        for mi, model in enumerate(drv.models("thorough")):
            oc.append([dname, mi, -1])
            try:
                oc += [[dname, mi, k]
                       for k in range(len(drv.mutators(model)))]
            except Exception:   # noqa
                pass
    L_ = len(EMB_SERIES)
    ec = [[list(pos), dim, tau, sp_]
          for pos in [(i,) for i in range(L_)] + [(1, 5), (0, L_ - 1),
                                                  (3, 4)]
          for (dim, tau) in ((2, 1), (2, 2), (3, 1))
          for sp_ in (0, 1)]
    ctx.explore("embedded_mv", ec, desc="NaN samples under delay embedding, "
                "both storage modes")
    ctx.explore("objects", oc, chunk=1, desc="plots, recurrence networks, "
                "joint plots and joint networks (fresh and after each "
                "mutator): histograms vs run-length count of their own matrix")
    ctx.explore("crafted", cases, desc="crafted series realising every "
                "symmetric matrix")
    M = 4 if thorough else 3
    cases = []
    for n in range(1, M + 1):
        for bits in range(1 << (n * n)):
            masks = range(1 << n) if n <= 3 else [0, 1, 2, 5, 8]
            for mvb in masks:
                cases.append((n, bits, mvb))
    ctx.explore("assigned", cases, desc="all 0/1 matrices assigned as R")
    cases = [(list(s), t)
             for L in ((3, 4, 5) if thorough else (3, 4))
             for s in itertools.product(F32_ALPHABET, repeat=L)
             for t in F32_THRESHOLDS]
    ctx.explore("f32", cases, desc="float32 boundary family")
    cases = [[n, pat, thr, sp, nn]
             for n in ((300, 520) if not thorough else (300, 520, 700))
             for pat, thr in (("blocks", 0.25), ("sweep", 0.375),
                              ("mix", 0.375), ("const", 0.5))
             for sp in (0, 1) for nn in (0, 3)]
    ctx.explore("long", cases, chunk=1, desc="series of 300-700 samples "
                "(runs longer than any internal block or narrow integer)")
    ctx.notes.update({"crafted_nmax": nmax, "assigned_nmax": M})
    ctx.assumptions += [
        "numpy float64 arithmetic for the oracle formulas",
        "vertical lines run along the second index (library convention); on "
        "symmetric matrices this is immaterial"]
