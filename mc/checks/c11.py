"""C11  Cross/internal measures of interacting networks match sub-blocks.

Bounded-exhaustive enumeration on the real InteractingNetworks code:
  cross     every graph x node weights x every ordered pair of disjoint
            non-empty node lists (each list also reversed / rotated): every
            pair method found by introspection against the by-definition
            sub-block evaluation (refmodel/interacting.py), `_sparse` twins
            against the compiled ones, argument-swap symmetry
  internal  every graph x weights x every non-empty node list (also reversed /
            rotated, including the whole node set): every single-list method
  whole     both groups = whole node set reproduces the Network measure
  coupled   CoupledClimateNetwork wrappers equal the underlying call with
            nodes_1 / nodes_2; inherited pair methods stay callable
"""
import inspect
import itertools

import numpy as np

from ..core import V
from ..compare import equal, outcome, brief
from ..domains import (adj, all_graphs, iso, weights, link_attr,
                       ordered_group_pairs, is_connected)
from ..refmodel import interacting as R
from ..refmodel import netrepr as NR

LEVEL = "exploration"
ATTR = "w"
CLS = "InteractingNetworks"


class Undefined(Exception):
    """The measure has no defined value on this input (excluded, counted)."""


# ---------------------------------------------------------------------------
# environment of one case


class Env:
    def __init__(self, n, directed, mask, wk):
        from pyunicorn.core import InteractingNetworks
        self.n, self.directed = n, bool(directed)
        An = NR.adjacency_of(n, directed, mask)
        self.A = An.tolist()
        # wk >= 3: node weights of variant wk-3 and some links of length
        # exactly 0 (coincident nodes, zero lags)
        zero = wk >= 3
        if zero:
            wk -= 3
        w = NR.node_weights_of(n, wk)
        self.w = [1.0] * n if w is None else [float(x) for x in w]
        Wn = link_attr(An)
        if zero:
            for i in range(n):
                for j in range(n):
                    if An[i, j] and (min(i, j) * 2 + max(i, j)) % 3 == 1:
                        Wn[i, j] = 0.0
        if directed:
            for i in range(n):
                for j in range(i):
                    if An[i, j]:
                        Wn[i, j] += 4.0
        self.Wn = Wn
        self.W = Wn.tolist()
        self.net = InteractingNetworks(adjacency=An, directed=self.directed,
                                       node_weights=w, silence_level=3)
        self.net.set_link_attribute(ATTR, Wn)
        self._D = {}
        self.stats = {}
        self.has_links = bool(An.any())

    def attrs(self, has_la, excluded):
        """link_attribute variants to call a method with."""
        if not has_la:
            return (None,)
        if not self.has_links:
            k = "link attribute as path length on a network without links " \
                "(igraph holds no such attribute)"
            excluded[k] = excluded.get(k, 0) + 1
            return (None,)
        return (None, ATTR)

    def dist(self, attr=None):
        if attr not in self._D:
            f = R.distances if self.n <= 24 else R.distances_np
            self._D[attr] = f(self.A, None if attr is None else self.W)
        return self._D[attr]

    def betw(self, L1, L2, w=None):
        """Path enumeration on small networks; the path-count evaluator on
        large ones, cross-checked against the enumeration where that is
        still affordable (a disagreement is a harness error)."""
        if self.n <= 8:
            return R.betweenness(self.A, self.dist(), L1, L2, w)
        fast = R.betweenness_counts(self.A, self.dist(), L1, L2, w)
        if self.n <= 30:
            slow = R.betweenness(self.A, self.dist(), L1, L2, w)
            assert equal(fast, slow), "oracle evaluators disagree"
        return fast

    def mat(self, attr):
        return self.A if attr is None else self.W

    def count(self, k, v=1):
        if v:
            self.stats[k] = self.stats.get(k, 0) + v


# ---------------------------------------------------------------------------
# oracles: name -> f(E, L1, L2, attr)   (pair methods)
#          name -> f(E, L, attr)        (single-list methods)
# UNDIRECTED_ONLY: the class documents "most methods only give meaningful
# results for undirected networks"; on directed graphs only the measures
# whose docstring definition carries over literally are judged.


def _undirected(E):
    if E.directed:
        raise Undefined("undirected-only measure on a directed network")


def _mean(xs):
    return sum(xs) / len(xs)


def p_cross_adjacency(E, L1, L2, a):
    return R.block(E.A, L1, L2)


def p_cross_link_attribute(E, L1, L2, a):
    return R.block(E.W, L1, L2)


def p_cross_path_lengths(E, L1, L2, a):
    return R.block(E.dist(a), L1, L2)


def p_number_cross_links(E, L1, L2, a):
    _undirected(E)
    return R.number_cross_links(E.A, L1, L2)


def p_cross_degree(E, L1, L2, a):
    return R.cross_degree(E.mat(a), L1, L2, E.directed)


def p_cross_indegree(E, L1, L2, a):
    return R.cross_indegree(E.mat(a), L1, L2)


def p_cross_outdegree(E, L1, L2, a):
    return R.cross_outdegree(E.mat(a), L1, L2)


def p_total_cross_degree(E, L1, L2, a):
    return _mean(R.cross_degree(E.A, L1, L2, E.directed))


def p_cross_degree_density(E, L1, L2, a):
    return [k / len(L2) for k in R.cross_degree(E.A, L1, L2, E.directed)]


def p_cross_link_density(E, L1, L2, a):
    _undirected(E)
    return R.cross_link_density(E.A, L1, L2)


def p_cross_local_clustering(E, L1, L2, a):
    _undirected(E)
    return R.cross_local_clustering(E.A, L1, L2)


def p_cross_global_clustering(E, L1, L2, a):
    _undirected(E)
    return _mean(R.cross_local_clustering(E.A, L1, L2))


def p_cross_transitivity(E, L1, L2, a):
    _undirected(E)
    return R.cross_transitivity(E.A, L1, L2)


def p_cross_average_path_length(E, L1, L2, a):
    v = R.average_path_length(E.dist(a), L1, L2, False)
    if v is None:
        raise Undefined("average path length without any connected pair")
    return v


def p_cross_closeness(E, L1, L2, a):
    v, nrep = R.closeness(E.dist(a), L1, L2, False, E.n)
    E.count("closeness values using the no-path convention (n-1)", nrep)
    return v


def p_average_cross_closeness(E, L1, L2, a):
    return _mean(R.closeness(E.dist(a), L1, L2, False, E.n)[0])


def p_local_efficiency(E, L1, L2, a):
    v = R.local_efficiency(E.dist(a), L1, L2)
    if any(x is None for x in v):
        raise Undefined("efficiency with a zero distance")
    return v


def p_global_efficiency(E, L1, L2, a):
    m = _mean(p_local_efficiency(E, L1, L2, a))
    if m == 0:
        raise Undefined("global efficiency of a pair without any path")
    return 1.0 / m


def p_cross_betweenness(E, L1, L2, a):
    _undirected(E)
    return E.betw(L1, L2)


def p_nsi_cross_degree(E, L1, L2, a):
    _undirected(E)
    return R.nsi_cross_degree(E.A, E.w, L1, L2)


def p_nsi_cross_mean_degree(E, L1, L2, a):
    _undirected(E)
    return R.wmean(R.nsi_cross_degree(E.A, E.w, L1, L2), L1, E.w)


def p_nsi_cross_local_clustering(E, L1, L2, a):
    _undirected(E)
    return R.nsi_cross_local_clustering(E.A, E.w, L1, L2)


def p_nsi_cross_global_clustering(E, L1, L2, a):
    _undirected(E)
    return R.wmean(R.nsi_cross_local_clustering(E.A, E.w, L1, L2), L1, E.w)


def p_nsi_cross_transitivity(E, L1, L2, a):
    _undirected(E)
    v = R.nsi_cross_transitivity(E.A, E.w, L1, L2)
    if v is None:
        raise Undefined("n.s.i. transitivity without any weighted triple")
    return v


def p_nsi_cross_closeness_centrality(E, L1, L2, a):
    _undirected(E)
    v, nrep = R.nsi_cross_closeness(E.dist(), E.w, L1, L2, E.n)
    E.count("closeness values using the no-path convention (n-1)", nrep)
    return v


def p_nsi_cross_betweenness(E, L1, L2, a):
    _undirected(E)
    return E.betw(L1, L2, E.w)


def p_nsi_cross_edge_density(E, L1, L2, a):
    _undirected(E)
    return R.nsi_cross_edge_density(E.A, E.w, L1, L2)


def p_nsi_cross_average_path_length(E, L1, L2, a):
    _undirected(E)
    v = R.nsi_cross_average_path_length(E.dist(), E.w, L1, L2)
    if v is None:
        raise Undefined("n.s.i. average path length over a pair without "
                        "path (no documented convention)")
    return v


PAIR = {
    "cross_adjacency": p_cross_adjacency,
    "cross_adjacency_sparse": p_cross_adjacency,
    "cross_link_attribute": p_cross_link_attribute,
    "cross_path_lengths": p_cross_path_lengths,
    "number_cross_links": p_number_cross_links,
    "total_cross_degree": p_total_cross_degree,
    "cross_degree_density": p_cross_degree_density,
    "cross_link_density": p_cross_link_density,
    "cross_global_clustering": p_cross_global_clustering,
    "cross_global_clustering_sparse": p_cross_global_clustering,
    "cross_transitivity": p_cross_transitivity,
    "cross_transitivity_sparse": p_cross_transitivity,
    "cross_average_path_length": p_cross_average_path_length,
    "average_cross_closeness": p_average_cross_closeness,
    "global_efficiency": p_global_efficiency,
    "cross_degree": p_cross_degree,
    "cross_indegree": p_cross_indegree,
    "cross_outdegree": p_cross_outdegree,
    "cross_local_clustering": p_cross_local_clustering,
    "cross_local_clustering_sparse": p_cross_local_clustering,
    "cross_closeness": p_cross_closeness,
    "cross_betweenness": p_cross_betweenness,
    "local_efficiency": p_local_efficiency,
    "nsi_cross_degree": p_nsi_cross_degree,
    "nsi_cross_mean_degree": p_nsi_cross_mean_degree,
    "nsi_cross_local_clustering": p_nsi_cross_local_clustering,
    "nsi_cross_closeness_centrality": p_nsi_cross_closeness_centrality,
    "nsi_cross_global_clustering": p_nsi_cross_global_clustering,
    "nsi_cross_betweenness": p_nsi_cross_betweenness,
    "nsi_cross_edge_density": p_nsi_cross_edge_density,
    "nsi_cross_transitivity": p_nsi_cross_transitivity,
    "nsi_cross_average_path_length": p_nsi_cross_average_path_length,
}

# measures whose definition is symmetric in the two groups (undirected);
# True = the result is a matrix and the swapped call returns its transpose
SYMMETRIC = {
    "cross_adjacency": True, "cross_adjacency_sparse": True,
    "cross_link_attribute": True, "cross_path_lengths": True,
    "number_cross_links": False, "cross_link_density": False,
    "cross_average_path_length": False, "cross_betweenness": False,
    "nsi_cross_betweenness": False, "nsi_cross_edge_density": False,
    "nsi_cross_average_path_length": False,
}


def s_internal_adjacency(E, L, a):
    return R.block(E.A, L, L)


def s_internal_link_attribute(E, L, a):
    return R.block(E.W, L, L)


def s_internal_path_lengths(E, L, a):
    return R.block(E.dist(a), L, L)


def s_number_internal_links(E, L, a):
    return R.number_internal_links(E.A, L, E.directed)


def s_internal_link_density(E, L, a):
    if len(L) < 2:
        raise Undefined("link density of a single node")
    return R.internal_link_density(E.A, L, E.directed)


def s_internal_global_clustering(E, L, a):
    _undirected(E)
    lc = R.local_clustering_full(E.A)
    return _mean([lc[v] for v in L])


def s_internal_average_path_length(E, L, a):
    v = R.average_path_length(E.dist(a), L, L, True)
    if v is None:
        raise Undefined("average path length without any connected pair")
    return v


def s_internal_closeness(E, L, a):
    v, nrep = R.closeness(E.dist(a), L, L, True, E.n)
    E.count("closeness values using the no-path convention (n-1)", nrep)
    return v


def s_internal_betweenness(E, L, a):
    _undirected(E)
    return E.betw(L, L)


def s_nsi_internal_degree(E, L, a):
    _undirected(E)
    return R.nsi_cross_degree(E.A, E.w, L, L)


def s_nsi_internal_closeness_centrality(E, L, a):
    _undirected(E)
    v, nrep = R.nsi_cross_closeness(E.dist(), E.w, L, L, E.n)
    E.count("closeness values using the no-path convention (n-1)", nrep)
    return v


def s_nsi_internal_local_clustering(E, L, a):
    _undirected(E)
    return R.nsi_cross_local_clustering(E.A, E.w, L, L)


SINGLE = {
    "internal_adjacency": s_internal_adjacency,
    "internal_link_attribute": s_internal_link_attribute,
    "internal_path_lengths": s_internal_path_lengths,
    "number_internal_links": s_number_internal_links,
    "internal_link_density": s_internal_link_density,
    "internal_global_clustering": s_internal_global_clustering,
    "internal_average_path_length": s_internal_average_path_length,
    "internal_closeness": s_internal_closeness,
    "internal_betweenness": s_internal_betweenness,
    "nsi_internal_degree": s_nsi_internal_degree,
    "nsi_internal_closeness_centrality": s_nsi_internal_closeness_centrality,
    "nsi_internal_local_clustering": s_nsi_internal_local_clustering,
    # derived from the library's own block matrices (one root cause, one key):
    "internal_degree": "derived", "internal_indegree": "derived",
    "internal_outdegree": "derived", "subnetwork": "derived",
}


# ---------------------------------------------------------------------------
# introspection of the class under test

_SPECS = None


def specs():
    """[(name, kind, leading_attr, has_link_attribute)] for every public
    instance method of InteractingNetworks (defined in that class)."""
    global _SPECS
    if _SPECS is None:
        from pyunicorn.core import InteractingNetworks
        out = []
        for name, f in InteractingNetworks.__dict__.items():
            if name.startswith("_") or not inspect.isfunction(f):
                continue
            ps = list(inspect.signature(f).parameters)[1:]
            core = [p for p in ps
                    if p not in ("link_attribute", "attribute_name")]
            if core == ["node_list1", "node_list2"]:
                kind = "pair"
            elif core == ["node_list"]:
                kind = "single"
            else:
                kind = "other"
            out.append((name, kind, bool(ps) and ps[0] == "attribute_name",
                        "link_attribute" in ps))
        _SPECS = out
    return _SPECS


def _call(E, name, lists, lead, attr, has_la):
    args = ([ATTR] if lead else []) + [list(x) for x in lists]
    if has_la:
        args.append(attr)
    return outcome(getattr(E.net, name), *args)


def _not_implemented(o):
    return o[0] == "exc" and ("Not implemented" in o[1] or
                              o[1].startswith("NotImplementedError"))


def _tag(E):
    return "directed" if E.directed else "undirected"


def _sv(o):
    """Cheap hashable-ish digest of an outcome for the behaviour signature."""
    if o[0] == "exc":
        return o[1][:40]
    v = o[1]
    try:
        return np.round(np.asarray(v, dtype=float), 9).tolist()
    except (TypeError, ValueError):
        return str(_plain(v))[:60]


def _plain(x):
    from pyunicorn.core import Network
    if isinstance(x, Network):
        return "<Network N=%d>" % x.N
    return x


def _judge(E, name, lists, lead, attr, has_la, oracle, viol, excluded, sig):
    """Value check of one call pattern.  Returns 'ok' | 'viol' | 'excl'."""
    pat = name + ("[%s]" % attr if has_la and attr else "")
    try:
        exp = oracle(E, *lists, attr)
    except Undefined as u:
        excluded[str(u)] = excluded.get(str(u), 0) + 1
        return "excl", None
    got = _call(E, name, lists, lead, attr, has_la)
    sig.append((pat, _sv(got)))
    if _not_implemented(got):
        excluded["library: not implemented"] = \
            excluded.get("library: not implemented", 0) + 1
        return "excl", got
    if got[0] == "ok" and equal(got[1], exp):
        return "ok", got
    # --- a violation: find the input class that matters and a closed form
    unsorted = any(list(L) != sorted(L) for L in lists)
    disc = _tag(E)
    if unsorted:
        slists = [sorted(L) for L in lists]
        sexp = oracle(E, *slists, attr)
        sgot = _call(E, name, slists, lead, attr, has_la)
        if sgot[0] == "ok" and equal(sgot[1], sexp):
            disc = "unsorted-list"
            if got[0] == "ok" and equal(got[1], sexp):
                disc += "=sorted-order"
    if name == "nsi_cross_average_path_length" and got[0] == "ok":
        W1 = sum(E.w[v] for v in lists[0])
        W2 = sum(E.w[v] for v in lists[1])
        if equal(got[1], exp * W2 / W1):
            disc = "W1!=W2=normalised-by-W1*W1"
    kind = "raises" if got[0] == "exc" else "value"
    viol.append(V("%s.%s:%s:%s" % (CLS, pat, kind, disc),
                  "lists %s: %s" % (list(map(list, lists)), brief(got, 200)),
                  got[1] if got[0] == "ok" else got[1], exp))
    return "viol", got


def _orders(L):
    """sorted, reversed and rotated-by-one orders of a node list."""
    L = sorted(L)
    out = [L]
    for v in (L[::-1], L[1:] + L[:1]):
        if v not in out:
            out.append(v)
    return out


# ---------------------------------------------------------------------------
# one root cause, one key: a measure that is a documented function of another
# measure of the class is not reported a second time when that other measure
# already fails in the same case and the two library results are consistent
# with each other; the link-attribute variant of a call is not reported when
# the plain variant fails as well.


def _rows_closeness(B, n_total, internal):
    rows = np.asarray(B, dtype=float)
    M = rows.shape[1]
    repl = (rows.shape[0] - 1) if internal else (n_total - 1)
    norm = (M - 1) if internal else M
    out = []
    for r in rows:
        tot = sum(repl if x == R.INF else x for x in r)
        out.append(norm / tot if tot != 0 else 0.0)
    return out


def _rows_apl(B, internal):
    rows = np.asarray(B, dtype=float)
    vals = [x for i, r in enumerate(rows) for j, x in enumerate(r)
            if x != R.INF and not (internal and i == j)]
    return sum(vals) / len(vals)


def _only_attr(a, E):
    if a is None or E.directed:
        raise KeyError("rule applies to undirected strengths only")
    return True


DERIVED = {
    "average_cross_closeness": (
        ["cross_closeness"],
        lambda E, lib, a, L: np.mean(lib("cross_closeness", a))),
    "total_cross_degree": (
        ["cross_degree"], lambda E, lib, a, L: np.mean(lib("cross_degree"))),
    "cross_degree_density": (
        ["cross_degree"],
        lambda E, lib, a, L: np.asarray(lib("cross_degree")) / len(L[1])),
    "cross_degree": (
        ["cross_outdegree", "cross_indegree"],
        lambda E, lib, a, L: np.asarray(lib("cross_outdegree", a)) + (
            np.asarray(lib("cross_indegree", a)) if E.directed else 0)),
    # strengths are sums over the link-attribute block (undirected: W = W^T)
    "cross_outdegree": (
        ["cross_link_attribute"],
        lambda E, lib, a, L: _only_attr(a, E) and np.sum(
            lib("cross_link_attribute"), axis=1)),
    "cross_indegree": (
        ["cross_link_attribute"],
        lambda E, lib, a, L: _only_attr(a, E) and np.sum(
            lib("cross_link_attribute"), axis=1)),
    "cross_global_clustering": (
        ["cross_local_clustering"],
        lambda E, lib, a, L: np.mean(lib("cross_local_clustering"))),
    "cross_global_clustering_sparse": (
        ["cross_local_clustering_sparse"],
        lambda E, lib, a, L: np.mean(lib("cross_local_clustering_sparse"))),
    "global_efficiency": (
        ["local_efficiency"],
        lambda E, lib, a, L: 1 / np.mean(lib("local_efficiency", a))),
    "number_cross_links": (
        ["cross_adjacency"],
        lambda E, lib, a, L: np.sum(lib("cross_adjacency"))),
    "cross_link_density": (
        ["number_cross_links"],
        lambda E, lib, a, L: lib("number_cross_links") / (
            len(L[0]) * len(L[1]))),
    "nsi_cross_mean_degree": (
        ["nsi_cross_degree"],
        lambda E, lib, a, L: R.wmean(lib("nsi_cross_degree"), L[0], E.w)),
    "nsi_cross_edge_density": (
        ["nsi_cross_mean_degree"],
        lambda E, lib, a, L: lib("nsi_cross_mean_degree") / sum(
            E.w[q] for q in L[1])),
    "nsi_cross_global_clustering": (
        ["nsi_cross_local_clustering"],
        lambda E, lib, a, L: R.wmean(lib("nsi_cross_local_clustering"),
                                     L[0], E.w)),
    "cross_closeness": (
        ["cross_path_lengths"],
        lambda E, lib, a, L: _rows_closeness(lib("cross_path_lengths", a),
                                             E.n, False)),
    "local_efficiency": (
        ["cross_path_lengths"],
        lambda E, lib, a, L: np.mean(
            1 / np.asarray(lib("cross_path_lengths", a), dtype=float),
            axis=1)),
    "cross_average_path_length": (
        ["cross_path_lengths"],
        lambda E, lib, a, L: _rows_apl(lib("cross_path_lengths", a), False)),
    "internal_link_density": (
        ["number_internal_links"],
        lambda E, lib, a, L: lib("number_internal_links") / (
            len(L[0]) * (len(L[0]) - 1) / (1 if E.directed else 2))),
    "internal_closeness": (
        ["internal_path_lengths"],
        lambda E, lib, a, L: _rows_closeness(lib("internal_path_lengths", a),
                                             E.n, True)),
    "internal_average_path_length": (
        ["internal_path_lengths"],
        lambda E, lib, a, L: _rows_apl(lib("internal_path_lengths", a),
                                       True)),
}


def _fold(E, res, vidx, viol, lists, stats):
    """Remove the violations of `viol` that repeat another one of the same
    case (see above).  res: (name, attr) -> (status, outcome); vidx: (name,
    attr) -> index into viol."""
    def lib(name, attr=None):
        st, got = res.get((name, attr), (None, None))
        if got is None or got[0] != "ok":
            raise KeyError(name)
        return got[1]

    def failed(name, attr):
        key = (name, attr) if (name, attr) in res else (name, None)
        return res.get(key, ("",))[0] == "viol"
    drop = set()
    for (name, attr), (st, got) in res.items():
        if st != "viol" or (name, attr) not in vidx:
            continue
        if attr and failed(name, None) and (name, None) in res:
            drop.add(vidx[(name, attr)])
            continue
        d = DERIVED.get(name)
        if d and got[0] == "ok" and any(failed(x, attr) for x in d[0]):
            try:
                val = d[1](E, lib, attr, lists)
            except Exception:   # noqa - inputs unusable: keep the report
                continue
            if equal(got[1], val):
                drop.add(vidx[(name, attr)])
    if drop:
        stats["violations folded into the violation of the measure they "
              "are derived from"] = len(drop)
    return [v for i, v in enumerate(viol) if i not in drop]


# ---------------------------------------------------------------------------
# families


#  compiled and `_sparse` twins that agree on directed networks too on the
#  unchanged library (the other twins differ there in how they read one-way
#  links; the class documents its measures for undirected networks)
SPARSE_AGREE_DIRECTED = ("cross_local_clustering_sparse",
                         "cross_global_clustering_sparse",
                         "cross_adjacency_sparse")


def fam_cross(case):
    n, directed, mask, wk, L1, L2 = case
    E = Env(n, directed, mask, wk)
    viol, excluded, sig = [], {}, []
    ev = 0
    res, vidx = {}, {}
    for name, kind, lead, has_la in specs():
        if kind != "pair":
            continue
        oracle = PAIR.get(name)
        if oracle is None:
            excluded["no oracle for " + name] = 1
            continue
        for attr in E.attrs(has_la, excluded):
            st, got = _judge(E, name, (L1, L2), lead, attr, has_la, oracle,
                             viol, excluded, sig)
            res[(name, attr)] = (st, got)
            if st == "viol":
                vidx[(name, attr)] = len(viol) - 1
            ev += st != "excl"
    viol = _fold(E, res, vidx, viol, (L1, L2), E.stats)
    # compiled == _sparse (reported only when not explained by a value
    # violation of one of the two)
    for name in [k for k, _ in res if k.endswith("_sparse")]:
        a, b = res.get((name[:-7], None)), res[(name, None)]
        if a is None:
            continue
        go = [x[1] if x[1] is not None else
              _call(E, nm, (L1, L2), False, None, False)
              for x, nm in ((a, name[:-7]), (b, name))]
        ev += 1
        same = go[0][0] == go[1][0] and (go[0][0] == "exc" or
                                         equal(go[0][1], go[1][1]))
        if not same and "viol" not in (a[0], b[0]) and (
                not E.directed or name in SPARSE_AGREE_DIRECTED):
            viol.append(V("%s.%s:!=compiled:%s" % (CLS, name, _tag(E)),
                          "lists %s" % [L1, L2], brief(go[1]), brief(go[0])))
    # argument swap on undirected networks, each unordered pair once
    if not E.directed and sorted(L1) < sorted(L2):
        for name, kind, lead, has_la in specs():
            if name not in SYMMETRIC or kind != "pair":
                continue
            for attr in E.attrs(has_la, {}):
                st, got = res.get((name, attr), ("excl", None))
                if st == "excl" and got is None and \
                        name == "nsi_cross_average_path_length":
                    excluded["swap symmetry of the n.s.i. average path "
                             "length over a pair without path"] = 1
                    continue
                if got is None:
                    got = _call(E, name, (L1, L2), lead, attr, has_la)
                back = _call(E, name, (L2, L1), lead, attr, has_la)
                if _not_implemented(got):
                    continue
                ev += 1
                if got[0] == "ok" and back[0] == "ok":
                    b = back[1]
                    if SYMMETRIC[name]:
                        b = np.asarray(b).T
                    same = equal(got[1], b)
                else:
                    same = got[0] == back[0]
                if same or st == "viol":
                    continue
                # is the swapped call itself off its definition?
                try:
                    bexp = PAIR[name](E, L2, L1, attr)
                    explained = not (back[0] == "ok" and equal(back[1], bexp))
                except Undefined:
                    explained = False
                if explained:
                    continue
                pat = name + ("[%s]" % attr if attr else "")
                viol.append(V("%s.%s:swap-asymmetric:undirected" % (CLS, pat),
                              "lists %s" % [L1, L2], brief(got), brief(back)))
    excl = dict(excluded)
    return {"viol": viol, "evals": ev, "excluded": excl, "stats": E.stats,
            "trivial": False, "sig": str(sig)}


def _derived_internal(E, name, L, attr, has_la, viol, sig):
    """internal_(in/out)degree and subnetwork against the block matrices the
    library itself reports for the same list."""
    net = E.net
    pat = name + ("[%s]" % attr if has_la and attr else "")
    if attr is None:
        blk = outcome(net.internal_adjacency, list(L))
    else:
        blk = outcome(net.internal_link_attribute, ATTR, list(L))
    if blk[0] == "ok" and np.asarray(blk[1]).shape == (len(L), len(L)):
        B = np.asarray(blk[1])
        src = "library block"
    else:
        B = np.array(R.block(E.mat(attr), L, L))
        src = "definition"
    if name == "subnetwork":
        got = outcome(net.subnetwork, list(L))
        sig.append((pat, brief((got[0], _plain(got[1])), 60)))
        if got[0] != "ok":
            viol.append(V("%s.subnetwork:raises:%s" % (CLS, _tag(E)),
                          "list %s" % L, got[1], "a Network"))
            return
        sub = got[1]
        ok = (sub.N == len(L) and bool(sub.directed) == E.directed and
              equal(sub.adjacency, B) and
              equal(sub.node_weights, [E.w[v] for v in L]))
        if not ok:
            viol.append(V("%s.subnetwork:value:%s" % (CLS, _tag(E)),
                          "list %s (%s)" % (L, src),
                          [sub.adjacency, sub.node_weights],
                          [B, [E.w[v] for v in L]]))
        return
    if name == "internal_outdegree":
        exp = B.sum(axis=1)
    elif name == "internal_indegree":
        exp = B.sum(axis=0)
    else:
        exp = B.sum(axis=1) + (B.sum(axis=0) if E.directed else 0)
    got = _call(E, name, (L,), False, attr, has_la)
    sig.append((pat, _sv(got)))
    if not (got[0] == "ok" and equal(got[1], exp)):
        viol.append(V("%s.%s:%s:%s" % (CLS, pat, "raises" if got[0] == "exc"
                                       else "value", _tag(E)),
                      "list %s (sums over the %s)" % (L, src),
                      got[1], exp))


def fam_internal(case):
    n, directed, mask, wk, L = case
    E = Env(n, directed, mask, wk)
    viol, excluded, sig = [], {}, []
    ev = 0
    res, vidx = {}, {}
    for name, kind, lead, has_la in specs():
        if kind != "single":
            continue
        oracle = SINGLE.get(name)
        if oracle is None:
            excluded["no oracle for " + name] = 1
            continue
        for attr in E.attrs(has_la, excluded):
            if oracle == "derived":
                if name == "subnetwork" and len(L) == 1:
                    k = "subnetwork of a single node (a one-node Network " \
                        "has no link density and cannot be constructed)"
                    excluded[k] = excluded.get(k, 0) + 1
                    continue
                _derived_internal(E, name, L, attr, has_la, viol, sig)
                ev += 1
                continue
            st, got = _judge(E, name, (L,), lead, attr, has_la, oracle,
                             viol, excluded, sig)
            res[(name, attr)] = (st, got)
            if st == "viol":
                vidx[(name, attr)] = len(viol) - 1
            ev += st != "excl"
    viol = _fold(E, res, vidx, viol, (L,), E.stats)
    return {"viol": viol, "evals": ev, "excluded": excluded,
            "stats": E.stats, "trivial": False, "sig": str(sig)}


# (InteractingNetworks call, Network call, needs) ; needs: "conn" = only on
# connected graphs (the single-network method uses another convention for
# unreachable pairs), "und" = undirected only, "x2" = documented factor 2
def _whole_table(E):
    allv = list(range(E.n))
    n = E.net
    P = lambda f, *a: (lambda: getattr(n, f)(allv, allv, *a))      # noqa
    S = lambda f, *a: (lambda: getattr(n, f)(allv, *a))            # noqa
    N = lambda f, *a: (lambda: getattr(n, f)(*a))                  # noqa
    T = [
        ("cross_adjacency", P("cross_adjacency"), lambda: n.adjacency, ""),
        ("cross_adjacency_sparse", P("cross_adjacency_sparse"),
         lambda: n.adjacency, ""),
        ("internal_adjacency", S("internal_adjacency"),
         lambda: n.adjacency, ""),
        ("cross_link_attribute",
         lambda: n.cross_link_attribute(ATTR, allv, allv),
         N("link_attribute", ATTR), ""),
        ("internal_link_attribute",
         lambda: n.internal_link_attribute(ATTR, allv),
         N("link_attribute", ATTR), ""),
        ("cross_outdegree", P("cross_outdegree"), N("outdegree"), ""),
        ("cross_indegree", P("cross_indegree"), N("indegree"), ""),
        ("cross_degree", P("cross_degree"), N("degree"), "und"),
        ("cross_degree[w]", P("cross_degree", ATTR), N("degree", ATTR),
         "und"),
        ("internal_outdegree", S("internal_outdegree"), N("outdegree"), ""),
        ("internal_indegree", S("internal_indegree"), N("indegree"), ""),
        ("internal_degree", S("internal_degree"), N("degree"), "und"),
        ("number_internal_links", S("number_internal_links"),
         lambda: n.n_links, ""),
        ("internal_link_density", S("internal_link_density"),
         lambda: n.link_density, ""),
        ("cross_path_lengths", P("cross_path_lengths"), N("path_lengths"),
         ""),
        ("cross_path_lengths[w]", P("cross_path_lengths", ATTR),
         N("path_lengths", ATTR), ""),
        ("internal_path_lengths", S("internal_path_lengths"),
         N("path_lengths"), ""),
        ("internal_path_lengths[w]", S("internal_path_lengths", ATTR),
         N("path_lengths", ATTR), ""),
        ("internal_average_path_length", S("internal_average_path_length"),
         N("average_path_length"), "conn"),
        ("internal_average_path_length[w]",
         S("internal_average_path_length", ATTR),
         N("average_path_length", ATTR), "conn"),
        ("internal_closeness", S("internal_closeness"), N("closeness"),
         "und conn"),
        ("internal_closeness[w]", S("internal_closeness", ATTR),
         N("closeness", ATTR), "und conn"),
        ("internal_betweenness", S("internal_betweenness"),
         lambda: 2 * n.betweenness(), "und"),
        ("cross_betweenness", P("cross_betweenness"),
         lambda: 2 * n.betweenness(), "und"),
        ("internal_global_clustering", S("internal_global_clustering"),
         N("global_clustering"), "und"),
        ("cross_global_clustering", P("cross_global_clustering"),
         N("global_clustering"), "und"),
        ("cross_global_clustering_sparse",
         P("cross_global_clustering_sparse"), N("global_clustering"), "und"),
        ("cross_local_clustering", P("cross_local_clustering"),
         N("local_clustering"), "und"),
        ("cross_local_clustering_sparse", P("cross_local_clustering_sparse"),
         N("local_clustering"), "und"),
        ("cross_transitivity", P("cross_transitivity"), N("transitivity"),
         "und triples"),
        ("cross_transitivity_sparse", P("cross_transitivity_sparse"),
         N("transitivity"), "und triples"),
        ("nsi_cross_degree", P("nsi_cross_degree"), N("nsi_degree"), "und"),
        ("nsi_internal_degree", S("nsi_internal_degree"), N("nsi_degree"),
         "und"),
        ("nsi_cross_local_clustering", P("nsi_cross_local_clustering"),
         N("nsi_local_clustering"), "und"),
        ("nsi_internal_local_clustering", S("nsi_internal_local_clustering"),
         N("nsi_local_clustering"), "und"),
        ("nsi_cross_global_clustering", P("nsi_cross_global_clustering"),
         N("nsi_global_clustering"), "und"),
        ("nsi_cross_transitivity", P("nsi_cross_transitivity"),
         N("nsi_transitivity"), "und"),
        ("nsi_cross_closeness_centrality",
         P("nsi_cross_closeness_centrality"), N("nsi_closeness"), "und conn"),
        ("nsi_internal_closeness_centrality",
         S("nsi_internal_closeness_centrality"), N("nsi_closeness"),
         "und conn"),
        ("nsi_cross_average_path_length", P("nsi_cross_average_path_length"),
         N("nsi_average_path_length"), "und conn"),
        ("nsi_cross_betweenness", P("nsi_cross_betweenness"),
         N("nsi_betweenness"), "und"),
    ]
    return T


def fam_whole(case):
    n, directed, mask, wk = case
    E = Env(n, directed, mask, wk)
    viol, excluded, sig = [], {}, []
    ev = 0
    conn = is_connected(np.array(E.A)) and not directed
    if directed:
        # strongly connected?
        D = E.dist()
        conn = all(D[i][j] != R.INF for i in range(n) for j in range(n))
    has_triples = any(sum(r) >= 2 for r in E.A)
    seen = set()
    for name, f_in, f_net, needs in _whole_table(E):
        seen.add(name.split("[")[0])
        why = None
        if "und" in needs and directed:
            why = "whole-set limit: undirected-only measure"
        elif "conn" in needs and not conn:
            why = ("whole-set limit: single-network method treats "
                   "unreachable pairs differently")
        elif "triples" in needs and not has_triples:
            why = "whole-set limit: transitivity without triples"
        if why:
            excluded[why] = excluded.get(why, 0) + 1
            continue
        a, b = outcome(f_in), outcome(f_net)
        ev += 1
        sig.append((name, _sv(a)))
        if a[0] == "ok" and b[0] == "ok" and equal(a[1], b[1]):
            continue
        if a[0] == "exc" and b[0] == "exc":
            excluded["whole-set limit: both raise"] = \
                excluded.get("whole-set limit: both raise", 0) + 1
            continue
        base, attr = name.split("[")[0], (ATTR if "[" in name else None)
        allv = list(range(n))
        try:
            if base in PAIR:
                exp = PAIR[base](E, allv, allv, attr)
            elif callable(SINGLE.get(base)):
                exp = SINGLE[base](E, allv, attr)
            else:
                exp = None
        except Undefined:
            exp = None
        if exp is not None and a[0] == "ok" and not equal(a[1], exp):
            # the InteractingNetworks value itself is off its definition:
            # same key as in the cross / internal families
            if attr and any(v["key"].startswith("%s.%s:value" % (CLS, base))
                            for v in viol):
                continue
            viol.append(V("%s.%s:value:%s" % (CLS, name, _tag(E)),
                          "lists %s" % [allv, allv], a[1], exp))
            continue
        viol.append(V("%s.%s:whole-set!=Network:%s" % (CLS, name, _tag(E)),
                      "both groups = all %d nodes" % n, brief(a), brief(b)))
    for name, kind, _, _ in specs():
        if kind in ("pair", "single") and name not in seen:
            k = "whole-set limit: no single-network counterpart with the " \
                "same convention"
            excluded[k] = excluded.get(k, 0) + 1
    return {"viol": viol, "evals": ev, "excluded": excluded,
            "trivial": n == 1, "sig": str(sig)}


WRAPPERS = [
    # wrapper, underlying, shape: "12" one call, "1,2" tuple over the layers,
    # "12,21" tuple of both directions, "split" per-node result split
    ("adjacency_1", "internal_adjacency", "1"),
    ("adjacency_2", "internal_adjacency", "2"),
    ("cross_layer_adjacency", "cross_adjacency", "12"),
    ("path_lengths_1", "internal_path_lengths", "1"),
    ("path_lengths_2", "internal_path_lengths", "2"),
    ("cross_path_lengths", "cross_path_lengths", "12"),
    ("number_cross_layer_links", "number_cross_links", "12"),
    ("number_internal_links", "number_internal_links", "1,2"),
    ("cross_link_density", "cross_link_density", "12"),
    ("internal_link_density", "internal_link_density", "1,2"),
    ("internal_global_clustering", "internal_global_clustering", "1,2"),
    ("cross_global_clustering", "cross_global_clustering", "12,21"),
    ("cross_transitivity", "cross_transitivity", "12,21"),
    ("cross_average_path_length", "cross_average_path_length", "12"),
    ("internal_average_path_length", "internal_average_path_length", "1,2"),
    ("cross_degree", "cross_degree", "12,21"),
    ("internal_degree", "internal_degree", "1,2"),
    ("cross_local_clustering", "cross_local_clustering", "12,21"),
    ("cross_closeness", "cross_closeness", "12,21"),
    ("internal_closeness", "internal_closeness", "1,2"),
    ("cross_betweenness", "cross_betweenness", "split12"),
    ("internal_betweenness_1", "internal_betweenness", "split1"),
    ("internal_betweenness_2", "internal_betweenness", "split2"),
]


def fam_coupled(case):
    n, mask, n1 = case[:3]
    directed = bool(case[3]) if len(case) > 3 else False
    from pyunicorn.core import GeoGrid, InteractingNetworks
    from pyunicorn.climate import CoupledClimateNetwork
    viol, excluded, sig = [], {}, []
    ev = 0
    A = NR.adjacency_of(n, directed, mask)

    def grid(k, off):
        return GeoGrid(np.arange(3.), off + 40.0 * np.arange(k) / max(k, 1),
                       7.0 * np.arange(k) + off, silence_level=3)
    S = 0.9 * A + np.eye(n)
    c = CoupledClimateNetwork(grid(n1, 0.0), grid(n - n1, 40.0), S,
                              threshold=0.5, node_weight_type=None,
                              directed=directed, silence_level=3)
    c.silence_level = 3
    if not np.array_equal(c.adjacency, A):
        viol.append(V("CoupledClimateNetwork.adjacency:construction",
                      "thresholded similarity is not the crafted graph",
                      c.adjacency, A))
    g1, g2 = list(range(n1)), list(range(n1, n))
    if c.nodes_1 != g1 or c.nodes_2 != g2:
        viol.append(V("CoupledClimateNetwork.nodes_1:value", "",
                      [c.nodes_1, c.nodes_2], [g1, g2]))
    IN = InteractingNetworks

    def under(name, *lists):
        return outcome(getattr(IN, name), c, *lists)

    for wname, uname, shape in WRAPPERS:
        got = outcome(getattr(c, wname))
        if shape == "12":
            exp = under(uname, g1, g2)
        elif shape in ("1", "2"):
            exp = under(uname, g1 if shape == "1" else g2)
        elif shape == "1,2":
            a, b = under(uname, g1), under(uname, g2)
            exp = ("ok", (a[1], b[1])) if a[0] == b[0] == "ok" else \
                ("exc", (a[1] if a[0] == "exc" else b[1]))
        elif shape == "12,21":
            a, b = under(uname, g1, g2), under(uname, g2, g1)
            exp = ("ok", (a[1], b[1])) if a[0] == b[0] == "ok" else \
                ("exc", (a[1] if a[0] == "exc" else b[1]))
        else:
            lists = {"split12": (g1, g2), "split1": (g1,),
                     "split2": (g2,)}[shape]
            a = under(uname, *lists)
            exp = ("ok", (a[1][g1], a[1][g2])) if a[0] == "ok" else a
        ev += 1
        sig.append((wname, brief(got, 50)))
        if got[0] == "exc" and exp[0] == "exc":
            k = "coupled: wrapper and underlying call both raise"
            excluded[k] = excluded.get(k, 0) + 1
            continue
        ok = got[0] == exp[0] == "ok"
        if ok:
            g, e = got[1], exp[1]
            if isinstance(e, tuple):
                ok = isinstance(g, tuple) and len(g) == 2 and \
                    equal(g[0], e[0]) and equal(g[1], e[1])
            else:
                ok = equal(g, e)
        if not ok:
            viol.append(V("CoupledClimateNetwork.%s:!=underlying:%s" % (
                wname, uname), "layers %s | %s" % (g1, g2),
                brief(got), brief(exp)))
    # inherited pair/single methods must stay usable on the subclass
    for name, kind, lead, has_la in specs():
        if kind not in ("pair", "single") or lead:
            continue
        if name in type(c).__dict__:
            continue        # replaced by a wrapper with its own signature
        lists = (g1, g2) if kind == "pair" else (g1,)
        got = outcome(getattr(c, name), *lists)
        ref = outcome(getattr(IN(adjacency=A, directed=directed,
                                 silence_level=3), name), *lists)
        ev += 1
        if got[0] == "exc" and ref[0] == "exc":
            k = "coupled: inherited method raises on both classes"
            excluded[k] = excluded.get(k, 0) + 1
        elif got[0] == "exc" and ref[0] == "ok":
            helper = "?"
            for h in ("cross_degree", "cross_path_lengths", "cross_closeness",
                      "cross_local_clustering", "internal_adjacency"):
                if "CoupledClimateNetwork.%s()" % h in got[1]:
                    helper = h
            viol.append(V(
                "CoupledClimateNetwork.%s:shadows-helper-of-inherited-"
                "measures:TypeError" % helper,
                "inherited %s(%s) raises on a CoupledClimateNetwork, works "
                "on the same InteractingNetworks" % (name, list(lists)),
                got[1], brief(ref)))
        elif got[0] == "ok" and ref[0] == "ok" and \
                not name.startswith("nsi_") and name != "subnetwork" and \
                not equal(got[1], ref[1]):
            viol.append(V("CoupledClimateNetwork.%s:!=InteractingNetworks"
                          % name, "lists %s" % list(lists), brief(got),
                          brief(ref)))
    return {"viol": viol, "evals": ev, "excluded": excluded,
            "trivial": False, "sig": str(sig)}


# ---------------------------------------------------------------------------
# family: the same judgements on larger structured networks - node groups of
# 7..12 nodes in unsorted order on graphs with 16..30 nodes (ring with chords,
# two communities, a disconnected pair with interleaved labels), and networks
# with N >= 182 (flat index i*N+j >= 32768) whose groups contain the last nodes


def _grp(nodes, k, start=0, stride=3):
    """k nodes of `nodes` in a deterministic unsorted order."""
    nodes = list(nodes)
    m = len(nodes)
    assert k <= m
    out, i = [], start
    while len(out) < k:
        v = nodes[i % m]
        if v in out:
            i += 1          # occupied: next free node (always terminates)
            continue
        out.append(v)
        i += stride if (len(out) % 4) else stride + 1
    return out


def _scale_cases(thorough):
    out = []

    def both(n, kind, wk, L1, L2):
        out.append(("cross", n, kind, wk, L1, L2))
        out.append(("internal", n, kind, wk, L1))
        out.append(("internal", n, kind, wk, L2))
    # ring with chords, 16 nodes, groups 7 / 8
    both(16, "ring-chords", 1, _grp(range(0, 9), 7, 2, 5),
         _grp(range(9, 16), 7, 1, 2) + [4])
    # two communities: the groups are (parts of) the communities, 8 / 10
    both(20, "two-communities", 2, _grp(range(0, 10), 8, 3),
         _grp(range(10, 20), 10, 1))
    # ... and groups that cut across the communities, 9 / 9
    both(20, "two-communities", 1, _grp(range(0, 20, 2), 9, 1),
         _grp(range(1, 20, 2), 9, 4))
    # disconnected pair (components on even / odd labels): no path at all
    both(24, "disconnected-pair", 1, _grp(range(0, 24, 2), 7, 2),
         _grp(range(1, 24, 2), 9, 0))
    # ... and groups that mix both components, 8 / 12
    both(24, "disconnected-pair", 2, _grp(range(0, 12), 8, 1),
         _grp(range(12, 24), 12, 5))
    # ring with chords, 30 nodes, groups 12 / 12 and 7 / 11
    both(30, "ring-chords", 2, _grp(range(0, 15), 12, 4),
         _grp(range(15, 30), 12, 2))
    both(30, "ring-chords", 1, _grp(range(0, 30, 3), 7, 1),
         _grp(range(1, 30, 3), 8, 0) + [29, 27, 26])
    # dense graphs: one node closes >= 128 triangles with the other group
    # (K18 1|17: 136), >= 128 cross triples in total with triangles != triples
    both(18, "complete", 1, [7], _grp([v for v in range(18) if v != 7],
                                      17, 2, 5))
    both(18, "complete", 2, _grp(range(0, 18, 3), 6, 1, 1),
         _grp([v for v in range(18) if v % 3], 12, 3, 5))
    both(20, "dense", 1, _grp(range(0, 8), 8, 3), _grp(range(8, 20), 12, 1,
                                                       5))
    both(20, "dense", 2, _grp(range(1, 20, 4), 5, 2, 1),
         _grp(range(0, 20, 2), 9, 1))
    both(12, "cocktail", 1, _grp(range(0, 12, 2), 6, 1, 1),
         _grp(range(1, 12, 2), 6, 2, 1))
    if thorough:
        both(40, "dense", 1, _grp(range(0, 20), 20, 1), _grp(range(20, 40),
                                                             20, 7))
        both(33, "complete", 2, [32], _grp(range(0, 32), 32, 5))
    # N >= 182: groups containing the highest-numbered nodes
    for n in (182, 200) + ((260, 300) if thorough else ()):
        both(n, "ring-chords", 1,
             [n - 1, n - 3, 0, 5, n - 10, 3, n // 2],
             [n - 2, n - 4, 1, n - 50, n - 18, n - 17, 60, 10])
    if thorough:
        both(40, "two-communities", 1, _grp(range(0, 20), 12, 1),
             _grp(range(20, 40), 15, 3))
        both(36, "disconnected-pair", 2, _grp(range(0, 36, 2), 11, 1),
             _grp(range(1, 36, 2), 12, 2))
    for n, kind, wk in ((16, "ring-chords", 1), (20, "two-communities", 2),
                        (24, "disconnected-pair", 1),
                        (30, "ring-chords", 2)):
        out.append(("whole", n, kind, wk))
    out.append(("coupled", 20, "two-communities", 8))
    out.append(("coupled", 30, "ring-chords", 12))
    out.append(("coupled", 24, "disconnected-pair", 9))
    return [list(c) for c in out]


def fam_scale(case):
    fam, n, kind = case[0], case[1], case[2]
    edges = NR.structured(kind, n)
    if fam == "cross":
        return fam_cross((n, False, edges, case[3], case[4], case[5]))
    if fam == "internal":
        return fam_internal((n, False, edges, case[3], case[4]))
    if fam == "whole":
        return fam_whole((n, False, edges, case[3]))
    return fam_coupled((n, edges, case[3]))


FAMILIES = {"cross": fam_cross, "internal": fam_internal,
            "whole": fam_whole, "coupled": fam_coupled, "scale": fam_scale}


# ---------------------------------------------------------------------------


def _cross_cases(graphs, wks, variants, partial=True):
    out = []
    for (n, d, m) in graphs:
        for wk in wks:
            for (L1, L2) in ordered_group_pairs(n, allow_partial=partial):
                if variants(wk):
                    vs = [(a, b) for a in _orders(L1) for b in _orders(L2)]
                else:
                    vs = [(L1, L2)]
                for a, b in vs:
                    out.append((n, d, m, wk, a, b))
    return out


def _internal_cases(graphs, wks, variants):
    out = []
    for (n, d, m) in graphs:
        for wk in wks:
            for r in range(1, n + 1):
                for L in itertools.combinations(range(n), r):
                    for v in (_orders(list(L)) if variants(wk)
                              else [list(L)]):
                        out.append((n, d, m, wk, v))
    return out


def run(ctx):
    thorough = ctx.tier == "thorough"
    nref = R.selftest()
    und = []
    for n in (2, 3, 4):
        und += all_graphs(n, False)
    und += iso(5, False)
    dire = all_graphs(2, True) + all_graphs(3, True)
    allvar = (lambda wk: True) if thorough else (lambda wk: wk == 1)
    ctx.rule = (
        "cross: every labelled undirected graph on 2..4 nodes + iso(5) "
        "(+ every labelled directed graph on 2..3 nodes) x node weights W "
        "x link attribute 'w' x every ordered pair of disjoint non-empty "
        "node lists x {sorted, reversed, rotated} order of each list (quick: "
        "order variants for weight vector 1 only); thorough adds every "
        "ordered bipartition of the connected and 10 disconnected classes "
        "of iso(6).  internal: same graphs x every non-empty node list "
        "(incl. the whole set) x orders.  whole: both groups = all nodes.  "
        "coupled: iso(2..5) x every contiguous split.  Every public method "
        "of InteractingNetworks found by introspection is called with and "
        "without the link attribute.  A case is non-trivial when it has at "
        "least two nodes; distinct = distinct vectors of library results.")
    specs_ = specs()
    ctx.notes["methods_found"] = {
        k: sorted(nm for nm, kd, _, _ in specs_ if kd == k)
        for k in ("pair", "single", "other")}
    ctx.notes["methods_without_oracle"] = sorted(
        nm for nm, kd, _, _ in specs_
        if (kd == "pair" and nm not in PAIR) or
        (kd == "single" and nm not in SINGLE))
    ctx.notes["docstring_examples_reproduced_by_oracle"] = nref

    cases = _cross_cases(und, (0, 1, 2), allvar)
    cases += _cross_cases(dire, (0, 1), lambda wk: True)
    if thorough:
        six = [g for g in iso(6, False) if is_connected(adj(*g))]
        disc = [g for g in iso(6, False) if not is_connected(adj(*g))]
        step = max(1, len(disc) // 10)
        six += disc[::step][:10]
        ctx.notes["iso6_graphs"] = len(six)
        cases += _cross_cases(six, (0, 1, 2), lambda wk: wk == 1,
                              partial=False)
    cases += _cross_cases(und, (4,), lambda wk: True)
    ctx.explore("cross", cases, desc="pair methods vs sub-block definition, "
                "sparse==compiled, swap symmetry")

    cases = _internal_cases(und, (0, 1, 2), allvar)
    cases += _internal_cases(dire, (0, 1), lambda wk: True)
    if thorough:
        cases += _internal_cases(six, (1,), lambda wk: True)
    cases += _internal_cases(und, (4,), lambda wk: True)
    cases += _internal_cases(dire, (4,), lambda wk: True)
    ctx.explore("internal", cases, desc="single-list methods vs sub-block "
                "definition")

    g = und + dire + (iso(6, False) if thorough else [])
    ctx.explore("whole", [(n, d, m, wk) for (n, d, m) in g
                          for wk in (0, 1, 2, 4)],
                desc="both groups = whole node set reproduces Network")

    cases = []
    for n in (2, 3, 4, 5):
        for (_, _, m) in iso(n, False):
            for n1 in range(1, n):
                cases.append((n, m, n1))
    # directed coupled networks (asymmetric similarity)
    for n in (3, 4):
        for (_, _, m) in iso(n, True):
            for n1 in range(1, n):
                cases.append((n, m, n1, True))
    ctx.explore("coupled", cases, desc="CoupledClimateNetwork wrappers "
                "(undirected iso(2..5), directed iso(3..4))")
    scale = _scale_cases(thorough)
    ctx.explore("scale", scale, chunk=1, desc="groups of 7..12 nodes in "
                "unsorted order on structured graphs with 16..30 nodes; "
                "N>=182 with groups at the last nodes")
    ctx.notes["scale_inputs"] = scale
    ctx.notes["bound"] = ("undirected n<=4 labelled + iso(5)%s; directed "
                          "n<=3" % ("; iso(6) bipartitions" if thorough
                                    else ""))
    ctx.assumptions += [
        "normalisation conventions are those of the docstring examples of "
        "InteractingNetworks (reproduced by the reference model without the "
        "library); total_cross_degree follows the pinned tests (mean cross "
        "degree), its two docstring outputs are interchanged",
        "closeness-type measures: pairs without a path enter with n-1 "
        "(source comment 'maximum possible path length'); counted in stats",
        "on directed graphs only block matrices, degrees, link counts, path "
        "lengths, closeness and efficiency are judged (class docstring: "
        "other methods are meaningful for undirected networks only)",
        "scale family: a fixed list of structured networks (16..30 nodes "
        "with groups of 7..12 nodes; 182 and 200 nodes, thorough also 260 "
        "and 300) judged by the same oracles; distances by a numpy "
        "Floyd-Warshall, betweenness by path counts (cross-checked against "
        "path enumeration up to 30 nodes); not exhaustive",
        "internal_(in/out)degree and subnetwork are held to the block "
        "matrices the library itself returns, so the list-order defect of "
        "internal_adjacency / internal_link_attribute keeps a single key "
        "each"]
