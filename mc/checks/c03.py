"""C03  Network measures equal their published definitions.

Bounded-exhaustive enumeration of graphs; on every graph each structural
measure of pyunicorn.core.Network is evaluated on the real implementation and
compared with the by-definition evaluator of refmodel/graph.py.

  und       every labelled undirected graph on 2..4 (quick) / 2..5 (thorough)
            nodes + one representative per isomorphism class of 5 (quick) /
            6 (thorough) nodes: all unweighted measures and, with unit node
            weights, the n.s.i. measures against their definition on A + 1
  dir       every labelled directed graph on 2..3 (quick) / 2..4 (thorough)
            nodes + class representatives of 4 nodes (quick)
  wund/wdir every assignment of link-attribute values from {0.5, 1, 2} to the
            links of the small graphs (undirected <= 4, directed <= 3 nodes)
            and one assignment per isomorphism class of attributed graphs on
            the class representatives one size up: strengths, weighted paths
            and the measures built on them, weighted motif clustering, Holme
            clustering, weighted PageRank
  named     a fixed list of structured larger graphs (cliques, wheels,
            multipartite, paths, stars, cycles, unions, hypercubes, grids,
            a hub of degree 217 with a K5 among its neighbours, K183)
  scale     a fixed list of larger structured graphs just above the size
            thresholds of the implementation (components of 9 / 11-12 / 15 /
            23 nodes, interleaved labels, isolated nodes; bipartite graphs
            with N >= 21; N = 150 / 209 / 300; link attributes on N = 182 /
            200 / 260 / 300), always with unequal node weights; the n.s.i.
            measures are held to their node-weighted definitions
  extra     only with VERIF_SEED != 0: seeded G(n,p), n in 6..40 (reported as
            `extra`, never as exhaustive coverage)
  selftest  the evaluator against networkx on all graphs <= 4 nodes; a
            disagreement there is a harness error, not a verdict
"""
import hashlib
import itertools
import random

import numpy as np

from ..core import V
from ..domains import adj, all_graphs, iso, pairs
from ..refmodel import graph as G

LEVEL = "exploration"
F64 = dict(rtol=1e-9, atol=1e-12)
RW = dict(rtol=1e-8, atol=1e-10)       # dense solves of the random walks
SPEC = dict(rtol=1e-6, atol=1e-8)      # ARPACK (tol 1e-8) / PRPACK iterations
ATTR_VALUES = (0.5, 1.0, 2.0)
ALL_GROUPS = ("deg", "clust", "cliq", "path", "betw", "rw", "misc", "spec",
              "nsi")
INF = float("inf")


# ---------------------------------------------------------------------------
# helpers


def _not_impl(e):
    return isinstance(e, NotImplementedError) or (
        type(e).__name__ == "NetworkError" and
        "not implemented" in str(e).lower())


def _expected(x):
    """expected value (nested lists, None = undefined) -> (floats, mask)."""
    if x is None:
        return np.array(np.nan), np.array(False)
    a = np.array(x, dtype=object)
    if a.size == 0:
        return np.zeros(a.shape), np.zeros(a.shape, dtype=bool)
    mask = np.asarray(np.frompyfunc(lambda v: v is not None, 1, 1)(a),
                      dtype=bool)
    vals = np.where(mask, a, np.nan).astype(float)
    return vals, mask


def _plain(x):
    if hasattr(x, "toarray"):
        x = x.toarray()
    return np.asarray(x)


class Acc:
    """Collects comparisons of one case."""

    def __init__(self, tag, desc):
        self.tag, self.desc = tag, desc
        self.viol, self.excl, self.ev = [], {}, 0
        self.h = hashlib.sha1()

    def ex(self, reason, k=1):
        self.excl[reason] = self.excl.get(reason, 0) + k

    def note(self, name, arr):
        self.h.update(name.encode())
        a = np.nan_to_num(np.asarray(arr, dtype=float), nan=-7.0,
                          posinf=1e300, neginf=-1e300)
        self.h.update(np.round(a, 6).tobytes())

    def check(self, name, fn, exp, tol=F64, disc=None, sig=True):
        """Run fn() on the library and compare with exp on its defined
        entries.  Returns the library value (or None)."""
        self.ev += 1
        vals, mask = _expected(exp)
        ndef = int(mask.sum())
        try:
            got = fn()
        except (KeyboardInterrupt, SystemExit, MemoryError):
            raise
        except BaseException as e:   # noqa
            if _not_impl(e):
                self.ex("%s: not implemented for this graph class" % name)
                return None
            if ndef == 0:
                self.ex("%s: undefined on this graph (library raises)" % name)
                return None
            d = disc(None, vals, mask) if callable(disc) else (
                disc or self.tag)
            if isinstance(d, tuple):      # one root cause shared by methods
                name, d = d
            self.viol.append(V("Network.%s:raises:%s" % (name, d),
                               "%s: %r" % (self.desc, e), repr(e)[:200], exp))
            self.h.update((name + ":raises").encode())
            return None
        if mask.size - ndef:
            self.ex("%s: entries where the measure is undefined (0/0, no "
                    "neighbour, unreachable)" % name, int(mask.size - ndef))
        try:
            g = _plain(got).astype(float)
        except (TypeError, ValueError):
            g = None
        if g is None or g.shape != vals.shape:
            self.viol.append(V("Network.%s:shape:%s" % (name, self.tag),
                               self.desc, got, exp))
            return got
        if ndef and not np.isclose(g[mask], vals[mask], **tol).all():
            d = disc(g, vals, mask) if callable(disc) else (disc or self.tag)
            if isinstance(d, tuple):      # one root cause shared by methods
                name, d = d
            self.viol.append(V("Network.%s:value:%s" % (name, d), self.desc,
                               g, exp))
        if sig:
            self.note(name, g)
        return got

    def result(self, trivial, stats=None):
        return {"viol": self.viol, "evals": self.ev, "excluded": self.excl,
                "trivial": bool(trivial), "sig": self.h.hexdigest(),
                "stats": stats or {}}


def _eig_tol(A):
    """ARPACK runs with tol=1e-8 in shift-invert mode around sigma=N^2; the
    eigenvector error scales with N^2 / (lambda_1 - lambda_2)."""
    n = len(A)
    t = max(1e-6, 1e-8 * n * n / max(G.spectral_gap(A), 1e-12))
    return dict(rtol=t, atol=t)


def _mk(A, directed, W=None, w=None):
    from pyunicorn.core import Network
    net = Network(adjacency=np.array(A, dtype=np.int8), directed=directed,
                  node_weights=w, silence_level=3)
    if W is not None:
        net.set_link_attribute("w", np.array(W, dtype=float))
    return net


#  a second alphabet with a link of length exactly 0 (legal: zero lags,
#  coincident nodes); used by a part of the wund / wdir cases
ATTR_VALUES_ZERO = (0.0, 1.0, 2.5)
#  a third one with a negative value, for the strength-type measures only
ATTR_VALUES_SIGNED = (-1.0, 1.0, 2.5)


def _weights_from_code(A, directed, code, values=None):
    """Attribute matrix: the k-th link (in pair order) gets the k-th base-3
    digit of `code` as index into ATTR_VALUES."""
    values = values or ATTR_VALUES
    n = len(A)
    W = [[0.0] * n for _ in range(n)]
    for (i, j) in pairs(n, directed):
        if A[i][j]:
            W[i][j] = values[code % 3]
            if not directed:
                W[j][i] = W[i][j]
            code //= 3
    return W


def _patterns(n):
    """(sources, targets) patterns for the interregional betweenness."""
    out = [([0], [n - 1]),
           ([0, 1 % n], sorted({1 % n, 2 % n})),
           (list(range(0, n, 2)), list(range(1, n, 2))),
           (list(range(n)), list(range(n)))]
    return [(s, t) for s, t in out if s and t]


# ---------------------------------------------------------------------------
# discriminators: name the input class (and closed form) of a failure


def _disc_motif(A, kind):
    def f(g, vals, mask):
        M = np.array(A, dtype=np.int64)
        t = {"cycle": M @ M @ M, "mid": M @ M.T @ M, "in": M.T @ M @ M,
             "out": M @ M @ M.T}[kind].diagonal()
        if t.max() > 32767:    # closed 3-walk count beyond int16 (sp_A)
            return ("local_*motif_clustering", "int16-overflow")
        return "directed" if not G.is_symmetric(A) else "undirected"
    return f


def _disc_cliq(A, order, tag):
    def f(g, vals, mask):
        k = max(G.outdegree(A))
        prod = 1
        for x in range(order - 1):
            prod *= (k - x)
        return "int32-overflow" if prod > 2 ** 31 - 1 else tag
    return f


def _disc_closeness(A, tag):
    def f(g, vals, mask):
        if g is not None:
            cu = G.closeness(G.path_lengths(G.und(A)))
            vu, mu = _expected(cu)
            if mu.all() and np.allclose(g, vu, rtol=1e-9):
                return "directed=undirected-version"
        return tag
    return f


# ---------------------------------------------------------------------------
# the comparisons


def _check_distribution(acc, net, name, k):
    """Degree histograms: judged only where the library's bins coincide with
    the integer degrees min..max (the reading of the docstring examples)."""
    exp = (G.degree_ccdf(k) if name.endswith("cdf")
           else G.degree_frequencies(k))
    try:
        got = np.asarray(getattr(net, name)(), dtype=float)
    except Exception:   # noqa
        got = None
    if got is None or got.shape != (len(exp),):
        acc.ex("%s: histogram bins do not coincide with the integer degrees "
               "(as in the docstring example of outdegree_distribution)"
               % name)
        return
    acc.check(name, lambda: got, exp)


def _check_deg(acc, net, A, directed):
    k, ki, ko = G.degree(A, directed), G.indegree(A), G.outdegree(A)
    kb = G.bildegree(A)
    acc.check("degree", net.degree, k)
    acc.check("indegree", net.indegree, ki)
    acc.check("outdegree", net.outdegree, ko)
    acc.check("bildegree", net.bildegree, kb)
    acc.check("laplacian", net.laplacian, G.laplacian(A, "out"))
    acc.check("laplacian[in]", lambda: net.laplacian(direction="in"),
              G.laplacian(A, "in"))
    for name, kk in (("degree_distribution", k), ("degree_cdf", k),
                     ("indegree_distribution", ki), ("indegree_cdf", ki),
                     ("outdegree_distribution", ko), ("outdegree_cdf", ko)):
        _check_distribution(acc, net, name, kk)
    if directed and G.has_reciprocal(A):
        acc.ex("neighbours' degree on directed graphs with reciprocal links "
               "(degree of the undirected version vs total degree not "
               "defined by the docstring)", 2)
    elif G.n_links(A) == 0:
        acc.ex("neighbours' degree on an edgeless graph", 2)
    else:
        avg, mx = G.neighbors_degree(A, directed)
        iso_ = any(x is None for x in avg)
        acc.check("average_neighbors_degree", net.average_neighbors_degree,
                  avg, disc="isolated-node" if iso_ else None)
        acc.check("max_neighbors_degree", net.max_neighbors_degree, mx)
    if not directed:
        acc.check("assortativity", net.assortativity, G.assortativity(A))
    else:
        acc.ex("assortativity: Newman 2002 is for undirected graphs")


def _check_clust(acc, net, A, directed, nodes=None):
    n = len(A)
    if directed and G.has_reciprocal(A):
        acc.ex("local_clustering/transitivity on directed graphs with "
               "reciprocal links (igraph's multigraph reading, not defined "
               "by the docstring)", 3)
    else:
        lc = acc.check("local_clustering", net.local_clustering,
                       G.local_clustering(A))
        if lc is not None:
            acc.check("global_clustering", net.global_clustering,
                      float(np.mean(lc)) if n else None)
        acc.check("transitivity", net.transitivity, G.transitivity(A))
    for kind in G.MOTIFS:
        acc.check("local_%smotif_clustering" % kind,
                  getattr(net, "local_%smotif_clustering" % kind),
                  G.motif_clustering(A, kind), disc=_disc_motif(A, kind))


def _check_cliq(acc, net, A, directed, big=False):
    if directed:
        acc.ex("local_cliquishness/higher_order_transitivity/"
               "weighted_local_clustering: undirected graphs only", 6)
        return
    for order in (3, 4, 5):
        acc.check("local_cliquishness[%d]" % order,
                  lambda o=order: net.local_cliquishness(o),
                  G.local_cliquishness(A, order),
                  disc=_disc_cliq(A, order, acc.tag))
    for order in (3, 4):
        acc.check("higher_order_transitivity[%d]" % order,
                  lambda o=order: net.higher_order_transitivity(o),
                  G.higher_order_transitivity(A, order))
    if G.n_links(A):
        from pyunicorn.core import Network
        Wf = [[float(x) for x in row] for row in A]
        acc.check("weighted_local_clustering[0/1]",
                  lambda: Network.weighted_local_clustering(Wf),
                  G.np_weighted_local_clustering(Wf) if big
                  else G.weighted_local_clustering(Wf))


def _check_path(acc, net, A, directed, W=None, lv=True, big=False):
    n = len(A)
    suffix = "" if W is None else "[attr]"
    arg = () if W is None else ("w",)
    D = G.np_path_lengths(A, W).tolist() if big else G.path_lengths(A, W)
    got = acc.check("path_lengths" + suffix, lambda: net.path_lengths(*arg),
                    D)
    acc.check("average_path_length" + suffix,
              lambda: net.average_path_length(*arg),
              G.average_path_length(D))
    # a path of length 0 between two distinct nodes makes the efficiency
    # (sum of 1/d) and everything built on it infinite: not defined
    zero_path = W is not None and any(
        D[i][j] == 0 for i in range(n) for j in range(n) if i != j)
    if zero_path:
        acc.ex("efficiency / vulnerability with a zero-length path (1/d "
               "undefined)")
        lv = False
    else:
        acc.check("global_efficiency" + suffix,
                  lambda: net.global_efficiency(*arg), G.global_efficiency(D))
    if W is None:
        acc.check("diameter", net.diameter, G.diameter(D))
        if directed:
            acc.check("diameter[directed=False]",
                      lambda: net.diameter(directed=False),
                      G.diameter(G.path_lengths(G.und(A))))
    acc.check("closeness" + suffix, lambda: net.closeness(*arg),
              G.closeness(D),
              disc=_disc_closeness(A, acc.tag) if (directed and W is None)
              else None)
    if lv:
        exp = G.local_vulnerability(A, W)

        def disc(g, vals, mask):
            if g is None and any(G.n_links(G.remove_node(A, i)) == 0
                                 for i in range(n)):
                return ("local_vulnerability", "edgeless-after-removal")
            return acc.tag
        acc.check("local_vulnerability" + suffix,
                  lambda: net.local_vulnerability(*arg), exp, disc=disc)
    # the cached path-length matrix must come back unharmed
    if got is not None and W is None:
        again = np.asarray(net.path_lengths(), dtype=float)
        if not np.array_equal(again, np.array(D, dtype=float)):
            acc.viol.append(V("Network.path_lengths:value:after-derived-"
                              "measures", acc.desc, again, D))


def _check_betw(acc, net, A, directed, big=False):
    n = len(A)
    if big:      # same definitions, vectorised over the pairs
        D, Sg = G.np_sigma(A)
        paths = None
        bexp = G.np_betweenness(D, Sg, directed)
    else:
        paths = G.all_shortest_paths(A)
        bexp = G.betweenness(A, directed, paths)
    acc.check("betweenness", net.betweenness, bexp)
    if directed:
        acc.ex("interregional/link betweenness: undirected graphs only "
               "(kernel asserts symmetric link list)", 3)
        return
    for idx, (S, T) in enumerate(_patterns(n)):
        acc.check("interregional_betweenness",
                  lambda S=S, T=T: net.interregional_betweenness(
                      sources=S, targets=T),
                  G.np_betweenness(D, Sg, False, S, T) if big else
                  G.interregional_betweenness(A, S, T, paths))
    lb = G.np_link_betweenness(A, D, Sg) if big else \
        G.link_betweenness(A, paths)
    acc.check("link_betweenness", net.link_betweenness, lb)
    acc.check("edge_betweenness", net.edge_betweenness, lb)


def _check_rw(acc, net, A, directed):
    if directed:
        acc.ex("random-walk betweenness: undirected graphs only", 2)
        return
    acc.check("newman_betweenness", net.newman_betweenness,
              G.newman_betweenness(A), tol=RW)
    acc.check("arenas_betweenness", net.arenas_betweenness,
              G.arenas_betweenness(A), tol=RW)


def _check_misc(acc, net, A, directed, big=False):
    acc.check("coreness", net.coreness, G.coreness(A, directed))
    if directed:
        acc.ex("matching_index: 'common neighbours' not defined for "
               "directed graphs")
    else:
        acc.check("matching_index", net.matching_index,
                  G.np_matching_index(A) if big else G.matching_index(A))


def _check_spec(acc, net, A, directed, W=None):
    n = len(A)
    suffix = "" if W is None else "[attr]"
    arg = () if W is None else ("w",)
    conn = (G.is_strongly_connected(A) if directed else G.is_connected(A))
    if directed and G.is_connected(G.und(A)):
        # use_directed=False: every link is followed in both directions (a
        # reciprocated pair counts twice): PageRank of M + M^T
        M = np.array(A if W is None else W, dtype=float)
        Ms = (M + M.T).tolist()
        acc.check("pagerank[use_directed=False]" + suffix,
                  lambda: net.pagerank(*arg, use_directed=False),
                  G.pagerank(Ms, Ms), tol=SPEC, sig=False)
    if not conn:
        acc.ex("spectral centralities: graph not (strongly) connected", 2)
        return
    acc.check("pagerank" + suffix, lambda: net.pagerank(*arg),
              G.pagerank(A, W), tol=SPEC, sig=False)
    if directed or W is not None:
        return
    if n < 3:
        acc.ex("eigenvector_centrality: ARPACK needs N > 2")
        return
    tol = _eig_tol(A)
    x = acc.check("eigenvector_centrality", net.eigenvector_centrality,
                  G.eigenvector_centrality(A), tol=tol, sig=False)
    if x is not None:
        M = np.array(A, dtype=float)
        _check_eigvec(acc, "eigenvector_centrality", M,
                      float(np.linalg.eigvalsh(M).max()),
                      np.asarray(x, dtype=float), tol)


def _check_eigvec(acc, name, M, lam, x, tol):
    """Definition without reference vector: M x = lambda_max x, x > 0 (Perron;
    matters on bipartite graphs where -lambda_max is an eigenvalue too),
    max(x) = 1."""
    t = dict(rtol=0.0, atol=tol["atol"] * max(1.0, lam) * 4)
    acc.check(name + "[M x - lambda_max x]", lambda: M @ x - lam * x,
              [0.0] * len(x), tol=t, sig=False)
    # (entries smaller than the solver accuracy may come out as -0)
    acc.check(name + "[x > 0, max = 1]",
              lambda: [float(x.min() > -tol["atol"]), float(x.max())],
              [1.0, 1.0], tol=dict(rtol=0.0, atol=1e-9), sig=False)


def _check_nsi(acc, net, A, directed):
    """Unit node weights: n.s.i. measure = definition on A+ (and, for the
    corrected variants with typical weight 1, = the unweighted measure)."""
    n = len(A)
    k, ki, ko = G.degree(A, directed), G.indegree(A), G.outdegree(A)
    kb = G.bildegree(A)
    two = 2 if directed else 1
    acc.check("nsi_degree", net.nsi_degree, [x + two for x in k])
    acc.check("nsi_indegree", net.nsi_indegree, [x + 1 for x in ki])
    acc.check("nsi_outdegree", net.nsi_outdegree, [x + 1 for x in ko])
    acc.check("nsi_bildegree", net.nsi_bildegree, [x + 1 for x in kb])
    acc.check("nsi_indegree[tw=1]",
              lambda: net.nsi_indegree(typical_weight=1.0), ki)
    acc.check("nsi_outdegree[tw=1]",
              lambda: net.nsi_outdegree(typical_weight=1.0), ko)
    acc.check("nsi_bildegree[tw=1]",
              lambda: net.nsi_bildegree(typical_weight=1.0), kb)
    for kind in G.MOTIFS:
        acc.check("nsi_local_%smotif_clustering" % kind,
                  getattr(net, "nsi_local_%smotif_clustering" % kind),
                  G.nsi_motif_clustering(A, kind))
    acc.check("nsi_average_path_length", net.nsi_average_path_length,
              G.nsi_average_path_length(A))
    acc.check("nsi_closeness", net.nsi_closeness, G.nsi_closeness(A))
    acc.check("nsi_harmonic_closeness", net.nsi_harmonic_closeness,
              G.nsi_harmonic_closeness(A))
    acc.check("nsi_exponential_closeness", net.nsi_exponential_closeness,
              G.nsi_exponential_closeness(A))
    acc.check("nsi_global_efficiency", net.nsi_global_efficiency,
              G.nsi_global_efficiency(A))
    if directed:
        acc.ex("n.s.i. measures documented for undirected networks only", 10)
        return
    acc.check("nsi_degree[tw=1]",
              lambda: net.nsi_degree(typical_weight=1.0), k)
    avg, mx = G.nsi_neighbors_degree(A)
    acc.check("nsi_average_neighbors_degree",
              net.nsi_average_neighbors_degree, avg)
    acc.check("nsi_max_neighbors_degree", net.nsi_max_neighbors_degree, mx)
    acc.check("nsi_laplacian", net.nsi_laplacian, G.laplacian(A))
    lc = acc.check("nsi_local_clustering", net.nsi_local_clustering,
                   G.nsi_local_clustering(A))
    if lc is not None:
        acc.check("nsi_global_clustering", net.nsi_global_clustering,
                  float(np.mean(lc)))
    acc.check("nsi_transitivity", net.nsi_transitivity,
              G.nsi_transitivity(A))
    c = G.local_clustering(A)
    acc.check("nsi_local_clustering[tw=1]",
              lambda: net.nsi_local_clustering(typical_weight=1.0),
              [c[i] if k[i] >= 2 else None for i in range(n)])
    # one kernel serves interregional_betweenness (judged against the
    # definition in _check_betw) and the n.s.i. variants: with unit weights
    # they must coincide with what the library reports for the former
    full = list(range(n))
    S, T = _patterns(n)[1]
    try:
        ref_full = np.asarray(net.interregional_betweenness(
            sources=full, targets=full), dtype=float).tolist()
        ref_st = np.asarray(net.interregional_betweenness(
            sources=S, targets=T), dtype=float).tolist()
    except Exception:   # noqa  (reported by _check_betw)
        paths = G.all_shortest_paths(A)
        ref_full = G.interregional_betweenness(A, full, full, paths)
        ref_st = G.interregional_betweenness(A, S, T, paths)
    acc.check("nsi_betweenness", net.nsi_betweenness, ref_full)
    acc.check("nsi_interregional_betweenness",
              lambda: net.nsi_interregional_betweenness(S, T), ref_st)
    if G.is_connected(A) and n >= 3:
        acc.check("nsi_eigenvector_centrality",
                  net.nsi_eigenvector_centrality,
                  G.eigenvector_centrality(A), tol=_eig_tol(A), sig=False)
    else:
        acc.ex("spectral centralities: graph not (strongly) connected")


def _check_nsi_w(acc, net, A, directed, w, rw=True):
    """n.s.i. measures with unequal node weights against their weighted
    definitions (refmodel: nsi_w*)."""
    n = len(A)
    w = np.asarray(w, dtype=float)
    W = float(w.sum())
    r = G.nsi_w(A, w)
    for nm in ("degree", "indegree", "outdegree", "bildegree"):
        acc.check("nsi_%s[w]" % nm, getattr(net, "nsi_" + nm), r[nm])
        acc.check("nsi_%s[w,tw=2]" % nm,
                  lambda nm=nm: getattr(net, "nsi_" + nm)(
                      typical_weight=2.0), r[nm] / 2.0 - 1.0)
    for kind in G.MOTIFS:
        acc.check("nsi_local_%smotif_clustering[w]" % kind,
                  getattr(net, "nsi_local_%smotif_clustering" % kind),
                  r[kind])
    D = G.np_path_lengths(A)
    pw = G.nsi_w_paths(D, w)
    for nm in ("average_path_length", "closeness", "harmonic_closeness",
               "exponential_closeness", "global_efficiency"):
        acc.check("nsi_%s[w]" % nm, getattr(net, "nsi_" + nm), pw[nm])
    if directed:
        acc.ex("n.s.i. measures documented for undirected networks only", 12)
        return
    acc.check("nsi_average_neighbors_degree[w]",
              net.nsi_average_neighbors_degree,
              r["average_neighbors_degree"])
    acc.check("nsi_max_neighbors_degree[w]", net.nsi_max_neighbors_degree,
              r["max_neighbors_degree"])
    acc.check("nsi_laplacian[w]", net.nsi_laplacian, r["laplacian"])
    lc = acc.check("nsi_local_clustering[w]", net.nsi_local_clustering,
                   r["local_clustering"])
    if lc is not None:
        acc.check("nsi_global_clustering[w]", net.nsi_global_clustering,
                  float(np.dot(np.asarray(lc, dtype=float), w) / W))
    acc.check("nsi_transitivity[w]", net.nsi_transitivity, r["transitivity"])
    Dw_, Sw_ = G.np_sigma(A, w)
    acc.check("nsi_betweenness[w]", net.nsi_betweenness,
              G.np_betweenness(Dw_, Sw_, False, w=w, ordered=True))
    for (S, T) in _patterns(n)[1:3]:
        acc.check("nsi_interregional_betweenness[w]",
                  lambda S=S, T=T: net.nsi_interregional_betweenness(S, T),
                  G.np_betweenness(Dw_, Sw_, False, S, T, w=w))
    if G.is_connected(A) and n >= 3:
        tol = _eig_tol(G.plus(A))
        ev, lam = G.nsi_w_eigenvector_centrality(A, w)
        x = acc.check("nsi_eigenvector_centrality[w]",
                      net.nsi_eigenvector_centrality, ev, tol=tol, sig=False)
        if x is not None:
            _check_eigvec(acc, "nsi_eigenvector_centrality[w]",
                          np.array(G.plus(A), dtype=float) * w[None, :],
                          lam, np.asarray(x, dtype=float), tol)
    else:
        acc.ex("spectral centralities: graph not (strongly) connected")
    if rw:
        acc.check("nsi_arenas_betweenness[w]", net.nsi_arenas_betweenness,
                  G.nsi_w_arenas_betweenness(A, w), tol=RW)
        acc.check("nsi_arenas_betweenness[w,exclude_neighbors=False]",
                  lambda: net.nsi_arenas_betweenness(exclude_neighbors=False),
                  G.nsi_w_arenas_betweenness(A, w, exclude_neighbors=False),
                  tol=RW)
        acc.check("nsi_newman_betweenness[w]", net.nsi_newman_betweenness,
                  G.nsi_w_newman_betweenness(A, w), tol=RW)
        acc.check("nsi_newman_betweenness[w,add_local_ends]",
                  lambda: net.nsi_newman_betweenness(add_local_ends=True),
                  G.nsi_w_newman_betweenness(A, w, add_local_ends=True),
                  tol=RW)


def _check_all(acc, A, directed, groups):
    net = _mk(A, directed)
    if "deg" in groups:
        _check_deg(acc, net, A, directed)
    if "clust" in groups:
        _check_clust(acc, net, A, directed)
    if "cliq" in groups:
        _check_cliq(acc, net, A, directed)
    if "path" in groups:
        _check_path(acc, net, A, directed)
    if "betw" in groups:
        _check_betw(acc, net, A, directed)
    if "rw" in groups:
        _check_rw(acc, net, A, directed)
    if "misc" in groups:
        _check_misc(acc, net, A, directed)
    if "spec" in groups:
        _check_spec(acc, net, A, directed)
    if "nsi" in groups:
        _check_nsi(acc, net, A, directed)


def _check_weighted(acc, A, directed, W, w=None, big=False, signed=False):
    from pyunicorn.core import Network
    net = _mk(A, directed, W, w)
    # the attribute matrix as the library hands it to the strength, motif
    # and Holme formulas; if it is already wrong that is the one finding and
    # the derived measures are held to what the library reports here
    la = acc.check("link_attribute", lambda: net.link_attribute("w"), W)
    W0 = W
    if la is not None and np.shape(la) == np.shape(W) and \
            not np.array_equal(np.asarray(la, dtype=float),
                               np.array(W, dtype=float)):
        W = np.asarray(la, dtype=float).tolist()
        la = None
    acc.check("degree[key]", lambda: net.degree("w"),
              G.degree(A, directed, W))
    acc.check("indegree[key]", lambda: net.indegree("w"), G.indegree(A, W))
    acc.check("outdegree[key]", lambda: net.outdegree("w"),
              G.outdegree(A, W))
    acc.check("bildegree[key]", lambda: net.bildegree("w"),
              G.bildegree(A, W))
    if w is None:
        nin, nout = G.indegree(A, W), G.outdegree(A, W)
    else:       # n.s.i. strengths: sum_j w_j W_ji  /  sum_j W_ij w_j
        Wn, wn = np.array(W, dtype=float), np.asarray(w, dtype=float)
        nin, nout = (wn @ Wn).tolist(), (Wn @ wn).tolist()
    acc.check("nsi_degree[key]", lambda: net.nsi_degree("w"),
              [a + b for a, b in zip(nin, nout)] if directed else nin)
    acc.check("nsi_indegree[key]", lambda: net.nsi_indegree("w"), nin)
    acc.check("nsi_outdegree[key]", lambda: net.nsi_outdegree("w"), nout)
    if signed:
        # negative values are legal for an attribute (e.g. correlations) and
        # for the strengths above; lengths, PageRank weights and the motif
        # formulas are not defined for them
        acc.ex("path / spectral / motif measures with a negative link "
               "attribute (not defined)")
        return
    for kind in G.MOTIFS:
        if la is None:
            acc.ex("weighted motif clustering: link_attribute already "
                   "reported wrong (or raising) on this graph")
            continue
        acc.check("local_%smotif_clustering[key]" % kind,
                  lambda kd=kind: getattr(
                      net, "local_%smotif_clustering" % kd)("w"),
                  G.motif_clustering(A, kind, W))
    W = W0          # paths and PageRank read the attribute from the graph
    _check_path(acc, net, A, directed, W, lv=not big, big=big)
    _check_spec(acc, net, A, directed, W)
    if not directed:
        acc.check("weighted_local_clustering",
                  lambda: Network.weighted_local_clustering(W),
                  G.np_weighted_local_clustering(W) if big
                  else G.weighted_local_clustering(W))


# ---------------------------------------------------------------------------
# structured graphs


def _empty(n):
    return [[0] * n for _ in range(n)]


def _link(A, i, j):
    A[i][j] = A[j][i] = 1


def _complete(n):
    return [[int(i != j) for j in range(n)] for i in range(n)]


def _union(*parts):
    n = sum(len(p) for p in parts)
    A = _empty(n)
    off = 0
    for p in parts:
        for i in range(len(p)):
            for j in range(len(p)):
                A[off + i][off + j] = p[i][j]
        off += len(p)
    return A


def _path(n):
    A = _empty(n)
    for i in range(n - 1):
        _link(A, i, i + 1)
    return A


def _cycle(n):
    A = _path(n)
    _link(A, 0, n - 1)
    return A


def _star(n):
    A = _empty(n)
    for i in range(1, n):
        _link(A, 0, i)
    return A


def _wheel(n):
    """hub 0 + cycle on 1..n-1"""
    A = _star(n)
    for i in range(1, n):
        _link(A, i, i % (n - 1) + 1)
    return A


def _minus_matching(n):
    A = _complete(n)
    for i in range(0, n - 1, 2):
        A[i][i + 1] = A[i + 1][i] = 0
    return A


def _multipartite(*sizes):
    part = [p for p, s in enumerate(sizes) for _ in range(s)]
    n = len(part)
    return [[int(part[i] != part[j]) for j in range(n)] for i in range(n)]


def _hypercube(d):
    n = 1 << d
    return [[int(bin(i ^ j).count("1") == 1) for j in range(n)]
            for i in range(n)]


def _grid(a, b):
    A = _empty(a * b)
    for x in range(a):
        for y in range(b):
            if x + 1 < a:
                _link(A, x * b + y, (x + 1) * b + y)
            if y + 1 < b:
                _link(A, x * b + y, x * b + y + 1)
    return A


def _petersen():
    A = _empty(10)
    for i in range(5):
        _link(A, i, (i + 1) % 5)
        _link(A, i, i + 5)
        _link(A, 5 + i, 5 + (i + 2) % 5)
    return A


def _hub(deg, clique):
    """node 0 linked to 1..deg; nodes 1..clique form a clique; node deg+1
    hangs off node 1 (so that not every node sees the hub only)."""
    A = _empty(deg + 2)
    for i in range(1, deg + 1):
        _link(A, 0, i)
    for i in range(1, clique + 1):
        for j in range(i + 1, clique + 1):
            _link(A, i, j)
    _link(A, 1, deg + 1)
    return A


def _bridged(a, b):
    A = _union(a, b)
    _link(A, len(a) - 1, len(a))
    return A


def _dicycle(n):
    A = _empty(n)
    for i in range(n):
        A[i][(i + 1) % n] = 1
    return A


def _orient(A, rule):
    """A directed graph from an undirected one: keep i->j for i<j, and the
    reverse link as well when rule(i, j)."""
    n = len(A)
    B = _empty(n)
    for i in range(n):
        for j in range(i + 1, n):
            if A[i][j]:
                B[i][j] = 1
                if rule(i, j):
                    B[j][i] = 1
    return B


LIGHT = ("deg", "clust", "cliq", "misc")
NAMED = {
    # name: (builder, directed, groups, quick?)
    "K6": (lambda: _complete(6), False, ALL_GROUPS, True),
    "K7": (lambda: _complete(7), False, ALL_GROUPS, True),
    "K7-matching": (lambda: _minus_matching(7), False, ALL_GROUPS, True),
    "K8-matching": (lambda: _minus_matching(8), False, ALL_GROUPS, True),
    "K10": (lambda: _complete(10), False, ALL_GROUPS, False),
    "W6": (lambda: _wheel(6), False, ALL_GROUPS, True),
    "W7": (lambda: _wheel(7), False, ALL_GROUPS, True),
    "W9": (lambda: _wheel(9), False, ALL_GROUPS, True),
    "W12": (lambda: _wheel(12), False, ALL_GROUPS, False),
    "K3,3": (lambda: _multipartite(3, 3), False, ALL_GROUPS, True),
    "K2,2,2": (lambda: _multipartite(2, 2, 2), False, ALL_GROUPS, True),
    "K1,2,3": (lambda: _multipartite(1, 2, 3), False, ALL_GROUPS, True),
    "K2,3,4": (lambda: _multipartite(2, 3, 4), False, ALL_GROUPS, True),
    "K3,3,3,3": (lambda: _multipartite(3, 3, 3, 3), False, ALL_GROUPS,
                 False),
    "K4,7": (lambda: _multipartite(4, 7), False, ALL_GROUPS, True),
    "P10": (lambda: _path(10), False, ALL_GROUPS, True),
    "P25": (lambda: _path(25), False, ALL_GROUPS, False),
    "P40": (lambda: _path(40), False, ALL_GROUPS, True),
    "S10": (lambda: _star(10), False, ALL_GROUPS, True),
    "S40": (lambda: _star(40), False, ALL_GROUPS, True),
    "C6": (lambda: _cycle(6), False, ALL_GROUPS, True),
    "C9": (lambda: _cycle(9), False, ALL_GROUPS, True),
    "C12": (lambda: _cycle(12), False, ALL_GROUPS, False),
    "Q3": (lambda: _hypercube(3), False, ALL_GROUPS, True),
    "Q4": (lambda: _hypercube(4), False, ALL_GROUPS, True),
    "grid3x4": (lambda: _grid(3, 4), False, ALL_GROUPS, True),
    "grid4x4": (lambda: _grid(4, 4), False, ALL_GROUPS, True),
    "grid5x5": (lambda: _grid(5, 5), False, ALL_GROUPS, False),
    "petersen": (_petersen, False, ALL_GROUPS, True),
    "P5+C4+K3": (lambda: _union(_path(5), _cycle(4), _complete(3)), False,
                 ALL_GROUPS, True),
    "K4+K4": (lambda: _union(_complete(4), _complete(4)), False, ALL_GROUPS,
              True),
    "K5+K5+bridge": (lambda: _bridged(_complete(5), _complete(5)), False,
                     ALL_GROUPS, True),
    "S5+3isolated": (lambda: _union(_star(5), _empty(3)), False, ALL_GROUPS,
                     True),
    "P20+P20": (lambda: _union(_path(20), _path(20)), False, ALL_GROUPS,
                True),
    "Q3+C5+K1": (lambda: _union(_hypercube(3), _cycle(5), _empty(1)), False,
                 ALL_GROUPS, True),
    "K6-directed-acyclic": (lambda: _orient(_complete(6), lambda i, j: False),
                            True, ALL_GROUPS, True),
    "C7-directed": (lambda: _dicycle(7), True, ALL_GROUPS, True),
    "W7-mixed": (lambda: _orient(_wheel(7), lambda i, j: (i + j) % 3 == 0),
                 True, ALL_GROUPS, True),
    "grid3x3-mixed": (lambda: _orient(_grid(3, 3), lambda i, j: i % 2 == 0),
                      True, ALL_GROUPS, True),
    "K5-reciprocal": (lambda: _complete(5), True, ALL_GROUPS, True),
    "hub217+K5": (lambda: _hub(217, 5), False, LIGHT, True),
    "hub217+K5/paths": (lambda: _hub(217, 5), False,
                        ("path", "betw", "rw", "nsi"), False),
    "hub1292+K4": (lambda: _hub(1292, 4), False, ("cliq45",), True),
    "K183": (lambda: _complete(183), False, ("motif3",), True),
}


# ---------------------------------------------------------------------------
# scale: larger structured inputs just above the internal thresholds of the
# implementation (component sizes 9 / 11-12 / 15 / 23 of the random-walk
# betweennesses, N >= 21 of the iterative eigen-solver incl. bipartite graphs,
# N > 128 / > 256 row blocks, N >= 182 where i*N+j leaves int16), always with
# unequal node weights; judged by the same definitions (vectorised)


def _node_weights(n):
    return [(0.5, 1.0, 1.5, 2.0, 2.5)[(7 * i + 3) % 5] for i in range(n)]


def _tree(n, arity):
    A = _empty(n)
    for i in range(1, n):
        _link(A, i, (i - 1) // arity)
    return A


def _relabel(A, g):
    """node i becomes (i * g) mod n: interleaves the labels of components"""
    n = len(A)
    B = _empty(n)
    for i in range(n):
        for j in range(n):
            if A[i][j]:
                B[(i * g) % n][(j * g) % n] = 1
    return B


def _ring_chords(n, step, directed=False):
    """ring + a chord of length `step` from every third node (every second of
    them reciprocated in the directed case) + links at the highest labels"""
    A = _empty(n)

    def put(i, j, both):
        A[i][j] = 1
        if both:
            A[j][i] = 1
    for i in range(n):
        put(i, (i + 1) % n, not directed)
        if i % 3 == 0:
            put(i, (i + step) % n, (not directed) or i % 6 == 0)
    put(n - 1, n // 2, not directed)
    put(n - 1, n - 3, not directed)
    put(1, n - 2, not directed)
    return A


def _scale_attr(A, directed):
    vals = (0.5, 1.0, 2.0, 1.5, 0.25, 3.0)
    n = len(A)
    W = [[0.0] * n for _ in range(n)]
    for i in range(n):
        for j in range(n):
            if A[i][j]:
                a, b = (i, j) if directed else (min(i, j), max(i, j))
                W[i][j] = vals[(3 * a + 5 * b + 1) % 6]
    return W


_SMALLG = ("deg", "clust", "cliq", "path", "lv", "betw", "rw", "misc",
           "spec", "nsiw", "nsiw-rw")
_BIGG = ("deg", "clust", "cliq", "path", "betw", "misc", "spec", "nsiw")
SCALE = {
    # name: (builder, directed, groups, thorough_only)
    "P9": (lambda: _path(9), False, _SMALLG, False),
    "C11+K1": (lambda: _relabel(_union(_cycle(11), _empty(1)), 5), False,
               _SMALLG, False),
    "tree12": (lambda: _tree(12, 3), False, _SMALLG, False),
    "grid3x5": (lambda: _grid(3, 5), False, _SMALLG, False),
    "P21": (lambda: _path(21), False, _SMALLG, False),
    "S21": (lambda: _star(21), False, _SMALLG, False),
    "K7,14": (lambda: _multipartite(7, 14), False, _SMALLG, False),
    "tree23": (lambda: _tree(23, 2), False, _SMALLG, False),
    "C23+chords": (lambda: _ring_chords(23, 5), False, _SMALLG, False),
    "P25": (lambda: _path(25), False, _SMALLG, False),
    "grid3x11": (lambda: _grid(3, 11), False, _SMALLG, False),
    "S34": (lambda: _star(34), False, _SMALLG, False),
    "P9+C11+tree15+2K1": (lambda: _relabel(_union(
        _path(9), _cycle(11), _tree(15, 2), _empty(2)), 7), False, _SMALLG,
        False),
    "C23+grid4x6+W11+2K1": (lambda: _relabel(_union(
        _ring_chords(23, 4), _grid(4, 6), _wheel(11), _empty(2)), 7), False,
        _SMALLG, False),
    "ring23-directed": (lambda: _ring_chords(23, 5, True), True, _SMALLG,
                        False),
    "ring150": (lambda: _ring_chords(150, 7), False, _BIGG, False),
    "ring150-directed": (lambda: _ring_chords(150, 7, True), True, _BIGG,
                         False),
    "ring209": (lambda: _ring_chords(209, 11), False, _BIGG, False),
    "ring300": (lambda: _ring_chords(300, 13), False, _BIGG, False),
    "ring300-directed": (lambda: _ring_chords(300, 13, True), True, _BIGG,
                         True),
    "ring60/random-walk": (lambda: _ring_chords(60, 7), False,
                           ("rw", "nsiw", "nsiw-rw"), False),
    "ring150/random-walk": (lambda: _ring_chords(150, 7), False,
                            ("rw", "nsiw", "nsiw-rw"), True),
    "ring182[attr]": (lambda: _ring_chords(182, 9), False, ("attr",), False),
    "ring200-directed[attr]": (lambda: _ring_chords(200, 9, True), True,
                               ("attr",), False),
    "ring260[attr]": (lambda: _ring_chords(260, 11), False, ("attr",),
                      False),
    "ring300-directed[attr]": (lambda: _ring_chords(300, 13, True), True,
                               ("attr",), True),
}


def fam_scale(case):
    name = case
    build, directed, groups, _ = SCALE[name]
    A = build()
    n = len(A)
    w = _node_weights(n)
    big = n > 40
    acc = Acc(_tag(directed) + "-scale", "scale graph %s (%d nodes, unequal "
              "node weights)" % (name, n))
    if groups == ("attr",):
        _check_weighted(acc, A, directed, _scale_attr(A, directed), w=w,
                        big=True)
        return acc.result(trivial=False)
    net = _mk(A, directed, w=w)
    if "deg" in groups:
        _check_deg(acc, net, A, directed)
    if "clust" in groups:
        _check_clust(acc, net, A, directed)
    if "cliq" in groups:
        _check_cliq(acc, net, A, directed, big=big)
    if "path" in groups:
        _check_path(acc, net, A, directed, lv="lv" in groups, big=big)
    if "betw" in groups:
        _check_betw(acc, net, A, directed, big=big)
    if "rw" in groups:
        _check_rw(acc, net, A, directed)
    if "misc" in groups:
        _check_misc(acc, net, A, directed, big=big)
    if "spec" in groups:
        _check_spec(acc, net, A, directed)
    if "nsiw" in groups:
        _check_nsi_w(acc, net, A, directed, w, rw="nsiw-rw" in groups)
    return acc.result(trivial=False)


# ---------------------------------------------------------------------------
# families


def _tag(directed):
    return "directed" if directed else "undirected"


def fam_und(case):
    n, mask = case
    A = adj(n, False, mask).tolist()
    acc = Acc("undirected", "undirected n=%d mask=%d" % (n, mask))
    _check_all(acc, A, False, ALL_GROUPS)
    return acc.result(trivial=(mask == 0))


def fam_dir(case):
    n, mask = case
    A = adj(n, True, mask).tolist()
    acc = Acc("directed", "directed n=%d mask=%d" % (n, mask))
    _check_all(acc, A, True, ALL_GROUPS)
    return acc.result(trivial=(mask == 0))


def fam_wund(case):
    n, mask, code = case[:3]
    zero = len(case) > 3 and case[3] == "zero"
    signed = len(case) > 3 and case[3] == "signed"
    vals = ATTR_VALUES_ZERO if zero else (
        ATTR_VALUES_SIGNED if signed else None)
    A = adj(n, False, mask).tolist()
    W = _weights_from_code(A, False, code, vals)
    acc = Acc("undirected" + ("+zero-length" if zero else "") + (
        "+negative" if signed else ""),
              "undirected n=%d mask=%d attr-code=%d%s" % (
                  n, mask, code, " values %s" % (vals,) if vals else ""))
    _check_weighted(acc, A, False, W, signed=signed)
    return acc.result(trivial=(mask == 0))


def fam_wdir(case):
    n, mask, code = case[:3]
    zero = len(case) > 3 and case[3] == "zero"
    signed = len(case) > 3 and case[3] == "signed"
    vals = ATTR_VALUES_ZERO if zero else (
        ATTR_VALUES_SIGNED if signed else None)
    A = adj(n, True, mask).tolist()
    W = _weights_from_code(A, True, code, vals)
    acc = Acc("directed" + ("+zero-length" if zero else "") + (
        "+negative" if signed else ""),
              "directed n=%d mask=%d attr-code=%d%s" % (
                  n, mask, code, " values %s" % (vals,) if vals else ""))
    _check_weighted(acc, A, True, W, signed=signed)
    return acc.result(trivial=(mask == 0))


def fam_named(case):
    name = case
    build, directed, groups, _ = NAMED[name]
    A = build()
    acc = Acc(_tag(directed), "structured graph %s (%d nodes)" % (
        name, len(A)))
    if groups == ("motif3",):
        # closed 3-walk counts beyond int16 on a few nodes of a big clique
        net = _mk(A, directed)
        nodes = [0, 1, len(A) - 1]
        for kind in G.MOTIFS:
            exp = G.motif_clustering(A, kind, nodes=nodes)
            acc.check("local_%smotif_clustering" % kind,
                      lambda kd=kind: np.asarray(getattr(
                          net, "local_%smotif_clustering" % kd)())[nodes],
                      exp, disc=_disc_motif(A, kind))
    elif groups == ("cliq45",):
        # degree products beyond int32 in the cliquishness kernels
        net = _mk(A, directed)
        for order in (4, 5):
            acc.check("local_cliquishness[%d]" % order,
                      lambda o=order: net.local_cliquishness(o),
                      G.local_cliquishness(A, order),
                      disc=_disc_cliq(A, order, acc.tag))
    else:
        _check_all(acc, A, directed, groups)
    return acc.result(trivial=False)


def _gnp(n, p_milli, seed, directed):
    rnd = random.Random(seed * 1000003 + n * 1009 + p_milli)
    A = _empty(n)
    for (i, j) in pairs(n, directed):
        if rnd.random() * 1000 < p_milli:
            A[i][j] = 1
            if not directed:
                A[j][i] = 1
    return A


def fam_extra(case):
    n, p_milli, seed, directed = case
    A = _gnp(n, p_milli, seed, bool(directed))
    acc = Acc(_tag(directed), "G(n=%d,p=%.3f) seed=%d %s" % (
        n, p_milli / 1000., seed, _tag(directed)))
    _check_all(acc, A, bool(directed), ALL_GROUPS)
    return acc.result(trivial=False)


def fam_selftest(case):
    """Second opinion on the evaluators (networkx); raising = harness
    error."""
    import networkx as nx
    n, directed, mask = case
    if directed == 2:      # determinism of a whole case (seams hold)
        r1, r2 = fam_und([n, mask]), fam_und([n, mask])
        assert r1["sig"] == r2["sig"] and r1["evals"] == r2["evals"] and \
            [v["key"] for v in r1["viol"]] == [v["key"] for v in r2["viol"]]
        return {"evals": 0, "trivial": True}
    A = adj(n, bool(directed), mask).tolist()
    a = np.array(A)
    Gx = nx.from_numpy_array(a, create_using=nx.DiGraph if directed
                             else nx.Graph)

    def same(x, y, what, tol=1e-9):
        x = np.array([np.nan if v is None else v for v in np.ravel(
            np.array(x, dtype=object))], dtype=float)
        y = np.asarray(y, dtype=float).ravel()
        m = ~np.isnan(x)
        assert x.shape == y.shape and np.allclose(x[m], y[m], atol=tol), (
            what, case, x.tolist(), y.tolist())
    # distances
    D = G.path_lengths(A)
    spl = dict(nx.all_pairs_shortest_path_length(Gx))
    same(D, [[spl[i].get(j, INF) for j in range(n)] for i in range(n)],
         "path_lengths")
    bc = nx.betweenness_centrality(Gx, normalized=False)
    same(G.betweenness(A, bool(directed)), [bc[i] for i in range(n)],
         "betweenness")
    cn = nx.core_number(Gx)
    same(G.coreness(A, bool(directed)), [cn[i] for i in range(n)],
         "coreness")
    pr = nx.pagerank(Gx, alpha=0.85, tol=1e-13, max_iter=10000)
    same(G.pagerank(A), [pr[i] for i in range(n)], "pagerank", 1e-8)
    # Fagiolo: the four motif counts add up to all directed triangles
    kin, kout, kbil = G.indegree(A), G.outdegree(A), G.bildegree(A)
    tsum = np.zeros(n)
    for kind in G.MOTIFS:
        c = G.motif_clustering(A, kind)
        den = {"cycle": [kin[i] * kout[i] - kbil[i] for i in range(n)],
               "mid": [kin[i] * kout[i] - kbil[i] for i in range(n)],
               "in": [kin[i] * (kin[i] - 1) for i in range(n)],
               "out": [kout[i] * (kout[i] - 1) for i in range(n)]}[kind]
        tsum += np.array(c) * np.array(den)
    if directed:
        cl = nx.clustering(Gx)
        tot = [kin[i] + kout[i] for i in range(n)]
        same(tsum, [cl[i] * (tot[i] * (tot[i] - 1) - 2 * kbil[i])
                    for i in range(n)], "motif sum")
        if nx.is_strongly_connected(Gx) and n > 1:
            cc = nx.closeness_centrality(Gx.reverse(), wf_improved=False)
            same(G.closeness(D), [cc[i] for i in range(n)], "closeness")
        return {"evals": 0, "trivial": True}
    cl = nx.clustering(Gx)
    same(G.local_clustering(A), [cl[i] for i in range(n)], "clustering")
    for kind in G.MOTIFS:
        same(G.motif_clustering(A, kind), [cl[i] for i in range(n)],
             "motif=clustering on undirected")
    t = G.transitivity(A)
    if t is not None:
        same(t, nx.transitivity(Gx), "transitivity")
    eb = nx.edge_betweenness_centrality(Gx, normalized=False)
    LB = np.zeros((n, n))
    for (i, j), v in eb.items():
        LB[i, j] = LB[j, i] = v
    same(G.link_betweenness(A), LB, "link_betweenness")
    same(G.interregional_betweenness(A, range(n), range(n)),
         [2 * bc[i] for i in range(n)], "interregional(all,all)")
    if a.sum():
        asr = G.assortativity(A)
        if asr is not None:
            same(asr, nx.degree_assortativity_coefficient(Gx),
                 "assortativity", 1e-8)
        avg, mx = G.neighbors_degree(A, False)
        nd = nx.average_neighbor_degree(Gx)
        same(avg, [nd[i] for i in range(n)], "average_neighbors_degree")
    same(G.global_efficiency(D), nx.global_efficiency(Gx),
         "global_efficiency")
    for order in (3, 4, 5):
        exp = []
        for i in range(n):
            nb = [j for j in range(n) if A[i][j]]
            if len(nb) < order - 1:
                exp.append(0.0)
                continue
            sub = Gx.subgraph(nb)
            cnt = sum(1 for c in nx.enumerate_all_cliques(sub)
                      if len(c) == order - 1)
            exp.append(cnt / len(list(itertools.combinations(nb,
                                                             order - 1))))
        same(G.local_cliquishness(A, order), exp, "cliquishness")
    if nx.is_connected(Gx) and n >= 3:
        cc = nx.closeness_centrality(Gx, wf_improved=False)
        same(G.closeness(D), [cc[i] for i in range(n)], "closeness")
        cf = nx.current_flow_betweenness_centrality(Gx, normalized=False)
        same(G.newman_betweenness(A),
             [2 * (cf[i] + n - 1) / (n - 1) for i in range(n)],
             "newman", 1e-8)
        ev = nx.eigenvector_centrality_numpy(Gx)
        v = np.array([ev[i] for i in range(n)])
        same(G.eigenvector_centrality(A), v / v.max(), "eigenvector", 1e-7)
        # Arenas: Monte-Carlo free check through the hitting-time identity
        # sum_j (arrivals at j) = expected walk length summed over (s,t)
        P = a / a.sum(axis=1)[:, None]
        tot = 0.0
        for t_ in range(n):
            tr = [x for x in range(n) if x != t_]
            h = np.linalg.solve(np.eye(n - 1) - P[np.ix_(tr, tr)],
                                np.ones(n - 1))
            tot += h.sum()
        same(sum(G.arenas_betweenness(A)), tot, "arenas total", 1e-8)
    return {"evals": 0, "trivial": True}


FAMILIES = {"und": fam_und, "dir": fam_dir, "wund": fam_wund,
            "wdir": fam_wdir, "named": fam_named, "scale": fam_scale,
            "extra": fam_extra, "selftest": fam_selftest}


# ---------------------------------------------------------------------------


def _attr_orbit_reps(n, directed, mask):
    """Codes of the attribute assignments on the links of the graph, one per
    orbit under the automorphism group (the smallest code of each orbit):
    exactly one representative per isomorphism class of link-attributed
    graphs, as the topologies themselves are class representatives."""
    P = pairs(n, directed)
    links = [p for k, p in enumerate(P) if mask >> k & 1]
    m = len(links)
    pos = {p: k for k, p in enumerate(links)}
    A = adj(n, directed, mask)
    codes = np.arange(3 ** m, dtype=np.int64)
    pow3 = 3 ** np.arange(m, dtype=np.int64)
    digits = (codes[:, None] // pow3[None, :]) % 3
    best = codes.copy()
    for perm in itertools.permutations(range(n)):
        if not all(A[perm[i]][perm[j]] == A[i][j]
                   for i in range(n) for j in range(n)):
            continue
        img = []
        for (i, j) in links:
            a, b = perm[i], perm[j]
            if not directed and a > b:
                a, b = b, a
            img.append(pos[(a, b)])
        best = np.minimum(best, digits @ pow3[np.array(img, dtype=int)])
    return [int(c) for c in codes[best == codes]]


def _weighted_cases(graphs, max_links=None, orbits=False):
    out = []
    for (n, directed, mask) in graphs:
        m = bin(mask).count("1")
        if m == 0 or (max_links is not None and m > max_links):
            continue      # no link, no link attribute
        if orbits:
            out += [[n, mask, c] for c in _attr_orbit_reps(n, directed, mask)]
        else:
            out += [[n, mask, c] for c in range(3 ** m)]
    return out


def run(ctx):
    thorough = ctx.tier == "thorough"
    assert G.docstring_selftest()
    # --- evaluator self-test (harness error on disagreement)
    st = []
    for n in range(2, 5):
        st += [[n, 0, m] for (_, _, m) in all_graphs(n, False)]
    for n in range(2, 4):
        st += [[n, 1, m] for (_, _, m) in all_graphs(n, True)]
    st += [[4, 1, m] for (_, _, m) in (all_graphs(4, True) if thorough
                                       else iso(4, True))]
    st += [[5, 0, m] for (_, _, m) in iso(5, False)]
    st += [[4, 2, 30], [5, 2, 1023], [5, 2, 341]]
    ctx.explore("selftest", st, desc="evaluators vs networkx (second "
                "opinion; disagreement = harness error)")
    if ctx.errors:
        return
    # --- exhaustive cores
    nu = 5 if thorough else 4
    cases = []
    for n in range(2, nu + 1):
        cases += [[n, m] for (_, _, m) in all_graphs(n, False)]
    isoN = nu + 1
    cases += [[isoN, m] for (_, _, m) in iso(isoN, False)]
    ctx.explore("und", cases, desc="all labelled undirected graphs on 2..%d "
                "nodes + iso(%d)" % (nu, isoN))
    nd = 4 if thorough else 3
    cases = []
    for n in range(2, nd + 1):
        cases += [[n, m] for (_, _, m) in all_graphs(n, True)]
    if not thorough:
        cases += [[4, m] for (_, _, m) in iso(4, True)]
    ctx.explore("dir", cases, desc="all labelled directed graphs on 2..%d "
                "nodes%s" % (nd, "" if thorough else " + iso(4)"))
    # --- link attributes
    ug = [g for n in range(2, 5) for g in all_graphs(n, False)]
    cases = _weighted_cases(ug if thorough else
                            [g for n in range(2, 5) for g in iso(n, False)])
    cases += _weighted_cases(iso(5, False), None if thorough else 7,
                             orbits=True)
    cases += [c + ["zero"] for c in _weighted_cases(
        [g for n in range(2, 5) for g in iso(n, False)])]
    cases += [c + ["signed"] for c in _weighted_cases(
        [g for n in range(2, 5) for g in iso(n, False)])]
    ctx.explore("wund", cases, desc="every assignment of %s to the links of "
                "%s graphs on 2..4 nodes; iso(5)%s: one assignment per "
                "isomorphism class of attributed graphs" % (
                    list(ATTR_VALUES), "all labelled" if thorough else
                    "the class representatives of", "" if thorough
                    else " with <= 7 links"))
    dg = [g for n in range(2, 4) for g in all_graphs(n, True)]
    cases = _weighted_cases(dg)
    cases += _weighted_cases(iso(4, True), 5 if thorough else 3, orbits=True)
    cases += [c + ["zero"] for c in _weighted_cases(
        [g for n in range(2, 4) for g in iso(n, True)])]
    cases += [c + ["signed"] for c in _weighted_cases(
        [g for n in range(2, 4) for g in iso(n, True)])]
    ctx.explore("wdir", cases, desc="every assignment on all labelled "
                "directed graphs on 2..3 nodes; iso(4) with <= %d links: one "
                "assignment per isomorphism class of attributed graphs" % (
                    5 if thorough else 3))
    # --- structured graphs
    names = [k for k, v in NAMED.items() if thorough or v[3]]
    ctx.explore("named", names, chunk=1, desc="fixed structured graphs")
    # --- scale
    scale = [k for k, v in SCALE.items() if thorough or not v[3]]
    ctx.explore("scale", scale, chunk=1, desc="larger structured graphs just "
                "above the implementation's size thresholds, unequal node "
                "weights")
    # --- extras
    extra = []
    if ctx.seed:
        rnd = random.Random(ctx.seed)
        for k in range(16 if thorough else 8):
            n = rnd.randint(6, 40)
            p = rnd.choice([50, 100, 200, 350, 500, 650, 800, 950])
            extra.append([n, p, ctx.seed * 100 + k, int(k % 4 == 3)])
        ctx.explore("extra", extra, chunk=1,
                    desc="seeded G(n,p), not exhaustive coverage")
    ctx.rule = (
        "und/dir: every labelled graph of the stated size (plus class "
        "representatives one size up) x every measure; wund/wdir: every "
        "assignment of %s to the links of the class representatives; named: "
        "the fixed list.  A case is non-trivial when the graph has a link; "
        "distinct = distinct vectors of all observed measure values "
        "(spectral ones left out, 6 decimals)." % (list(ATTR_VALUES),))
    ctx.notes.update({
        "undirected_labelled_nmax": nu, "undirected_iso_n": isoN,
        "directed_labelled_nmax": nd,
        "directed_iso_n": None if thorough else 4,
        "attribute_values": list(ATTR_VALUES),
        "structured": names,
        "scale": scale,
        "extra": {"seed": ctx.seed, "cases": extra,
                  "note": "seeded G(n,p); not exhaustive coverage"},
        "N=1": "not enumerated: Network cannot be constructed "
               "(link_density divides by N-1)"})
    ctx.assumptions += [
        "numpy dense solve/eigh are correct (oracle of random-walk and "
        "spectral measures); ARPACK/PRPACK results compared with rtol 1e-6",
        "the documented normalisation conventions of the library are "
        "adopted (refmodel/graph.py docstring); each was reproduced on the "
        "docstring example before use",
        "n.s.i. relation under unit node weights: the unweighted definition "
        "evaluated on A + identity (Heitzig et al. 2012); corrected "
        "variants with typical weight 1 equal the unweighted measure",
        "measures are judged only on the graph class where their docstring "
        "definition is unambiguous; everything else is counted under "
        "`excluded`"]
